import SCModel.Props.C14b
import SCModel.Props.C02b
/-!
# C14cA — seeded cache defects (part A): variants of the object semantics, faithfulness, the keep-variants 1–3

(overview and the table variant → exposing history → exact class: `Props/C14c.lean`)

0. `Variant` (own `layer`, own query), its single-object run `Variant.run` and world run `Variant.runW`;
   `Faithful V o ops`: after every prefix the variant holds exactly the object – function *and* caches – the reference
   implementation holds.  `faithful_iff` (step by step), `faithful_correct` / `faithfulW_correct` (faithful ⇒ the
   answers of the cache-free semantics).
1–3. `layerKeep cond kIM kD`: a `layer` that, on the branch `cond f ts`, forgets to reset the (integral, mean) cache
   (`kIM`) and / or the distribution cache (`kD`).  `layerKeep_eq_iff` (one step, exact), `faithful_keep_iff` (the class
   as the state machine `safeKeep`), `safeKeep_iff` / `faithful_keep_words` (in words), `safeKeep_stable` +
   `safeSimple_iff` (receivers on which the branch does not depend on the moment), `safeKeep_of_no_query_before_layer`
   (no filling query before a `layer`: no keep-variant is exposed).  Instances: `layerNoResetMasked` (C14b's defect),
   `layerNoResetStepFree`, `layerUnboundedShortcut`, each with refutation, exact class, world-level statement, a
   witness that *outputs* may agree outside the class, and non-vacuity examples.
-/
set_option linter.unusedSectionVars false
set_option linter.unusedVariables false
namespace SC.Props.C14c
open SC SC.Stairs SC.Obj SC.Props.C14 SC.Props.C14b

/-! ## 0. variants of the object semantics, faithfulness -/

/-- a variant of the object semantics: its own `layer` and its own query -/
structure Variant where
  lay : Obj → List (Triple Rat) → Obj
  qry : Obj → Query → Obj × List Val

/-- the reference implementation of `Model/World.lean` -/
def ref : Variant := ⟨Obj.layer, Obj.query⟩

def Variant.step (V : Variant) (o : Obj) : HOp → Obj × List Val
  | .layer ts => (V.lay o ts, [])
  | .query q => V.qry o q

/-- a single-object history under the variant semantics -/
def Variant.run (V : Variant) (o : Obj) : List HOp → Obj × List (List Val)
  | [] => (o, [])
  | op :: r => ((V.run (V.step o op).1 r).1, (V.step o op).2 :: (V.run (V.step o op).1 r).2)

/-- the world with outputs under the variant semantics (creating operations as in `stepO`) -/
def Variant.stepW (V : Variant) (w : World) (op : WOp) : World × Out :=
  match op with
  | .layer i ts => (w.modify i (V.lay · ts), if i < w.length then .done else .badIndex)
  | .query i q =>
    (w.modify i (fun o => (V.qry o q).1), match w[i]? with
      | some o => .answer (V.qry o q).2
      | none => .badIndex)
  | op => stepO w op

def Variant.runW (V : Variant) (w : World) : List WOp → World × List Out
  | [] => (w, [])
  | op :: r => ((V.runW (V.stepW w op).1 r).1, (V.stepW w op).2 :: (V.runW (V.stepW w op).1 r).2)

section Helpers

theorem h14c_ref_run (o : Obj) (ops : List HOp) : ref.run o ops = o.run ops := by
  induction ops generalizing o with
  | nil => rfl
  | cons op r ih =>
    have hs : ref.step o op = o.step op := by cases op <;> rfl
    simp only [Variant.run, Obj.run, hs, ih]

theorem h14c_ref_stepW (w : World) (op : WOp) : ref.stepW w op = stepO w op := by
  cases op <;> rfl

theorem h14c_ref_runW (w : World) (ops : List WOp) : ref.runW w ops = runO w ops := by
  induction ops generalizing w with
  | nil => rfl
  | cons op r ih => simp only [Variant.runW, runO, h14c_ref_stepW, ih]

theorem h14c_run_cons (V : Variant) (o : Obj) (op : HOp) (r : List HOp) :
    V.run o (op :: r) = ((V.run (V.step o op).1 r).1, (V.step o op).2 :: (V.run (V.step o op).1 r).2) := rfl

theorem h14c_objrun_cons (o : Obj) (op : HOp) (r : List HOp) :
    o.run (op :: r) = (((o.step op).1.run r).1, (o.step op).2 :: ((o.step op).1.run r).2) := rfl

theorem h14c_run_append_fst (V : Variant) (o : Obj) (a b : List HOp) :
    (V.run o (a ++ b)).1 = (V.run (V.run o a).1 b).1 := by
  induction a generalizing o with
  | nil => rfl
  | cons op r ih => simp only [List.cons_append, Variant.run, ih]

theorem h14c_objrun_append_fst (o : Obj) (a b : List HOp) : (o.run (a ++ b)).1 = ((o.run a).1.run b).1 := by
  rw [← h14c_ref_run, ← h14c_ref_run, ← h14c_ref_run, h14c_run_append_fst]

end Helpers

/-- **faithful**: after every prefix of the history the variant holds exactly the object (function *and*
caches) the reference implementation holds -/
def Faithful (V : Variant) (o : Obj) (ops : List HOp) : Prop :=
  ∀ pre post, ops = pre ++ post → (V.run o pre).1 = (o.run pre).1

/-- a variant that only changes `layer` -/
def Variant.LayerOnly (V : Variant) : Prop := V.qry = Obj.query

/-- **faithfulness, step by step**: a layer-only variant is faithful on a history iff at every `layer` call of
the history its `layer` does to the *reference* object what the reference `layer` does -/
theorem faithful_iff (V : Variant) (hV : V.LayerOnly) (o : Obj) (ops : List HOp) :
    Faithful V o ops ↔
      ∀ pre ts post, ops = pre ++ .layer ts :: post → V.lay (o.run pre).1 ts = (o.run pre).1.layer ts := by
  induction ops generalizing o with
  | nil =>
    constructor
    · intro _ pre ts post h; cases pre <;> cases h
    · intro _ pre post h
      have : pre = [] := by cases pre with
        | nil => rfl
        | cons a r => cases h
      subst this; rfl
  | cons op r ih =>
    constructor
    · intro hF pre ts post he
      cases pre with
      | nil =>
        injection he with h1 h2; subst h1
        have := hF [.layer ts] r rfl
        simpa [Variant.run, Variant.step, Obj.run, Obj.step] using this
      | cons x pre' =>
        injection he with h1 h2; subst h1
        have h1 : (V.step o op).1 = (o.step op).1 := by
          have := hF [op] r rfl
          simpa [Variant.run, Obj.run] using this
        have hF' : Faithful V (o.step op).1 r := by
          intro p q hpq
          have := hF (op :: p) q (by rw [hpq]; rfl)
          simp only [Variant.run, h14c_objrun_cons, h1] at this
          exact this
        have := (ih (o.step op).1).1 hF' pre' ts post h2
        simpa [h14c_objrun_cons] using this
    · intro hL pre post he
      cases pre with
      | nil => rfl
      | cons x pre' =>
        injection he with h1 h2; subst h1
        have h1 : (V.step o op).1 = (o.step op).1 := by
          cases op with
          | layer ts => exact hL [] ts r rfl
          | query q => simp only [Variant.step, Obj.step]; rw [hV]
        have hF' : Faithful V (o.step op).1 r := by
          apply (ih (o.step op).1).2
          intro p ts q hpq
          have := hL (op :: p) ts q (by rw [hpq]; rfl)
          simpa [h14c_objrun_cons] using this
        simp only [Variant.run, h14c_objrun_cons, h1]
        exact hF' pre' post h2

/-- **a faithful run is correct**: same final object, same answers as the reference implementation, hence (for a
valid start) the answers of freshly built equal functions -/
theorem faithful_run_eq (V : Variant) (hV : V.LayerOnly) (o : Obj) (ops : List HOp) (h : Faithful V o ops) :
    V.run o ops = o.run ops := by
  induction ops generalizing o with
  | nil => rfl
  | cons op r ih =>
    have h1 : V.step o op = o.step op := by
      cases op with
      | layer ts =>
        have := (faithful_iff V hV o _).1 h [] ts r rfl
        simp only [Variant.step, Obj.step]; exact congrArg (·, []) this
      | query q => simp only [Variant.step, Obj.step]; rw [hV]
    have hF' : Faithful V (o.step op).1 r := by
      intro p q hpq
      have := h (op :: p) q (by rw [hpq]; rfl)
      simp only [Variant.run, h14c_objrun_cons, h1] at this
      exact this
    simp only [Variant.run, h14c_objrun_cons, h1, ih _ hF']

theorem faithful_correct (V : Variant) (hV : V.LayerOnly) (o : Obj) (ops : List HOp) (hc : CacheInv o)
    (h : Faithful V o ops) :
    (V.run o ops).2 = specRun o.f ops ∧ (V.run o ops).1.f = specFinal o.f ops := by
  rw [faithful_run_eq V hV o ops h]
  exact ⟨(run_spec o ops hc).1, (run_spec o ops hc).2.1⟩

/-! ### the same for whole worlds -/

/-- at every `layer` call of the world history the variant's `layer` does to the receiver (as the reference world
holds it at that moment) what the reference `layer` does -/
def FaithfulW (V : Variant) (w : World) (ops : List WOp) : Prop :=
  ∀ pre i ts post, ops = pre ++ .layer i ts :: post → ∀ o, (w.run pre)[i]? = some o → V.lay o ts = o.layer ts

section Helpers
theorem h14c_modify_congr {α : Type} (w : List α) (i : Nat) (g h : α → α) (hgh : ∀ o, w[i]? = some o → g o = h o) :
    w.modify i g = w.modify i h := by
  apply List.ext_getElem?
  intro k
  simp only [List.getElem?_modify]
  by_cases hik : i = k
  · subst hik
    cases hw : w[i]? with
    | none => simp
    | some o => simp [hgh o hw]
  · simp [hik]
end Helpers

theorem faithfulW_run_eq (V : Variant) (hV : V.LayerOnly) (w : World) (ops : List WOp) (h : FaithfulW V w ops) :
    V.runW w ops = runO w ops := by
  induction ops generalizing w with
  | nil => rfl
  | cons op r ih =>
    have h1 : V.stepW w op = stepO w op := by
      cases op with
      | layer i ts =>
        simp only [Variant.stepW, stepO, World.step]
        rw [h14c_modify_congr w i _ _ (fun o ho => h [] i ts r rfl o ho)]
      | query i q =>
        have hq : V.qry = Obj.query := hV
        simp only [Variant.stepW, stepO, World.step, hq]
        cases w[i]? <;> rfl
      | _ => rfl
    have h2 : FaithfulW V (stepO w op).1 r := by
      intro pre i ts post he o ho
      refine h (op :: pre) i ts post (by rw [he]; rfl) o ?_
      simpa [World.run, stepO_fst] using ho
    simp only [Variant.runW, runO, h1, ih _ h2]

/-- **a faithful world history is correct**: the variant world produces the output stream of the cache-free
reference semantics and holds the same functions -/
theorem faithfulW_correct (V : Variant) (hV : V.LayerOnly) (w : World) (ops : List WOp) (hw : WInv w)
    (h : FaithfulW V w ops) :
    (V.runW w ops).2 = (runPure (erase w) ops).2 ∧ erase (V.runW w ops).1 = (runPure (erase w) ops).1 := by
  rw [faithfulW_run_eq V hV w ops h]
  exact ⟨(run_refines_pure w ops hw).1, (run_refines_pure w ops hw).2.1⟩

/-! ## 1–3. a `layer` that forgets to reset caches on one branch

`layerKeep cond kIM kD`: on the branch `cond f ts` (receiver function `f`, argument `ts`) the (integral, mean) cache
is kept when `kIM`, the distribution cache is kept when `kD`.  The three seeded defects are instances. -/

def layerKeep (cond : Stairs Rat → List (Triple Rat) → Bool) (kIM kD : Bool) (o : Obj) (ts : List (Triple Rat)) : Obj :=
  if allUndefined o.f then o
  else if cond o.f ts then
    { f := Stairs.layer o.f ts, im := if kIM then o.im else none, dist := if kD then o.dist else none }
  else { f := Stairs.layer o.f ts, im := none, dist := none }

def keepV (cond : Stairs Rat → List (Triple Rat) → Bool) (kIM kD : Bool) : Variant :=
  ⟨layerKeep cond kIM kD, Obj.query⟩

theorem keepV_layerOnly (cond : Stairs Rat → List (Triple Rat) → Bool) (kIM kD : Bool) :
    (keepV cond kIM kD).LayerOnly := rfl

/-- the defective `layer` always computes the right function -/
theorem layerKeep_f (cond : Stairs Rat → List (Triple Rat) → Bool) (kIM kD : Bool) (o : Obj) (ts : List (Triple Rat)) :
    (layerKeep cond kIM kD o ts).f = layerF o.f ts := by
  unfold layerKeep layerF
  split
  · rfl
  · split <;> rfl

/-- the defective step is harmless: receiver all-undefined (early return), or not on the seeded branch, or the
kept caches are empty at that moment -/
def KeepOK (cond : Stairs Rat → List (Triple Rat) → Bool) (kIM kD : Bool) (f : Stairs Rat) (bIM bD : Bool)
    (ts : List (Triple Rat)) : Prop :=
  allUndefined f = true ∨ cond f ts = false ∨ ((kIM = true → bIM = false) ∧ (kD = true → bD = false))

instance (cond : Stairs Rat → List (Triple Rat) → Bool) (kIM kD : Bool) (f : Stairs Rat) (bIM bD : Bool)
    (ts : List (Triple Rat)) : Decidable (KeepOK cond kIM kD f bIM bD ts) := by unfold KeepOK; infer_instance

/-- **one step, exactly**: the defective `layer` equals the reference `layer` iff `KeepOK` -/
theorem layerKeep_eq_iff (cond : Stairs Rat → List (Triple Rat) → Bool) (kIM kD : Bool) (o : Obj)
    (ts : List (Triple Rat)) :
    layerKeep cond kIM kD o ts = o.layer ts ↔ KeepOK cond kIM kD o.f o.im.isSome o.dist.isSome ts := by
  unfold layerKeep Obj.layer KeepOK
  cases hu : allUndefined o.f
  · cases hc : cond o.f ts
    · simp
    · cases kIM <;> cases kD <;> cases him : o.im <;> cases hd : o.dist <;> simp [Obj.mk.injEq]
  · simp

/-- the class of histories, as a state machine: `f` = current function, `bIM` / `bD` = is the cache filled now -/
def safeKeep (cond : Stairs Rat → List (Triple Rat) → Bool) (kIM kD : Bool) (f : Stairs Rat) (bIM bD : Bool) :
    List HOp → Bool
  | [] => true
  | .layer ts :: r => decide (KeepOK cond kIM kD f bIM bD ts) &&
      safeKeep cond kIM kD (layerF f ts) (bIM && allUndefined f) (bD && allUndefined f) r
  | .query q :: r => safeKeep cond kIM kD f (bIM || needsIM q) (bD || needsDist q) r

/-- the state machine in words: at every `layer` call, `KeepOK` for the function and the cache states of that
moment (`specFinal` and `filledAfter` of C14 / C14b describe them from the history alone) -/
theorem safeKeep_iff (cond : Stairs Rat → List (Triple Rat) → Bool) (kIM kD : Bool) (f : Stairs Rat) (bIM bD : Bool)
    (ops : List HOp) :
    safeKeep cond kIM kD f bIM bD ops = true ↔
      ∀ pre ts post, ops = pre ++ .layer ts :: post →
        KeepOK cond kIM kD (specFinal f pre) (filledAfter needsIM bIM f pre) (filledAfter needsDist bD f pre) ts := by
  induction ops generalizing f bIM bD with
  | nil => exact ⟨fun _ pre ts post h => (by cases pre <;> cases h), fun _ => rfl⟩
  | cons op r ih =>
    cases op with
    | layer ts0 =>
      simp only [safeKeep, Bool.and_eq_true, decide_eq_true_eq, ih]
      constructor
      · rintro ⟨h1, h2⟩ pre ts post he
        cases pre with
        | nil => injection he with hx hr; injection hx with hx; subst hx; exact h1
        | cons x pre' =>
          injection he with hx hr; subst hx
          exact h2 pre' ts post hr
      · intro h
        exact ⟨h [] ts0 r rfl, fun pre ts post he => h (.layer ts0 :: pre) ts post (by rw [he]; rfl)⟩
    | query q =>
      simp only [safeKeep, ih]
      constructor
      · intro h pre ts post he
        cases pre with
        | nil => cases he
        | cons x pre' =>
          injection he with hx hr; subst hx
          exact h pre' ts post hr
      · intro h pre ts post he
        exact h (.query q :: pre) ts post (by rw [he]; rfl)

/-- **EXACT CLASS (single object)**: the defective variant is faithful on a history – holds after every prefix the
very object, caches included, the reference implementation holds – iff the history passes the state machine -/
theorem faithful_keep_iff (cond : Stairs Rat → List (Triple Rat) → Bool) (kIM kD : Bool) (o : Obj) (ops : List HOp) :
    Faithful (keepV cond kIM kD) o ops ↔ safeKeep cond kIM kD o.f o.im.isSome o.dist.isSome ops = true := by
  rw [faithful_iff _ (keepV_layerOnly cond kIM kD), safeKeep_iff]
  constructor
  · intro h pre ts post he
    have := (layerKeep_eq_iff cond kIM kD _ ts).1 (h pre ts post he)
    rwa [run_function, w14b_im_filledAfter, w14b_dist_filledAfter] at this
  · intro h pre ts post he
    apply (layerKeep_eq_iff cond kIM kD _ ts).2
    rw [run_function, w14b_im_filledAfter, w14b_dist_filledAfter]
    exact h pre ts post he

/-- on its class the variant answers every query like a freshly built equal function -/
theorem keep_correct_on_class (cond : Stairs Rat → List (Triple Rat) → Bool) (kIM kD : Bool) (o : Obj)
    (ops : List HOp) (hc : CacheInv o) (h : safeKeep cond kIM kD o.f o.im.isSome o.dist.isSome ops = true) :
    ((keepV cond kIM kD).run o ops).2 = specRun o.f ops ∧ ((keepV cond kIM kD).run o ops).1.f = specFinal o.f ops :=
  faithful_correct _ (keepV_layerOnly cond kIM kD) o ops hc ((faithful_keep_iff cond kIM kD o ops).2 h)

/-- **EXACT CLASS (worlds)**: the variant world is faithful iff `KeepOK` holds at every `layer` call for the
receiver as the reference world holds it then; on that class its outputs are those of the cache-free semantics -/
theorem faithfulW_keep_iff (cond : Stairs Rat → List (Triple Rat) → Bool) (kIM kD : Bool) (w : World) (ops : List WOp) :
    FaithfulW (keepV cond kIM kD) w ops ↔
      ∀ pre i ts post, ops = pre ++ .layer i ts :: post → ∀ o, (w.run pre)[i]? = some o →
        KeepOK cond kIM kD o.f o.im.isSome o.dist.isSome ts := by
  constructor
  · intro h pre i ts post he o ho
    exact (layerKeep_eq_iff cond kIM kD o ts).1 (h pre i ts post he o ho)
  · intro h pre i ts post he o ho
    exact (layerKeep_eq_iff cond kIM kD o ts).2 (h pre i ts post he o ho)

theorem keep_world_correct_on_class (cond : Stairs Rat → List (Triple Rat) → Bool) (kIM kD : Bool) (w : World)
    (ops : List WOp) (hw : WInv w)
    (h : ∀ pre i ts post, ops = pre ++ .layer i ts :: post → ∀ o, (w.run pre)[i]? = some o →
        KeepOK cond kIM kD o.f o.im.isSome o.dist.isSome ts) :
    ((keepV cond kIM kD).runW w ops).2 = (runPure (erase w) ops).2 ∧
      erase ((keepV cond kIM kD).runW w ops).1 = (runPure (erase w) ops).1 :=
  faithfulW_correct _ (keepV_layerOnly cond kIM kD) w ops hw ((faithfulW_keep_iff cond kIM kD w ops).2 h)

/-! ### the class in words, for receivers on which the seeded branch does not depend on the moment -/

/-- simplified state machine: `bad ts` = this `layer` call takes the seeded branch, `fills q` = this query fills a
kept cache, `b` = a kept cache is filled now (every `layer` is effective) -/
def safeSimple (bad : List (Triple Rat) → Bool) (fills : Query → Bool) (b : Bool) : List HOp → Bool
  | [] => true
  | .layer ts :: r => (!bad ts || !b) && safeSimple bad fills false r
  | .query q :: r => safeSimple bad fills (b || fills q) r

/-- **in words**: no `layer` call on the seeded branch is preceded by a filling query with only queries in
between (nor, if a kept cache is filled at the start, by queries only) -/
theorem safeSimple_iff (bad : List (Triple Rat) → Bool) (fills : Query → Bool) (b : Bool) (ops : List HOp) :
    safeSimple bad fills b ops = true ↔
      (b = true → ∀ mid ts post, ops = mid ++ .layer ts :: post → mid.all isQuery = true → bad ts = false) ∧
      (∀ pre q mid ts post, ops = pre ++ .query q :: (mid ++ .layer ts :: post) → mid.all isQuery = true →
        fills q = true → bad ts = false) := by
  induction ops generalizing b with
  | nil =>
    refine ⟨fun _ => ⟨fun _ mid ts post h => (by cases mid <;> cases h),
      fun pre q mid ts post h => (by cases pre <;> cases h)⟩, fun _ => rfl⟩
  | cons op r ih =>
    cases op with
    | layer ts0 =>
      simp only [safeSimple, Bool.and_eq_true, Bool.or_eq_true, Bool.not_eq_true', ih]
      constructor
      · rintro ⟨h0, _, h2⟩
        refine ⟨fun hb mid ts post he hm => ?_, fun pre q mid ts post he hm hq => ?_⟩
        · cases mid with
          | nil =>
            injection he with hx _; injection hx with hx; subst hx
            rcases h0 with h0 | h0
            · exact h0
            · rw [hb] at h0; cases h0
          | cons x mid' =>
            injection he with hx _; subst hx
            simp [isQuery] at hm
        · cases pre with
          | nil => cases he
          | cons x pre' =>
            injection he with hx hr; subst hx
            exact h2 pre' q mid ts post hr hm hq
      · rintro ⟨h1, h2⟩
        refine ⟨?_, fun hb => (by cases hb), fun pre q mid ts post he hm hq =>
          h2 (.layer ts0 :: pre) q mid ts post (by rw [he]; rfl) hm hq⟩
        cases b with
        | false => exact Or.inr rfl
        | true => exact Or.inl (h1 rfl [] ts0 r rfl rfl)
    | query q0 =>
      simp only [safeSimple, ih]
      constructor
      · rintro ⟨h1, h2⟩
        refine ⟨fun hb mid ts post he hm => ?_, fun pre q mid ts post he hm hq => ?_⟩
        · cases mid with
          | nil => cases he
          | cons x mid' =>
            injection he with hx hr; subst hx
            refine h1 (by rw [hb]; rfl) mid' ts post hr ?_
            simpa [isQuery] using hm
        · cases pre with
          | nil =>
            injection he with hx hr; injection hx with hx; subst hx
            exact h1 (by rw [hq]; simp) mid ts post hr hm
          | cons x pre' =>
            injection he with hx hr; subst hx
            exact h2 pre' q mid ts post hr hm hq
      · rintro ⟨h1, h2⟩
        refine ⟨fun hb mid ts post he hm => ?_, fun pre q mid ts post he hm hq =>
          h2 (.query q0 :: pre) q mid ts post (by rw [he]; rfl) hm hq⟩
        rcases Bool.or_eq_true_iff.1 hb with hb | hb
        · exact h1 hb (.query q0 :: mid) ts post (by rw [he]; rfl) (by simpa [isQuery] using hm)
        · exact h2 [] q0 mid ts post (by rw [he]; rfl) hm hb

/-- the seeded branch and effectiveness do not depend on the moment -/
def Stable (cond : Stairs Rat → List (Triple Rat) → Bool) (bad : List (Triple Rat) → Bool) (f : Stairs Rat) : Prop :=
  ∀ pre, allUndefined (specFinal f pre) = false ∧ ∀ ts, cond (specFinal f pre) ts = bad ts

section Helpers
theorem h14c_stable_layerF (cond : Stairs Rat → List (Triple Rat) → Bool) (bad : List (Triple Rat) → Bool)
    (f : Stairs Rat) (h : Stable cond bad f) (ts : List (Triple Rat)) : Stable cond bad (layerF f ts) :=
  fun pre => h (.layer ts :: pre)
end Helpers

/-- for such receivers the class is the simplified one -/
theorem safeKeep_stable (cond : Stairs Rat → List (Triple Rat) → Bool) (bad : List (Triple Rat) → Bool)
    (kIM kD : Bool) (f : Stairs Rat) (bIM bD : Bool) (ops : List HOp) (h : Stable cond bad f) :
    safeKeep cond kIM kD f bIM bD ops =
      safeSimple bad (fun q => (kIM && needsIM q) || (kD && needsDist q)) ((kIM && bIM) || (kD && bD)) ops := by
  induction ops generalizing f bIM bD with
  | nil => rfl
  | cons op r ih =>
    cases op with
    | layer ts =>
      have h0 := (h []).1
      have h1 := (h []).2 ts
      simp only [specFinal] at h0 h1
      have hk : decide (KeepOK cond kIM kD f bIM bD ts) = (!bad ts || !((kIM && bIM) || (kD && bD))) := by
        rw [Bool.eq_iff_iff, decide_eq_true_eq]
        unfold KeepOK
        rw [h0, h1]
        cases bad ts <;> cases kIM <;> cases kD <;> cases bIM <;> cases bD <;> simp
      simp only [safeKeep, safeSimple, ih _ _ _ (h14c_stable_layerF cond bad f h ts), h0, Bool.and_false,
        Bool.or_self, hk]
    | query q =>
      simp only [safeKeep, safeSimple, ih _ _ _ h]
      congr 1
      cases kIM <;> cases kD <;> cases bIM <;> cases bD <;> cases needsIM q <;> cases needsDist q <;> rfl

/-- an everywhere-undefined receiver never exposes a keep-variant (every `layer` returns early) -/
theorem safeKeep_allUndefined (cond : Stairs Rat → List (Triple Rat) → Bool) (kIM kD : Bool) (f : Stairs Rat)
    (bIM bD : Bool) (ops : List HOp) (h : allUndefined f = true) : safeKeep cond kIM kD f bIM bD ops = true := by
  induction ops generalizing bIM bD with
  | nil => rfl
  | cons op r ih =>
    cases op with
    | layer ts =>
      simp only [safeKeep, layerF_ineffective f ts h, ih, Bool.and_true, decide_eq_true_eq]
      exact Or.inl h
    | query q => exact ih _ _

/-- a receiver that never meets the seeded branch never exposes it -/
theorem safeKeep_never (cond : Stairs Rat → List (Triple Rat) → Bool) (kIM kD : Bool) (f : Stairs Rat)
    (bIM bD : Bool) (ops : List HOp) (h : ∀ pre ts, cond (specFinal f pre) ts = false) :
    safeKeep cond kIM kD f bIM bD ops = true :=
  (safeKeep_iff cond kIM kD f bIM bD ops).2 (fun pre ts _ _ => Or.inr (Or.inl (h pre ts)))

/-- **why the tests passed, uniformly**: a history in which no cache-filling query precedes a `layer` call (with
only queries in between) exposes *no* keep-variant, whatever the receiver -/
theorem safeKeep_of_no_query_before_layer (cond : Stairs Rat → List (Triple Rat) → Bool) (kIM kD : Bool)
    (f : Stairs Rat) (bIM bD : Bool) (ops : List HOp)
    (h : safeSimple (fun _ => true) (fun q => (kIM && needsIM q) || (kD && needsDist q))
      ((kIM && bIM) || (kD && bD)) ops = true) :
    safeKeep cond kIM kD f bIM bD ops = true := by
  induction ops generalizing f bIM bD with
  | nil => rfl
  | cons op r ih =>
    cases op with
    | layer ts =>
      simp only [safeSimple, Bool.not_true, Bool.false_or, Bool.and_eq_true, Bool.not_eq_true'] at h
      simp only [safeKeep, Bool.and_eq_true, decide_eq_true_eq]
      refine ⟨Or.inr (Or.inr ?_), ih _ _ _ ?_⟩
      · have := h.1
        cases kIM <;> cases kD <;> cases bIM <;> cases bD <;> simp_all
      · have : ((kIM && (bIM && allUndefined f)) || (kD && (bD && allUndefined f))) = false := by
          have := h.1
          cases kIM <;> cases kD <;> cases bIM <;> cases bD <;> simp_all
        rw [this]; exact h.2
    | query q =>
      simp only [safeSimple] at h
      simp only [safeKeep]
      apply ih
      have e : ((kIM && (bIM || needsIM q)) || (kD && (bD || needsDist q))) =
          (((kIM && bIM) || (kD && bD)) || ((kIM && needsIM q) || (kD && needsDist q))) := by
        cases kIM <;> cases kD <;> cases bIM <;> cases bD <;> cases needsIM q <;> cases needsDist q <;> rfl
      rw [e]; exact h

section Helpers
theorem h14c_specFinal_append (f : Stairs Rat) (a b : List HOp) :
    specFinal f (a ++ b) = specFinal (specFinal f a) b := by
  induction a generalizing f with
  | nil => rfl
  | cons op r ih => cases op <;> simp only [List.cons_append, specFinal, ih]

theorem h14c_specFinal_queries (f : Stairs Rat) (s : List HOp) (h : s.all isQuery = true) : specFinal f s = f := by
  induction s with
  | nil => rfl
  | cons op r ih =>
    cases op with
    | layer ts => simp [isQuery] at h
    | query q => exact ih (by simpa [isQuery] using h)

theorem h14c_noEffLayer_queries (f : Stairs Rat) (s : List HOp) (h : s.all isQuery = true) :
    noEffLayer f s = true := by
  induction s with
  | nil => rfl
  | cons op r ih =>
    cases op with
    | layer ts => simp [isQuery] at h
    | query q => exact ih (by simpa [isQuery] using h)

/-- ineffective `layer` calls change nothing; and they can only occur on an all-undefined receiver -/
theorem h14c_noEffLayer_spec (g : Stairs Rat) (s : List HOp) (h : noEffLayer g s = true) :
    specFinal g s = g ∧ (s.all isQuery = true ∨ allUndefined g = true) := by
  induction s with
  | nil => exact ⟨rfl, Or.inl rfl⟩
  | cons op r ih =>
    cases op with
    | layer ts =>
      simp only [noEffLayer, Bool.and_eq_true] at h
      have hg := h.1
      rw [layerF_ineffective g ts hg] at h
      refine ⟨?_, Or.inr hg⟩
      simp only [specFinal, layerF_ineffective g ts hg]
      exact (ih h.2).1
    | query q =>
      obtain ⟨h1, h2⟩ := ih h
      refine ⟨h1, ?_⟩
      rcases h2 with h2 | h2
      · left; simpa [isQuery] using h2
      · exact Or.inr h2

/-- a cache is filled after `pre` (started empty) although the receiver is not all-undefined: a filling query,
then queries only -/
theorem h14c_filled_defined (needs : Query → Bool) (f : Stairs Rat) (pre : List HOp)
    (hf : filledAfter needs false f pre = true) (hu : allUndefined (specFinal f pre) = false) :
    ∃ p q s, pre = p ++ .query q :: s ∧ needs q = true ∧ s.all isQuery = true ∧ specFinal f p = specFinal f pre := by
  rcases (w14b_filledAfter_iff needs false f pre).1 hf with ⟨h, _⟩ | ⟨p, q, s, he, hq, hn⟩
  · cases h
  · obtain ⟨h1, h2⟩ := h14c_noEffLayer_spec _ s hn
    have hsf : specFinal f pre = specFinal f p := by
      rw [he, h14c_specFinal_append]; exact h1
    refine ⟨p, q, s, he, hq, ?_, hsf.symm⟩
    rcases h2 with h2 | h2
    · exact h2
    · rw [hsf, h2] at hu; cases hu

theorem h14c_filled_of_query (needs : Query → Bool) (f : Stairs Rat) (p s : List HOp) (q : Query)
    (hq : needs q = true) (hs : s.all isQuery = true) : filledAfter needs false f (p ++ .query q :: s) = true :=
  (w14b_filledAfter_iff needs false f _).2 (Or.inr ⟨p, q, s, rfl, hq, h14c_noEffLayer_queries _ s hs⟩)
end Helpers

/-- **EXACT CLASS IN WORDS** (any receiver created fresh, any seeded branch): the variant is faithful iff no `layer`
call that takes the seeded branch – judged on the function at that moment, all-undefined receivers return early – is
preceded by a query filling a kept cache with only queries in between -/
theorem faithful_keep_words (cond : Stairs Rat → List (Triple Rat) → Bool) (kIM kD : Bool) (f : Stairs Rat)
    (ops : List HOp) :
    Faithful (keepV cond kIM kD) (fresh f) ops ↔
      ∀ p q s ts post, ops = p ++ .query q :: (s ++ .layer ts :: post) → s.all isQuery = true →
        ((kIM && needsIM q) || (kD && needsDist q)) = true → cond (specFinal f p) ts = true →
        allUndefined (specFinal f p) = true := by
  rw [faithful_keep_iff, safeKeep_iff]
  show (∀ pre ts post, ops = pre ++ .layer ts :: post →
    KeepOK cond kIM kD (specFinal f pre) (filledAfter needsIM false f pre) (filledAfter needsDist false f pre) ts) ↔ _
  constructor
  · intro h p q s ts post he hs hq hc
    have hk := h (p ++ .query q :: s) ts post (by rw [he]; simp)
    have hsf : specFinal f (p ++ .query q :: s) = specFinal f p := by
      rw [h14c_specFinal_append]; exact h14c_specFinal_queries _ _ hs
    rw [hsf] at hk
    rcases hk with hk | hk | ⟨h1, h2⟩
    · exact hk
    · rw [hk] at hc; cases hc
    · rcases Bool.or_eq_true_iff.1 hq with hq | hq
      · simp only [Bool.and_eq_true] at hq
        rw [h14c_filled_of_query needsIM f p s q hq.2 hs] at h1
        exact absurd (h1 hq.1) (by simp)
      · simp only [Bool.and_eq_true] at hq
        rw [h14c_filled_of_query needsDist f p s q hq.2 hs] at h2
        exact absurd (h2 hq.1) (by simp)
  · intro h pre ts post he
    cases hu : allUndefined (specFinal f pre) with
    | true => exact Or.inl hu
    | false =>
      cases hc : cond (specFinal f pre) ts with
      | false => exact Or.inr (Or.inl hc)
      | true =>
        refine Or.inr (Or.inr ⟨fun hk => ?_, fun hk => ?_⟩)
        · cases hfl : filledAfter needsIM false f pre with
          | false => rfl
          | true =>
            obtain ⟨p, q, s, hp, hq, hs, hsf⟩ := h14c_filled_defined needsIM f pre hfl hu
            have := h p q s ts post (by rw [he, hp]; simp) hs (by rw [hk, hq]; rfl) (by rw [hsf]; exact hc)
            rw [hsf, hu] at this; cases this
        · cases hfl : filledAfter needsDist false f pre with
          | false => rfl
          | true =>
            obtain ⟨p, q, s, hp, hq, hs, hsf⟩ := h14c_filled_defined needsDist f pre hfl hu
            have := h p q s ts post (by rw [he, hp]; simp) hs (by rw [hk, hq]; simp) (by rw [hsf]; exact hc)
            rw [hsf, hu] at this; cases this

/-! ## 1. `layerNoResetMasked` — no reset of the (integral, mean) cache for a receiver with an undefined region -/

/-- the seeded defect of C14b, as an instance of `layerKeep` -/
def layerNoResetMasked : Obj → List (Triple Rat) → Obj := layerKeep (fun f _ => hasUndefined f) true false
def maskedV : Variant := keepV (fun f _ => hasUndefined f) true false

theorem layerNoResetMasked_eq (o : Obj) (ts : List (Triple Rat)) : layerNoResetMasked o ts = layerNoReset o ts := by
  unfold layerNoResetMasked layerKeep layerNoReset
  split
  · rfl
  · split <;> rfl

section Helpers
theorem h14c_hasUndefined_eq (f : Stairs Rat) : hasUndefined f = !(noNa f) := by
  have h : ∀ l : List (Rat × Val), (l.any (·.2.isNone)) = !(l.all (·.2.isSome)) := by
    intro l
    induction l with
    | nil => rfl
    | cons a r ih =>
      simp only [List.any_cons, List.all_cons, ih, Bool.not_and]
      cases a.2 <;> rfl
  unfold hasUndefined noNa
  rw [h]
  cases f.init <;> simp

theorem h14c_hasUndefined_layer (f : Stairs Rat) (ts : List (Triple Rat)) (hf : f.WF) :
    hasUndefined (Stairs.layer f ts) = hasUndefined f := by
  rw [h14c_hasUndefined_eq, h14c_hasUndefined_eq]
  have := C02b.noNa_layer_iff f ts hf
  cases h1 : noNa (Stairs.layer f ts) <;> cases h2 : noNa f <;> simp_all

theorem h14c_wf_layerF (f : Stairs Rat) (ts : List (Triple Rat)) (hf : f.WF) : (layerF f ts).WF := by
  unfold layerF; split
  · exact hf
  · exact wf_layer f ts hf

theorem h14c_hasUndefined_layerF (f : Stairs Rat) (ts : List (Triple Rat)) (hf : f.WF) :
    hasUndefined (layerF f ts) = hasUndefined f := by
  unfold layerF; split
  · rfl
  · exact h14c_hasUndefined_layer f ts hf

theorem h14c_hasUndefined_specFinal (f : Stairs Rat) (pre : List HOp) (hf : f.WF) :
    hasUndefined (specFinal f pre) = hasUndefined f := by
  induction pre generalizing f with
  | nil => rfl
  | cons op r ih =>
    cases op with
    | layer ts =>
      simp only [specFinal]
      rw [ih _ (h14c_wf_layerF f ts hf), h14c_hasUndefined_layerF f ts hf]
    | query q => exact ih f hf
end Helpers

/-- **refuted** (world level, the history of C14b): the second `mean` is served from the stale cache -/
theorem layerNoResetMasked_refuted :
    (maskedV.runW [] hist₅).2 = [.created 0, .answer [some 1], .done, .answer [some 1]] ∧
    (runPure [] hist₅).2 = [.created 0, .answer [some 1], .done, .answer [some (7/3)]] ∧
    (maskedV.runW [] hist₅).2 ≠ (runPure [] hist₅).2 := by decide +kernel

/-- **EXACT CLASS**, canonical receiver created fresh: the variant is faithful iff the receiver is defined
everywhere, or undefined everywhere, or no (integral / mean / var) query precedes a `layer` call -/
theorem masked_class_iff (f : Stairs Rat) (hf : f.Canonical) (ops : List HOp) :
    Faithful maskedV (fresh f) ops ↔
      hasUndefined f = false ∨ allUndefined f = true ∨ safeSimple (fun _ => true) needsIM false ops = true := by
  unfold maskedV
  rw [faithful_keep_iff]
  show safeKeep _ true false f false false ops = true ↔ _
  by_cases hu : allUndefined f = true
  · simp only [hu, true_or, or_true, iff_true]
    exact safeKeep_allUndefined _ _ _ _ _ _ _ hu
  · have hu' : allUndefined f = false := by simpa using hu
    cases hm : hasUndefined f with
    | false =>
      simp only [true_or, iff_true]
      exact safeKeep_never _ _ _ _ _ _ _ (fun pre ts => by
        show hasUndefined (specFinal f pre) = false
        rw [h14c_hasUndefined_specFinal f pre hf.1, hm])
    | true =>
      have hs : Stable (fun f _ => hasUndefined f) (fun _ => true) f := fun pre =>
        ⟨(specFinal_defined f pre hf hu').2, fun _ => by
          show hasUndefined (specFinal f pre) = true
          rw [h14c_hasUndefined_specFinal f pre hf.1, hm]⟩
      rw [safeKeep_stable _ _ _ _ _ _ _ _ hs]
      simp [hu']

/-- in words (C14b's `isQuery`): no (integral, mean)-filling query is followed – after any number of further
queries – by a `layer` call -/
theorem masked_class_words (ops : List HOp) :
    safeSimple (fun _ => true) needsIM false ops = true ↔
      ∀ pre q mid ts post, ops = pre ++ .query q :: (mid ++ .layer ts :: post) → mid.all isQuery = true →
        needsIM q = false := by
  rw [safeSimple_iff]
  constructor
  · rintro ⟨_, h2⟩ pre q mid ts post he hm
    cases hq : needsIM q with
    | false => rfl
    | true => exact absurd (h2 pre q mid ts post he hm hq) (by simp)
  · intro h
    refine ⟨fun hb => (by cases hb), fun pre q mid ts post he hm hq => ?_⟩
    rw [h pre q mid ts post he hm] at hq; cases hq

/-- on that class every answer is right (single object); and for whole worlds -/
theorem masked_correct_on_class (f : Stairs Rat) (hf : f.Canonical) (ops : List HOp)
    (h : hasUndefined f = false ∨ allUndefined f = true ∨ safeSimple (fun _ => true) needsIM false ops = true) :
    (maskedV.run (fresh f) ops).2 = specRun f ops :=
  (faithful_correct maskedV rfl (fresh f) ops (fresh_inv f) ((masked_class_iff f hf ops).2 h)).1

theorem masked_world_correct (w : World) (ops : List WOp) (hw : WInv w)
    (h : ∀ pre i ts post, ops = pre ++ .layer i ts :: post → ∀ o, (w.run pre)[i]? = some o →
      allUndefined o.f = true ∨ hasUndefined o.f = false ∨ o.im = none) :
    (maskedV.runW w ops).2 = (runPure (erase w) ops).2 ∧ erase (maskedV.runW w ops).1 = (runPure (erase w) ops).1 := by
  refine keep_world_correct_on_class _ _ _ w ops hw (fun pre i ts post he o ho => ?_)
  rcases h pre i ts post he o ho with h | h | h
  · exact Or.inl h
  · exact Or.inr (Or.inl h)
  · exact Or.inr (Or.inr ⟨fun _ => by rw [h]; rfl, fun hk => by cases hk⟩)

/-- the class is about *faithfulness*; "the outputs are right iff the history is in the class" is **false**: a
`layer` that leaves the statistics unchanged (here: layering nothing) hides the stale cache -/
theorem masked_outputs_can_agree_outside_class :
    m₅.Canonical ∧ hasUndefined m₅ = true ∧ allUndefined m₅ = false ∧
    safeSimple (fun _ => true) needsIM false [.query .mean, .layer [], .query .mean] = false ∧
    (maskedV.run (fresh m₅) [.query .mean, .layer [], .query .mean]).2 =
      specRun m₅ [.query .mean, .layer [], .query .mean] := by decide +kernel

/-! non-vacuity: a masked canonical receiver, queried only after its last `layer` -/
example : m₅.Canonical ∧
    safeSimple (fun _ => true) needsIM false [.layer [⟨some 0, some 2, 2⟩], .query .max, .layer [⟨none, some 1, 1⟩],
      .query .mean, .query .var] = true ∧
    (maskedV.run (fresh m₅) [.layer [⟨some 0, some 2, 2⟩], .query .max, .layer [⟨none, some 1, 1⟩], .query .mean,
      .query .var]).2 = [[], [some 3], [], [some (8/3)], [some (14/9)]] := by decide +kernel
example : (maskedV.runW [] hist₁).2 = (runPure [] hist₁).2 := by decide +kernel

/-! ## 2. `layerNoResetStepFree` — `_clear_cache` returns early while the function has no step points -/

/-- the early return skips both resets; `stepFreeIMV` is the weaker defect that only keeps (integral, mean) -/
def layerNoResetStepFree : Obj → List (Triple Rat) → Obj := layerKeep (fun f _ => f.steps.isEmpty) true true
def stepFreeV : Variant := keepV (fun f _ => f.steps.isEmpty) true true
def stepFreeIMV : Variant := keepV (fun f _ => f.steps.isEmpty) true false

/-- the constant `3` -/
def c₃ : Stairs Rat := ⟨some 3, [], .left⟩
def histSF : List WOp :=
  [.new c₃, .query 0 .mean, .layer 0 [⟨some 0, some 2, 2⟩], .query 0 .mean, .query 0 .integral]
def histSF' : List WOp :=
  [.new c₃, .query 0 .median, .layer 0 [⟨some 0, some 2, 2⟩], .query 0 .median, .query 0 .mean]

/-- **refuted**: `mean()` / `integral()` answered NaN on the step-free function stay NaN after the first `layer`
(both variants); with the full early return the distribution cache goes stale as well (`median`) -/
theorem layerNoResetStepFree_refuted :
    (stepFreeV.runW [] histSF).2 = [.created 0, .answer [none], .done, .answer [none], .answer [none]] ∧
    (stepFreeIMV.runW [] histSF).2 = [.created 0, .answer [none], .done, .answer [none], .answer [none]] ∧
    (runPure [] histSF).2 = [.created 0, .answer [none], .done, .answer [some 5], .answer [some 10]] ∧
    (stepFreeV.runW [] histSF').2 = [.created 0, .answer [none], .done, .answer [none], .answer [some 5]] ∧
    (runPure [] histSF').2 = [.created 0, .answer [none], .done, .answer [some 5], .answer [some 5]] ∧
    (stepFreeIMV.runW [] histSF').2 = (runPure [] histSF').2 := by decide +kernel

/-- is the function a defined constant (step-free, not everywhere undefined)? -/
def isDefinedConst (f : Stairs Rat) : Bool := f.steps.isEmpty && f.init.isSome

section Helpers
theorem h14c_definedConst (f : Stairs Rat) :
    (f.steps.isEmpty = true → allUndefined f = true) ↔ isDefinedConst f = false := by
  unfold allUndefined isDefinedConst
  cases f.steps.isEmpty <;> cases f.init <;> simp
end Helpers

/-- **EXACT CLASS** (the (integral, mean)-only defect): faithful iff no `integral` / `mean` / `var` query is made
on the object while it is a step-free defined constant and then – after further queries only – a `layer` call -/
theorem stepFreeIM_class_iff (f : Stairs Rat) (ops : List HOp) :
    Faithful stepFreeIMV (fresh f) ops ↔
      ∀ p q s ts post, ops = p ++ .query q :: (s ++ .layer ts :: post) → s.all isQuery = true →
        needsIM q = true → isDefinedConst (specFinal f p) = false := by
  unfold stepFreeIMV
  rw [faithful_keep_words]
  simp only [Bool.true_and, Bool.false_and, Bool.or_false]
  constructor
  · intro h p q s ts post he hs hq
    exact (h14c_definedConst _).1 (h p q s ts post he hs hq)
  · intro h p q s ts post he hs hq
    exact (h14c_definedConst _).2 (h p q s ts post he hs hq)

/-- **EXACT CLASS** (full early return): the same with every cache-filling query (`integral`, `mean`, `var`,
`median`, `percentile`, `fractile`, `ecdf`) -/
theorem stepFree_class_iff (f : Stairs Rat) (ops : List HOp) :
    Faithful stepFreeV (fresh f) ops ↔
      ∀ p q s ts post, ops = p ++ .query q :: (s ++ .layer ts :: post) → s.all isQuery = true →
        (needsIM q || needsDist q) = true → isDefinedConst (specFinal f p) = false := by
  unfold stepFreeV
  rw [faithful_keep_words]
  simp only [Bool.true_and]
  constructor
  · intro h p q s ts post he hs hq
    exact (h14c_definedConst _).1 (h p q s ts post he hs hq)
  · intro h p q s ts post he hs hq
    exact (h14c_definedConst _).2 (h p q s ts post he hs hq)

/-- on the class all answers are right -/
theorem stepFree_correct_on_class (f : Stairs Rat) (ops : List HOp)
    (h : ∀ p q s ts post, ops = p ++ .query q :: (s ++ .layer ts :: post) → s.all isQuery = true →
        (needsIM q || needsDist q) = true → isDefinedConst (specFinal f p) = false) :
    (stepFreeV.run (fresh f) ops).2 = specRun f ops :=
  (faithful_correct stepFreeV rfl (fresh f) ops (fresh_inv f) ((stepFree_class_iff f ops).2 h)).1

/-- worlds: at every `layer` call the receiver has step points, or is undefined everywhere, or has empty caches -/
theorem stepFree_world_correct (w : World) (ops : List WOp) (hw : WInv w)
    (h : ∀ pre i ts post, ops = pre ++ .layer i ts :: post → ∀ o, (w.run pre)[i]? = some o →
      isDefinedConst o.f = false ∨ (o.im = none ∧ o.dist = none)) :
    (stepFreeV.runW w ops).2 = (runPure (erase w) ops).2 ∧
      erase (stepFreeV.runW w ops).1 = (runPure (erase w) ops).1 := by
  refine keep_world_correct_on_class _ _ _ w ops hw (fun pre i ts post he o ho => ?_)
  rcases h pre i ts post he o ho with h | ⟨h1, h2⟩
  · cases hu : allUndefined o.f with
    | true => exact Or.inl hu
    | false =>
      refine Or.inr (Or.inl ?_)
      cases hc : o.f.steps.isEmpty with
      | false => exact hc
      | true => exact absurd ((h14c_definedConst o.f).2 h hc) (by rw [hu]; simp)
  · exact Or.inr (Or.inr ⟨fun _ => by rw [h1]; rfl, fun _ => by rw [h2]; rfl⟩)

/-- a receiver with step points that keeps step points is never exposed; e.g. nothing is ever layered that cancels
them.  The simplest sufficient condition of all: no filling query before a `layer` -/
theorem stepFree_correct_if_no_query_before_layer (f : Stairs Rat) (ops : List HOp)
    (h : safeSimple (fun _ => true) (fun q => needsIM q || needsDist q) false ops = true) :
    (stepFreeV.run (fresh f) ops).2 = specRun f ops := by
  refine (keep_correct_on_class _ true true (fresh f) ops (fresh_inv f) ?_).1
  exact safeKeep_of_no_query_before_layer _ true true f false false ops (by simpa using h)

/-- outputs can agree outside the class (the class is exact for faithfulness, not for outputs): layering nothing -/
theorem stepFree_outputs_can_agree_outside_class :
    ¬ Faithful stepFreeV (fresh c₃) [.query .mean, .layer [], .query .mean] ∧
    (stepFreeV.run (fresh c₃) [.query .mean, .layer [], .query .mean]).2 =
      specRun c₃ [.query .mean, .layer [], .query .mean] := by
  refine ⟨fun h => ?_, by decide +kernel⟩
  have := (stepFree_class_iff c₃ _).1 h [] .mean [] [] [.query .mean] rfl rfl rfl
  revert this; decide +kernel

/-! non-vacuity: queries on the constant only after the first `layer`; a function with steps queried freely -/
example : Faithful stepFreeV (fresh c₃)
      [.layer [⟨some 0, some 2, 2⟩], .query .mean, .layer [⟨some 1, none, 1⟩], .query .median] ∧
    (stepFreeV.run (fresh c₃) [.layer [⟨some 0, some 2, 2⟩], .query .mean, .layer [⟨some 1, none, 1⟩], .query .median]).2
      = [[], [some 5], [], [some (11/2)]] :=
  ⟨(faithful_keep_iff _ _ _ _ _).2 (by decide +kernel), by decide +kernel⟩
example : (stepFreeV.runW [] hist₁).2 = (runPure [] hist₁).2 := by decide +kernel

/-! ## 3. `layerUnboundedShortcut` — `layer(None, None, v)` bumps the initial value and returns before the resets -/

/-- one unbounded scalar triple -/
def isUnboundedScalar : List (Triple Rat) → Bool
  | [⟨none, none, _⟩] => true
  | _ => false

/-- the shortcut computes the right function (the library's stale value column is outside the model) but touches
no cache -/
def layerUnboundedShortcut : Obj → List (Triple Rat) → Obj := layerKeep (fun _ ts => isUnboundedScalar ts) true true
def shortcutV : Variant := keepV (fun _ ts => isUnboundedScalar ts) true true

def histUS : List WOp := [.new a₁, .query 0 .mean, .layer 0 [⟨none, none, 2⟩], .query 0 .mean, .query 0 .integral]

/-- **refuted**: `mean` and `integral` after `layer(None, None, 2)` are those of the function before it -/
theorem layerUnboundedShortcut_refuted :
    (shortcutV.runW [] histUS).2 = [.created 0, .answer [some 1], .done, .answer [some 1], .answer [some 4]] ∧
    (runPure [] histUS).2 = [.created 0, .answer [some 1], .done, .answer [some 3], .answer [some 12]] := by
  decide +kernel

/-- **one step, exactly**: the shortcut is right iff no cache is filled at that moment (or it is not taken) -/
theorem layerUnboundedShortcut_eq_iff (o : Obj) (ts : List (Triple Rat)) :
    layerUnboundedShortcut o ts = o.layer ts ↔
      allUndefined o.f = true ∨ isUnboundedScalar ts = false ∨ (o.im = none ∧ o.dist = none) := by
  unfold layerUnboundedShortcut
  rw [layerKeep_eq_iff]
  unfold KeepOK
  cases o.im <;> cases o.dist <;> simp

/-- **EXACT CLASS**: faithful iff no unbounded scalar `layer` call is preceded by a cache-filling query with only
queries in between (all-undefined receivers return early anyway) -/
theorem shortcut_class_iff (f : Stairs Rat) (ops : List HOp) :
    Faithful shortcutV (fresh f) ops ↔
      ∀ p q s ts post, ops = p ++ .query q :: (s ++ .layer ts :: post) → s.all isQuery = true →
        (needsIM q || needsDist q) = true → isUnboundedScalar ts = true → allUndefined (specFinal f p) = true := by
  unfold shortcutV
  rw [faithful_keep_words]
  simp only [Bool.true_and]

/-- for a canonical receiver that is somewhere defined: the simplified state machine / its reading in words -/
theorem shortcut_class_canonical (f : Stairs Rat) (hf : f.Canonical) (hu : allUndefined f = false) (ops : List HOp) :
    Faithful shortcutV (fresh f) ops ↔
      safeSimple isUnboundedScalar (fun q => needsIM q || needsDist q) false ops = true := by
  unfold shortcutV
  rw [faithful_keep_iff]
  show safeKeep _ true true f false false ops = true ↔ _
  have hs : Stable (fun _ ts => isUnboundedScalar ts) isUnboundedScalar f :=
    fun pre => ⟨(specFinal_defined f pre hf hu).2, fun _ => rfl⟩
  rw [safeKeep_stable _ _ _ _ _ _ _ _ hs]
  simp

theorem shortcut_correct_on_class (f : Stairs Rat) (ops : List HOp)
    (h : ∀ p q s ts post, ops = p ++ .query q :: (s ++ .layer ts :: post) → s.all isQuery = true →
        (needsIM q || needsDist q) = true → isUnboundedScalar ts = true → allUndefined (specFinal f p) = true) :
    (shortcutV.run (fresh f) ops).2 = specRun f ops :=
  (faithful_correct shortcutV rfl (fresh f) ops (fresh_inv f) ((shortcut_class_iff f ops).2 h)).1

/-- worlds: correct iff (faithful iff) no cache of the receiver is filled at the moment of an unbounded scalar layer -/
theorem shortcut_world_correct (w : World) (ops : List WOp) (hw : WInv w)
    (h : ∀ pre i ts post, ops = pre ++ .layer i ts :: post → isUnboundedScalar ts = true →
      ∀ o, (w.run pre)[i]? = some o → allUndefined o.f = true ∨ (o.im = none ∧ o.dist = none)) :
    (shortcutV.runW w ops).2 = (runPure (erase w) ops).2 ∧
      erase (shortcutV.runW w ops).1 = (runPure (erase w) ops).1 := by
  refine faithfulW_correct shortcutV rfl w ops hw (fun pre i ts post he o ho => ?_)
  apply (layerUnboundedShortcut_eq_iff o ts).2
  cases hs : isUnboundedScalar ts with
  | false => exact Or.inr (Or.inl rfl)
  | true =>
    rcases h pre i ts post he hs o ho with h | h
    · exact Or.inl h
    · exact Or.inr (Or.inr h)

/-- outputs can agree outside the class: the unbounded layer of value `0` -/
theorem shortcut_outputs_can_agree_outside_class :
    a₁.Canonical ∧ allUndefined a₁ = false ∧
    safeSimple isUnboundedScalar (fun q => needsIM q || needsDist q) false
      [.query .mean, .layer [⟨none, none, 0⟩], .query .mean] = false ∧
    (shortcutV.run (fresh a₁) [.query .mean, .layer [⟨none, none, 0⟩], .query .mean]).2 =
      specRun a₁ [.query .mean, .layer [⟨none, none, 0⟩], .query .mean] := by decide +kernel

/-! non-vacuity: bounded layers between the query and the unbounded layer reset the caches -/
example : safeSimple isUnboundedScalar (fun q => needsIM q || needsDist q) false
      [.query .mean, .layer [⟨some 0, some 2, 2⟩], .layer [⟨none, none, 2⟩], .query .mean, .query .median] = true ∧
    (shortcutV.run (fresh a₁)
      [.query .mean, .layer [⟨some 0, some 2, 2⟩], .layer [⟨none, none, 2⟩], .query .mean, .query .median]).2
      = [[some 1], [], [], [some 4], [some 4]] := by decide +kernel
example : (shortcutV.runW [] hist₁).2 = (runPure [] hist₁).2 := by decide +kernel

end SC.Props.C14c
