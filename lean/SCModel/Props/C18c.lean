import SCModel.Lemmas.Agg18c
import SCModel.Props.C18b
import SCModel.Props.C20c
/-!
# C18c — relations between collection aggregations, aggregation and pointwise operators, undefinedness,
closed side / errors, sample tables

`aggregate F ms` (F ∈ sum, mean, median, min, max, logical_or, logical_and) is the pointwise reduction of the
members (`Props/C18`), invariant under permutation etc. (`Props/C18b`).  Here:

1. **relations between aggregations** – `mean = sum / n` as objects (`mean_eq_sum_div`), the sum of `n` copies
   is `n · f` (`sum_replicate`), mean / median / min / max of `n` copies is `canon f`, `max = −min(−·)` and
   De Morgan `or = ¬ and(¬·)` as objects incl. the error (with the exact side condition; the unrestricted
   statements are REFUTED: `max_neg_needs_side`, `deMorgan_needs_side`), `logical_or` / `logical_and` are the
   max / min of the booleanised members, the median of two members is their mean
   (no hypothesis at all), the median of an odd number of members / the min / the max is pointwise one of the
   members' values, the median of a pointwise sorted family is the middle member (the mean of the two middle ones).
2. **aggregation and pointwise operators** – `sum (zipWith + fs gs) = sum fs + sum gs`, `sum (k·fs) = k·sum fs`,
   `mean`, translation `F (fs + k) = F fs + k` for mean / median / min / max (for `sum`: `+ n·k`), `shift`
   (re-export of C20c), `clip`.
3. **undefinedness** – masking one member masks the aggregate, an everywhere-undefined member makes the aggregate
   everywhere undefined, the logical aggregations follow the same "some member undefined" rule; the seeded
   defect "`logical_and` undefined only where ALL members are undefined" (`aggregateAllUndef`) is refuted.
4. **closed side and errors** – exact characterisation of the `closedMismatch` error and of the result's side.
5. **sample tables** – row `i` depends on member `i` only, mixed closed sides are fine, the table commutes with
   any re-arrangement of the points; the variant that samples every row on the FIRST member's side is refuted.
-/
set_option linter.unusedSectionVars false
set_option linter.unusedVariables false
namespace SC.Props.C18c
open SC SC.Stairs
variable {P : Type} [LinearOrder P]

/-! ## witnesses used in the examples (over `Stairs Int`) -/
def a₀ : Stairs Int := ⟨some 0, [(1, some 2), (4, some 0)], .left⟩
def b₀ : Stairs Int := ⟨some 1, [(2, some 3), (6, none)], .left⟩
def c₀ : Stairs Int := ⟨some 5, [], .right⟩               -- step-free, other closed side
def d₀ : Stairs Int := ⟨none, [(3, some (-1))], .left⟩     -- undefined before 3
def e₀ : Stairs Int := ⟨some 2, [(1, some 3), (5, some 0)], .left⟩   -- canonical, not 0/1-valued
def r₀ : Stairs Int := ⟨some 1, [(0, some 1)], .left⟩      -- WF, NOT canonical: a redundant step
def g₀ : Stairs Int := ⟨some 0, [(2, some 7)], .right⟩     -- has steps, right-closed

/-! ## 1. relations between aggregations -/
section relations
variable [NoMinOrder P] [Nonempty P]

/-- **C18c.1a  mean = sum / n, as objects** (same rows, same closed side, same error), for every collection of
well-formed members – also the empty one (`0 / 0` is the undefined function).  The scalar `n` enters as a
step-free function with the sum's closed side, as `_sanitize_binary_operands` does. -/
theorem mean_eq_sum_div (ms : List (Stairs P)) (hms : ∀ m ∈ ms, m.WF) :
    aggregate .mean ms =
      (aggregate .sum ms >>= fun s => binop .div s (const (some (ms.length : Rat)) s.closed)) := by
  cases hc : closedOfMembers ms with
  | error e => rw [aggregate_eq, aggregate_eq, hc]; rfl
  | ok cl =>
    rw [aggregate_eq .sum, hc]
    show _ = binop .div (canon (aggRaw .sum ms cl)) (const _ cl)
    have hwf := wf_aggRaw .sum ms cl hms
    unfold binop
    rw [combineChecked_total _ _ _ (not_mismatch_const_right _ _ _),
      s20c_sideOf_of_closed_eq (canon (aggRaw .sum ms cl)) (const _ cl) rfl]
    apply a18c_aggregate_eq_of_den .mean ms cl _ hms hc
      (canonical_combine _ _ _ _ (wf_canon _ hwf) (wf_const _ _)) rfl
    intro x
    rw [den_combine _ _ _ _ (wf_canon _ hwf) (wf_const _ _), den_canon _ hwf, den_aggRaw .sum ms cl hms,
      den_const, a18c_eval_mean_eq_sum_div, List.length_map]
    rfl

/-- the same through the operand interface: `sum / n` with the scalar `n` -/
theorem mean_eq_sum_div_scalar (ms : List (Stairs P)) (hms : ∀ m ∈ ms, m.WF) (s : Stairs P)
    (hs : aggregate .sum ms = .ok s) :
    binopO .div (.st s) (.sc (some (ms.length : Rat))) = some (aggregate .mean ms) := by
  rw [mean_eq_sum_div ms hms, hs]; rfl

example : (∀ m ∈ [a₀, b₀, d₀], m.WF) ∧
    aggregate .sum [a₀, b₀, d₀] = .ok ⟨none, [(3, some 4), (4, some 2), (6, none)], .left⟩ ∧
    aggregate .mean [a₀, b₀, d₀] = .ok ⟨none, [(3, some (4/3)), (4, some (2/3)), (6, none)], .left⟩ ∧
    binopO .div (.st ⟨none, [(3, some 4), (4, some 2), (6, none)], .left⟩) (.sc (some 3))
      = some (.ok ⟨none, [(3, some (4/3)), (4, some (2/3)), (6, none)], .left⟩) := by decide +kernel
example : binopO .div (.st ⟨none, [(3, some 4), (4, some 2), (6, none)], .left⟩) (.sc (some (([a₀, b₀, d₀].length : Nat) : Rat)))
    = some (aggregate .mean [a₀, b₀, d₀]) :=
  mean_eq_sum_div_scalar [a₀, b₀, d₀] (by decide +kernel) _ (by decide +kernel)
-- the error case is the same error on both sides
example : aggregate .mean [a₀, g₀] = .error .closedMismatch ∧
    (aggregate .sum [a₀, g₀] >>= fun s => binop .div s (const (some 2) s.closed)) = .error .closedMismatch := by
  decide +kernel

/-- **C18c.1b  the sum of `n ≥ 1` copies of `f` is `n · f`** (the scalar operand interface) -/
theorem sum_replicate (n : Nat) (f : Stairs P) (hf : f.WF) :
    some (aggregate .sum (List.replicate (n + 1) f))
      = binopO .mul (.sc (some ((n + 1 : Nat) : Rat))) (.st f) := by
  show _ = some (combineChecked vmul (const _ f.closed) f)
  rw [combineChecked_total _ _ _ (not_mismatch_const_left _ _ _),
    s20c_sideOf_of_closed_eq (const _ f.closed) f rfl]
  congr 1
  have hc : closedOfMembers (List.replicate (n + 1) f) = .ok f.closed :=
    closedOfMembers_same _ _ (by simp [List.replicate_succ])
      (fun m hm => by rw [List.eq_of_mem_replicate hm])
  apply a18c_aggregate_eq_of_den .sum _ f.closed _
    (fun m hm => by rw [List.eq_of_mem_replicate hm]; exact hf) hc
    (canonical_combine _ _ _ _ (wf_const _ _) hf) rfl
  intro x
  rw [den_combine _ _ _ _ (wf_const _ _) hf, den_const, List.map_replicate, a18c_eval_sum_replicate]

/-- for no copies the law fails: the empty sum is the constant 0, `0 · f` is undefined where `f` is -/
theorem sum_replicate_zero_false :
    some (aggregate .sum (List.replicate 0 d₀)) ≠ binopO .mul (.sc (some 0)) (.st d₀) := by decide +kernel

/-- mean / median / min / max of `n ≥ 1` copies of `f` is the canonical form of `f` -/
theorem aggregate_replicate (F : AggFn) (hF : F = .mean ∨ F = .median ∨ F = .min ∨ F = .max) (n : Nat)
    (f : Stairs P) (hf : f.WF) : aggregate F (List.replicate (n + 1) f) = .ok (canon f) := by
  have hc : closedOfMembers (List.replicate (n + 1) f) = .ok f.closed :=
    closedOfMembers_same _ _ (by simp [List.replicate_succ])
      (fun m hm => by rw [List.eq_of_mem_replicate hm])
  apply a18c_aggregate_eq_of_den F _ f.closed _
    (fun m hm => by rw [List.eq_of_mem_replicate hm]; exact hf) hc (canonical_canon f hf) rfl
  intro x
  rw [den_canon f hf, List.map_replicate, a18c_eval_replicate F hF]

example : r₀.WF ∧ aggregate .sum (List.replicate 3 b₀) = .ok ⟨some 3, [(2, some 9), (6, none)], .left⟩ ∧
    binopO .mul (.sc (some 3)) (.st b₀) = some (.ok ⟨some 3, [(2, some 9), (6, none)], .left⟩) ∧
    aggregate .median (List.replicate 4 r₀) = .ok (canon r₀) := by decide +kernel
example : some (aggregate .sum (List.replicate (2 + 1) b₀)) = binopO .mul (.sc (some ((2 + 1 : Nat) : Rat))) (.st b₀) :=
  sum_replicate 2 b₀ (by decide +kernel)

/-- **C18c.1c  `max = −min(−·)`**, as objects and including the error, when the members are canonical (any
closed sides) or share a closed side -/
theorem max_eq_neg_min_neg (ms : List (Stairs P)) (hms : ∀ m ∈ ms, m.WF)
    (hside : (∀ m ∈ ms, m.IsMinimal) ∨ ∃ cl, ∀ m ∈ ms, m.closed = cl) :
    aggregate .max ms = (aggregate .min (ms.map (unop .neg))).map (unop .neg) := by
  apply a18c_aggregate_transfer .max .min UnOp.neg.eval ms (ms.map (map UnOp.neg.eval)) hms
    (a18c_wf_map_members _ ms hms)
    (a18c_side_map _ ms (hside.imp (fun h => ⟨a18c_neg_injective, h⟩) id))
  intro x
  rw [a18c_den_map_members _ ms hms, ← a18c_eval_max_neg]

theorem min_eq_neg_max_neg (ms : List (Stairs P)) (hms : ∀ m ∈ ms, m.WF)
    (hside : (∀ m ∈ ms, m.IsMinimal) ∨ ∃ cl, ∀ m ∈ ms, m.closed = cl) :
    aggregate .min ms = (aggregate .max (ms.map (unop .neg))).map (unop .neg) := by
  apply a18c_aggregate_transfer .min .max UnOp.neg.eval ms (ms.map (map UnOp.neg.eval)) hms
    (a18c_wf_map_members _ ms hms)
    (a18c_side_map _ ms (hside.imp (fun h => ⟨a18c_neg_injective, h⟩) id))
  intro x
  rw [a18c_den_map_members _ ms hms, ← a18c_eval_min_neg]

/-- the values agree with no side condition (whenever both sides exist) -/
theorem den_max_eq_neg_min_neg (ms : List (Stairs P)) (hms : ∀ m ∈ ms, m.WF) (h k : Stairs P)
    (hr : aggregate .max ms = .ok h) (hk : aggregate .min (ms.map (unop .neg)) = .ok k) (st : Bool) (x : P) :
    Den h st x = UnOp.neg.eval (Den k st x) := by
  rw [(den_aggregate .max ms h hms hr).2 st x,
    (den_aggregate .min _ k (a18c_wf_map_members UnOp.neg.eval ms hms) hk).2 st x]
  show _ = UnOp.neg.eval (AggFn.min.eval ((ms.map (map UnOp.neg.eval)).map _))
  rw [a18c_den_map_members _ ms hms, ← a18c_eval_max_neg]

/-- **refutation**: without the side condition the object-level law is false – a non-canonical member loses its
(redundant) step under `−`, and with it its say about the closed side: the left side raises, the right does not -/
theorem max_neg_needs_side :
    r₀.WF ∧ g₀.WF ∧ aggregate .max [r₀, g₀] = .error .closedMismatch ∧
    (aggregate .min ([r₀, g₀].map (unop .neg))).map (unop .neg) = .ok ⟨some 1, [(2, some 7)], .right⟩ := by
  decide +kernel

example : (∀ m ∈ [a₀, b₀, c₀, d₀], m.IsMinimal) ∧
    aggregate .max [a₀, b₀, c₀, d₀] = .ok ⟨none, [(3, some 5), (6, none)], .left⟩ ∧
    aggregate .min ([a₀, b₀, c₀, d₀].map (unop .neg)) = .ok ⟨none, [(3, some (-5)), (6, none)], .left⟩ := by
  decide +kernel
example : aggregate .max [a₀, b₀, c₀, d₀] = (aggregate .min ([a₀, b₀, c₀, d₀].map (unop .neg))).map (unop .neg) :=
  max_eq_neg_min_neg _ (by decide +kernel) (Or.inl (by decide +kernel))

/-- **C18c.1d  De Morgan**: `logical_or ms = invert (logical_and (map invert ms))`, as objects, for members
sharing a closed side.  The members need NOT be 0/1-valued (both logical reductions and `invert` booleanise),
and the undefined regions agree exactly: both sides are undefined where some member is. -/
theorem logicalOr_deMorgan (ms : List (Stairs P)) (hms : ∀ m ∈ ms, m.WF) (cl : Side)
    (hcl : ∀ m ∈ ms, m.closed = cl) :
    aggregate .logicalOr ms = (aggregate .logicalAnd (ms.map (unop .invert))).map (unop .invert) := by
  apply a18c_aggregate_transfer .logicalOr .logicalAnd UnOp.invert.eval ms (ms.map (map UnOp.invert.eval)) hms
    (a18c_wf_map_members _ ms hms) (a18c_side_map _ ms (Or.inr ⟨cl, hcl⟩))
  intro x
  rw [a18c_den_map_members _ ms hms, ← a18c_eval_or_deMorgan]

theorem logicalAnd_deMorgan (ms : List (Stairs P)) (hms : ∀ m ∈ ms, m.WF) (cl : Side)
    (hcl : ∀ m ∈ ms, m.closed = cl) :
    aggregate .logicalAnd ms = (aggregate .logicalOr (ms.map (unop .invert))).map (unop .invert) := by
  apply a18c_aggregate_transfer .logicalAnd .logicalOr UnOp.invert.eval ms (ms.map (map UnOp.invert.eval)) hms
    (a18c_wf_map_members _ ms hms) (a18c_side_map _ ms (Or.inr ⟨cl, hcl⟩))
  intro x
  rw [a18c_den_map_members _ ms hms, ← a18c_eval_and_deMorgan]

/-- De Morgan for the values, no side condition -/
theorem den_logicalOr_deMorgan (ms : List (Stairs P)) (hms : ∀ m ∈ ms, m.WF) (h k : Stairs P)
    (hr : aggregate .logicalOr ms = .ok h) (hk : aggregate .logicalAnd (ms.map (unop .invert)) = .ok k)
    (st : Bool) (x : P) : Den h st x = UnOp.invert.eval (Den k st x) := by
  rw [(den_aggregate .logicalOr ms h hms hr).2 st x,
    (den_aggregate .logicalAnd _ k (a18c_wf_map_members UnOp.invert.eval ms hms) hk).2 st x]
  show _ = UnOp.invert.eval (AggFn.logicalAnd.eval ((ms.map (map UnOp.invert.eval)).map _))
  rw [a18c_den_map_members _ ms hms, ← a18c_eval_or_deMorgan]

/-- the logical aggregations only see the truth values of the members -/
theorem logical_makeBoolean (F : AggFn) (hF : F = .logicalOr ∨ F = .logicalAnd) (ms : List (Stairs P))
    (hms : ∀ m ∈ ms, m.WF) (cl : Side) (hcl : ∀ m ∈ ms, m.closed = cl) :
    aggregate F (ms.map (unop .makeBoolean)) = aggregate F ms := by
  symm
  apply a18c_aggregate_eq_aggregate F F ms (ms.map (map UnOp.makeBoolean.eval)) hms
    (a18c_wf_map_members _ ms hms) (a18c_side_map _ ms (Or.inr ⟨cl, hcl⟩))
  intro x
  rw [a18c_den_map_members _ ms hms, a18c_eval_logical_makeBoolean F hF]

/-- **`logical_or` is the maximum, `logical_and` the minimum of the booleanised members** (non-empty collections
sharing a closed side) -/
theorem logicalOr_eq_max (ms : List (Stairs P)) (hne : ms ≠ []) (hms : ∀ m ∈ ms, m.WF) (cl : Side)
    (hcl : ∀ m ∈ ms, m.closed = cl) :
    aggregate .logicalOr ms = aggregate .max (ms.map (unop .makeBoolean)) := by
  apply a18c_aggregate_eq_aggregate .logicalOr .max ms (ms.map (map UnOp.makeBoolean.eval)) hms
    (a18c_wf_map_members _ ms hms) (a18c_side_map _ ms (Or.inr ⟨cl, hcl⟩))
  intro x
  rw [a18c_den_map_members _ ms hms, ← a18c_eval_or_eq_max _ (by simpa using hne)]

theorem logicalAnd_eq_min (ms : List (Stairs P)) (hne : ms ≠ []) (hms : ∀ m ∈ ms, m.WF) (cl : Side)
    (hcl : ∀ m ∈ ms, m.closed = cl) :
    aggregate .logicalAnd ms = aggregate .min (ms.map (unop .makeBoolean)) := by
  apply a18c_aggregate_eq_aggregate .logicalAnd .min ms (ms.map (map UnOp.makeBoolean.eval)) hms
    (a18c_wf_map_members _ ms hms) (a18c_side_map _ ms (Or.inr ⟨cl, hcl⟩))
  intro x
  rw [a18c_den_map_members _ ms hms, ← a18c_eval_and_eq_min _ (by simpa using hne)]

/-- not for the empty collection (`any [] = False` is defined, `max []` is not), nor without booleanising -/
theorem logicalOr_eq_max_needs :
    aggregate .logicalOr ([] : List (Stairs Int)) ≠ aggregate .max (([] : List (Stairs Int)).map (unop .makeBoolean)) ∧
    aggregate .logicalOr [a₀, e₀] ≠ aggregate .max [a₀, e₀] ∧
    aggregate .logicalOr [a₀, e₀] = aggregate .max ([a₀, e₀].map (unop .makeBoolean)) := by decide +kernel

/-- **refutation**: without a common closed side De Morgan fails as a statement about objects / errors, even for
canonical members – `invert` is not injective, `e₀` (values 2, 3, 0 …) keeps its steps but a member with non-zero
values only loses them -/
theorem deMorgan_needs_side :
    (⟨some 2, [(1, some 3)], .left⟩ : Stairs Int).Canonical ∧ g₀.Canonical ∧
    aggregate .logicalOr [⟨some 2, [(1, some 3)], .left⟩, g₀] = .error .closedMismatch ∧
    (aggregate .logicalAnd ([⟨some 2, [(1, some 3)], .left⟩, g₀].map (unop .invert))).map (unop .invert)
      = .ok ⟨some 1, [], .right⟩ := by decide +kernel

example : (∀ m ∈ [a₀, e₀, d₀], m.WF ∧ m.closed = .left) := by decide +kernel
example : aggregate .logicalOr [a₀, e₀, d₀] = .ok ⟨none, [(3, some 1)], .left⟩ ∧
    aggregate .logicalAnd ([a₀, e₀, d₀].map (unop .invert)) = .ok ⟨none, [(3, some 0)], .left⟩ ∧
    aggregate .logicalAnd [a₀, e₀, d₀] = .ok ⟨none, [(3, some 1), (4, some 0)], .left⟩ := by decide +kernel
example : aggregate .logicalOr [a₀, e₀, d₀] = (aggregate .logicalAnd ([a₀, e₀, d₀].map (unop .invert))).map (unop .invert) :=
  logicalOr_deMorgan _ (by decide +kernel) .left (by decide +kernel)

end relations

/-! ### median -/
section median

/-- **C18c.1e  the median of two members is their mean** – the identical result (rows, closed side, error),
with no hypothesis on the members at all -/
theorem median_pair_eq_mean (f g : Stairs P) : aggregate .median [f, g] = aggregate .mean [f, g] := by
  apply a18c_aggregate_congr_eval
  intro vs hvs
  obtain ⟨v, w, rfl⟩ := List.length_eq_two.mp hvs
  exact a18c_eval_median_pair v w

/-- … and of one member, too -/
theorem median_single_eq_mean (f : Stairs P) : aggregate .median [f] = aggregate .mean [f] := by
  apply a18c_aggregate_congr_eval
  intro vs hvs
  obtain ⟨v, rfl⟩ := List.length_eq_one_iff.mp hvs
  rw [a18b_eval_single .median (by decide), a18b_eval_single .mean (by decide)]

example : aggregate .median [a₀, d₀] = aggregate .mean [a₀, d₀] ∧
    aggregate .median [a₀, d₀] = .ok ⟨none, [(3, some (1/2)), (4, some (-1/2))], .left⟩ ∧
    aggregate .median [a₀, g₀] = .error .closedMismatch := by decide +kernel

/-- **C18c.1f  the median of an odd number of members is, at every point, the value of one of the members**
(where it is undefined, that member is an undefined one) -/
theorem median_odd_among (ms : List (Stairs P)) (hms : ∀ m ∈ ms, m.WF) (hodd : ms.length % 2 = 1)
    (h : Stairs P) (hr : aggregate .median ms = .ok h) (st : Bool) (x : P) :
    ∃ m ∈ ms, Den h st x = Den m st x := by
  rw [(den_aggregate .median ms h hms hr).2 st x]
  have := a18c_eval_median_mem (ms.map fun m => Den m st x) (by simpa using hodd)
  obtain ⟨m, hm, e⟩ := List.mem_map.mp this
  exact ⟨m, hm, e.symm⟩

/-- so are the minimum and the maximum of any non-empty collection -/
theorem min_among (ms : List (Stairs P)) (hms : ∀ m ∈ ms, m.WF) (hne : ms ≠ [])
    (h : Stairs P) (hr : aggregate .min ms = .ok h) (st : Bool) (x : P) :
    ∃ m ∈ ms, Den h st x = Den m st x := by
  rw [(den_aggregate .min ms h hms hr).2 st x]
  have := a18c_eval_min_mem (ms.map fun m => Den m st x) (by simpa using hne)
  obtain ⟨m, hm, e⟩ := List.mem_map.mp this
  exact ⟨m, hm, e.symm⟩

theorem max_among (ms : List (Stairs P)) (hms : ∀ m ∈ ms, m.WF) (hne : ms ≠ [])
    (h : Stairs P) (hr : aggregate .max ms = .ok h) (st : Bool) (x : P) :
    ∃ m ∈ ms, Den h st x = Den m st x := by
  rw [(den_aggregate .max ms h hms hr).2 st x]
  have := a18c_eval_max_mem (ms.map fun m => Den m st x) (by simpa using hne)
  obtain ⟨m, hm, e⟩ := List.mem_map.mp this
  exact ⟨m, hm, e.symm⟩

/-- for an even number of members the median need not be a member value -/
theorem median_even_not_among :
    ∃ h, aggregate .median [a₀, b₀] = .ok h ∧ ¬ ∃ m ∈ [a₀, b₀], Den h false 0 = Den m false 0 :=
  ⟨⟨some (1/2), [(1, some (3/2)), (2, some (5/2)), (4, some (3/2)), (6, none)], .left⟩, by decide +kernel,
    by decide +kernel⟩

example : aggregate .median [a₀, b₀, e₀] = .ok ⟨some 1, [(1, some 2), (2, some 3), (5, some 0), (6, none)], .left⟩ := by
  decide +kernel

/-- `f ≤ g` wherever both are defined (both one-sided limits) -/
def PointwiseLE (f g : Stairs P) : Prop := ∀ st x, a18c_ValLE (Den f st x) (Den g st x)

/-- **C18c.1g  the median of a pointwise sorted family, odd count**: where all members are defined the median
is the MIDDLE member (elsewhere it is undefined: `C18.aggregate_undefined_iff`) -/
theorem median_sorted_odd (ms : List (Stairs P)) (hms : ∀ m ∈ ms, m.WF) (hs : ms.Pairwise PointwiseLE)
    (hodd : ms.length % 2 = 1) (mid : Stairs P) (hmid : ms[ms.length / 2]? = some mid)
    (h : Stairs P) (hr : aggregate .median ms = .ok h) (st : Bool) (x : P)
    (hdef : ∀ m ∈ ms, Den m st x ≠ none) : Den h st x = Den mid st x := by
  rw [(den_aggregate .median ms h hms hr).2 st x]
  have hdef' : none ∉ ms.map fun m => Den m st x := by
    intro hn
    obtain ⟨m, hm, e⟩ := List.mem_map.mp hn
    exact hdef m hm e
  have hs' : (ms.map fun m => Den m st x).Pairwise a18c_ValLE :=
    List.pairwise_map.mpr (hs.imp fun hab => hab st x)
  have h1 := a18c_eval_median_sorted_odd _ hdef' hs' (by simpa using hodd)
  rw [List.length_map, List.getElem?_map, hmid] at h1
  simpa using h1.symm

/-- … even count: the mean of the two middle members -/
theorem median_sorted_even (ms : List (Stairs P)) (hms : ∀ m ∈ ms, m.WF) (hs : ms.Pairwise PointwiseLE)
    (heven : ms.length % 2 = 0) (lo hi : Stairs P) (hlo : ms[ms.length / 2 - 1]? = some lo)
    (hhi : ms[ms.length / 2]? = some hi) (h : Stairs P) (hr : aggregate .median ms = .ok h) (st : Bool) (x : P)
    (hdef : ∀ m ∈ ms, Den m st x ≠ none) :
    Den h st x = AggFn.mean.eval [Den lo st x, Den hi st x] := by
  rw [(den_aggregate .median ms h hms hr).2 st x]
  have hdef' : none ∉ ms.map fun m => Den m st x := by
    intro hn
    obtain ⟨m, hm, e⟩ := List.mem_map.mp hn
    exact hdef m hm e
  have hs' : (ms.map fun m => Den m st x).Pairwise a18c_ValLE :=
    List.pairwise_map.mpr (hs.imp fun hab => hab st x)
  apply a18c_eval_median_sorted_even _ hdef' hs' (by simpa using heven)
  · rw [List.length_map, List.getElem?_map, hlo]; rfl
  · rw [List.length_map, List.getElem?_map, hhi]; rfl

/-! decidable criteria for the two hypotheses (used to show they are satisfiable on concrete inputs) -/

/-- a one-sided limit is the initial value or one of the step values -/
theorem lim_mem_values {V : Type} (st : Bool) (a : V) (s : List (P × V)) (x : P) :
    lim st a s x = a ∨ lim st a s x ∈ s.map Prod.snd := by
  induction s generalizing a with
  | nil => exact Or.inl rfl
  | cons pv r ih =>
    obtain ⟨p, v⟩ := pv
    rw [lim_cons]
    split
    · rcases ih v with e | e
      · exact Or.inr (by rw [e]; simp)
      · exact Or.inr (List.mem_cons_of_mem _ e)
    · exact Or.inl rfl

/-- all values defined ⇒ defined everywhere -/
def definedCheck (f : Stairs P) : Bool := f.init.isSome && f.steps.all (·.2.isSome)

theorem den_defined_of_check (f : Stairs P) (h : definedCheck f = true) (st : Bool) (x : P) :
    Den f st x ≠ none := by
  unfold definedCheck at h
  rw [Bool.and_eq_true, List.all_eq_true] at h
  intro hn
  rcases lim_mem_values st f.init f.steps x with e | e
  · unfold Den at hn; rw [e] at hn; rw [hn] at h; exact absurd h.1 (by simp)
  · obtain ⟨pv, hpv, e'⟩ := List.mem_map.mp e
    have := h.2 pv hpv
    unfold Den at hn
    rw [e', hn] at this
    exact absurd this (by simp)

/-- `f ≤ g` (the relational operator) has no value 0 ⇒ `f ≤ g` pointwise -/
def leCheck (f g : Stairs P) : Bool :=
  decide f.WF && decide g.WF &&
    (decide ((combine (vrel .le) f g .left).init ≠ some 0) &&
      (combine (vrel .le) f g .left).steps.all fun pv => decide (pv.2 ≠ some 0))

theorem pointwiseLE_of_check (f g : Stairs P) (h : leCheck f g = true) : PointwiseLE f g := by
  unfold leCheck at h
  simp only [Bool.and_eq_true, decide_eq_true_eq, List.all_eq_true] at h
  obtain ⟨⟨hf, hg⟩, hi, hs⟩ := h
  intro st x a b ha hb
  have hd := den_combine (vrel .le) f g .left hf hg st x
  rw [ha, hb] at hd
  have hne : Den (combine (vrel .le) f g .left) st x ≠ some 0 := by
    rcases lim_mem_values st (combine (vrel .le) f g .left).init (combine (vrel .le) f g .left).steps x with e | e
    · unfold Den; rw [e]; exact hi
    · obtain ⟨pv, hpv, e'⟩ := List.mem_map.mp e
      unfold Den; rw [← e']; exact hs pv hpv
  rw [hd] at hne
  by_contra hlt
  apply hne
  simp [vrel, Rel.eval, b2r, hlt]

theorem pairwise_of_check (ms : List (Stairs P)) (h : ms.Pairwise fun f g => leCheck f g = true) :
    ms.Pairwise PointwiseLE := h.imp fun hab => pointwiseLE_of_check _ _ hab

variable [NoMinOrder P] [Nonempty P]

/-- as objects: for everywhere-defined members sharing a closed side, the median of a sorted family of odd size
is (the canonical form of) the middle member … -/
theorem median_sorted_odd_obj (ms : List (Stairs P)) (hms : ∀ m ∈ ms, m.WF) (hs : ms.Pairwise PointwiseLE)
    (hodd : ms.length % 2 = 1) (mid : Stairs P) (hmid : ms[ms.length / 2]? = some mid) (cl : Side)
    (hcl : ∀ m ∈ ms, m.closed = cl) (hdef : ∀ m ∈ ms, ∀ x, Den m false x ≠ none) :
    aggregate .median ms = .ok (canon mid) := by
  have hne : ms ≠ [] := by intro h0; rw [h0] at hodd; simp at hodd
  have hmem : mid ∈ ms := List.mem_of_getElem? hmid
  have hc := closedOfMembers_same ms cl hne hcl
  have hagg := aggregate_same_closed .median ms cl hne hcl
  apply a18c_aggregate_eq_of_den .median ms cl _ hms hc (canonical_canon mid (hms mid hmem)) (hcl mid hmem)
  intro x
  rw [den_canon mid (hms mid hmem),
    ← median_sorted_odd ms hms hs hodd mid hmid _ hagg false x (fun m hm => hdef m hm x)]
  exact (den_aggregate .median ms _ hms hagg).2 false x

/-- … of even size the mean-aggregate of the two middle members -/
theorem median_sorted_even_obj (ms : List (Stairs P)) (hms : ∀ m ∈ ms, m.WF) (hs : ms.Pairwise PointwiseLE)
    (heven : ms.length % 2 = 0) (lo hi : Stairs P) (hlo : ms[ms.length / 2 - 1]? = some lo)
    (hhi : ms[ms.length / 2]? = some hi) (cl : Side)
    (hcl : ∀ m ∈ ms, m.closed = cl) (hdef : ∀ m ∈ ms, ∀ x, Den m false x ≠ none) :
    aggregate .median ms = aggregate .mean [lo, hi] := by
  have hmlo : lo ∈ ms := List.mem_of_getElem? hlo
  have hmhi : hi ∈ ms := List.mem_of_getElem? hhi
  have hne : ms ≠ [] := List.ne_nil_of_mem hmlo
  have hagg := aggregate_same_closed .median ms cl hne hcl
  have hw2 : ∀ m ∈ [lo, hi], m.WF := by
    intro m hm; simp only [List.mem_cons, List.not_mem_nil, or_false] at hm
    rcases hm with e | e <;> rw [e] <;> [exact hms lo hmlo; exact hms hi hmhi]
  have hc2 : ∀ m ∈ [lo, hi], m.closed = cl := by
    intro m hm; simp only [List.mem_cons, List.not_mem_nil, or_false] at hm
    rcases hm with e | e <;> rw [e] <;> [exact hcl lo hmlo; exact hcl hi hmhi]
  apply a18c_aggregate_eq_aggregate .median .mean ms [lo, hi] hms hw2
  · rw [closedOfMembers_same ms cl hne hcl, closedOfMembers_same [lo, hi] cl (by simp) hc2]
  · intro x
    rw [← (den_aggregate .median ms _ hms hagg).2 false x,
      median_sorted_even ms hms hs heven lo hi hlo hhi _ hagg false x (fun m hm => hdef m hm x)]
    rfl

def s₁ : Stairs Int := ⟨some 0, [(2, some 1)], .left⟩
def s₂ : Stairs Int := ⟨some 1, [(1, some 1), (3, some 4)], .left⟩    -- WF, not canonical
def s₃ : Stairs Int := ⟨some 1, [(3, some 5)], .left⟩
def s₄ : Stairs Int := ⟨some 7, [(0, some 8)], .left⟩

-- the hypotheses of the sorted-family theorems hold on `[s₁, s₂, s₃]` / `[s₁, s₂, s₃, s₄]`
example : aggregate .median [s₁, s₂, s₃] = .ok (canon s₂) :=
  median_sorted_odd_obj [s₁, s₂, s₃] (by decide +kernel) (pairwise_of_check _ (by decide +kernel)) rfl s₂ rfl .left
    (by decide +kernel)
    (fun m hm x => den_defined_of_check m (by revert m; decide +kernel) false x)
example : aggregate .median [s₁, s₂, s₃, s₄] = aggregate .mean [s₂, s₃] :=
  median_sorted_even_obj [s₁, s₂, s₃, s₄] (by decide +kernel) (pairwise_of_check _ (by decide +kernel)) rfl s₂ s₃ rfl rfl
    .left (by decide +kernel)
    (fun m hm x => den_defined_of_check m (by revert m; decide +kernel) false x)
example : aggregate .median [s₁, s₂, s₃] = .ok (canon s₂) ∧ (canon s₂ : Stairs Int) = ⟨some 1, [(3, some 4)], .left⟩ ∧
    aggregate .median [s₁, s₂, s₃, s₄] = aggregate .mean [s₂, s₃] ∧
    aggregate .median [s₁, s₂, s₃, s₄] = .ok ⟨some 1, [(3, some (9/2))], .left⟩ := by decide +kernel

end median

/-! ## 2. aggregation and pointwise operators -/
section pointwise

/-! ### Helpers -/
section Helpers

theorem a18c_zipWith_combine_spec (op : Val → Val → Val) (cl : Side) (fs gs : List (Stairs P))
    (hfs : ∀ f ∈ fs, f.WF) (hgs : ∀ g ∈ gs, g.WF) :
    (∀ m ∈ List.zipWith (fun f g => combine op f g cl) fs gs, m.WF ∧ m.closed = cl) ∧
    ∀ st x, (List.zipWith (fun f g => combine op f g cl) fs gs).map (fun m => Den m st x)
      = List.zipWith op (fs.map fun m => Den m st x) (gs.map fun m => Den m st x) := by
  induction fs generalizing gs with
  | nil => simp
  | cons f r ih =>
    cases gs with
    | nil => simp
    | cons g r' =>
      have hf := hfs f (by simp)
      have hg := hgs g (by simp)
      obtain ⟨h1, h2⟩ := ih r' (fun m hm => hfs m (List.mem_cons_of_mem _ hm))
        (fun m hm => hgs m (List.mem_cons_of_mem _ hm))
      refine ⟨?_, fun st x => ?_⟩
      · intro m hm
        rw [List.zipWith_cons_cons] at hm
        rcases List.mem_cons.mp hm with e | e
        · rw [e]; exact ⟨wf_combine op f g cl hf hg, rfl⟩
        · exact h1 m e
      · simp only [List.zipWith_cons_cons, List.map_cons, h2 st x, den_combine op f g cl hf hg]

theorem a18c_binop_same_closed (o : BinOp) (f g : Stairs P) (cl : Side) (hf : f.closed = cl) (hg : g.closed = cl) :
    binop o f g = .ok (combine o.eval f g cl) := by
  show combineChecked o.eval f g = _
  rw [combineChecked_total _ _ _ (not_mismatch_of_closed_eq f g (hf.trans hg.symm)),
    s20c_sideOf_of_closed_eq f g (hf.trans hg.symm), hf]

end Helpers

/-- the element-wise checked operator on two collections (`[f ∘ g for f, g in zip(fs, gs)]`) -/
def zipBinop (o : BinOp) (fs gs : List (Stairs P)) : Except Err (List (Stairs P)) :=
  (fs.zip gs).mapM fun p => binop o p.1 p.2

/-- for operands sharing a closed side it never raises and is the element-wise unchecked path -/
theorem zipBinop_same_closed (o : BinOp) (cl : Side) (fs gs : List (Stairs P))
    (hcf : ∀ f ∈ fs, f.closed = cl) (hcg : ∀ g ∈ gs, g.closed = cl) :
    zipBinop o fs gs = .ok (List.zipWith (fun f g => combine o.eval f g cl) fs gs) := by
  unfold zipBinop
  induction fs generalizing gs with
  | nil => simp; rfl
  | cons f r ih =>
    cases gs with
    | nil => simp; rfl
    | cons g r' =>
      rw [List.zip_cons_cons, List.mapM_cons, a18c_binop_same_closed o f g cl (hcf f (by simp)) (hcg g (by simp)),
        List.zipWith_cons_cons]
      have := ih r' (fun m hm => hcf m (List.mem_cons_of_mem _ hm)) (fun m hm => hcg m (List.mem_cons_of_mem _ hm))
      show (List.mapM (fun p => binop o p.1 p.2) (r.zip r') >>= fun bs => pure (combine o.eval f g cl :: bs)) = _
      rw [this]
      rfl

/-- the unchecked `clip` (what `clip` returns when `lower < upper`) -/
def clipTo (lo hi : Option P) (f : Stairs P) : Stairs P := a18c_clipTo lo hi f

theorem clip_eq_clipTo (f : Stairs P) (lo hi : Option P) (hb : boundsOk lo hi = true) :
    clip f lo hi = .ok (clipTo lo hi f) := clip_ok f lo hi hb

/-- clipping every member with the checked `clip` -/
theorem mapM_clip (fs : List (Stairs P)) (lo hi : Option P) :
    fs.mapM (fun f => clip f lo hi) =
      if boundsOk lo hi = true ∨ fs = [] then .ok (fs.map (clipTo lo hi)) else .error .valueError := by
  induction fs with
  | nil => simp; rfl
  | cons f r ih =>
    rw [List.mapM_cons]
    cases hb : boundsOk lo hi with
    | false => rw [clip_error f lo hi hb]; simp; rfl
    | true =>
      rw [clip_ok f lo hi hb, ih]
      simp [hb]
      rfl

variable [NoMinOrder P] [Nonempty P]

/-- **C18c.2a  `sum (zipWith + fs gs) = sum fs + sum gs`**, as objects, for two collections of the same
(positive) size whose members share a closed side -/
theorem sum_zipWith_add (fs gs : List (Stairs P)) (cl : Side) (hlen : fs.length = gs.length) (hne : fs ≠ [])
    (hfs : ∀ f ∈ fs, f.WF) (hgs : ∀ g ∈ gs, g.WF)
    (hcf : ∀ f ∈ fs, f.closed = cl) (hcg : ∀ g ∈ gs, g.closed = cl) :
    aggregate .sum (List.zipWith (fun f g => combine vadd f g cl) fs gs) =
      (aggregate .sum fs >>= fun a => aggregate .sum gs >>= fun b => binop .add a b) := by
  have hgne : gs ≠ [] := by
    intro h0; rw [h0] at hlen; exact hne (List.length_eq_zero_iff.mp hlen)
  obtain ⟨hz1, hz2⟩ := a18c_zipWith_combine_spec vadd cl fs gs hfs hgs
  have hzne : List.zipWith (fun f g => combine vadd f g cl) fs gs ≠ [] := by
    cases fs with
    | nil => exact absurd rfl hne
    | cons f r =>
      cases gs with
      | nil => exact absurd rfl hgne
      | cons g r' => simp
  rw [aggregate_same_closed .sum fs cl hne hcf]
  show _ = (aggregate .sum gs >>= fun b => binop .add (canon (aggRaw .sum fs cl)) b)
  rw [aggregate_same_closed .sum gs cl hgne hcg]
  show _ = binop .add (canon (aggRaw .sum fs cl)) (canon (aggRaw .sum gs cl))
  rw [a18c_binop_same_closed .add _ _ cl rfl rfl]
  have wa := wf_canon _ (wf_aggRaw .sum fs cl hfs)
  have wb := wf_canon _ (wf_aggRaw .sum gs cl hgs)
  apply a18c_aggregate_eq_of_den .sum _ cl _ (fun m hm => (hz1 m hm).1)
    (closedOfMembers_same _ cl hzne (fun m hm => (hz1 m hm).2)) (canonical_combine _ _ _ _ wa wb) rfl
  intro x
  rw [den_combine _ _ _ _ wa wb, den_canon _ (wf_aggRaw .sum fs cl hfs), den_canon _ (wf_aggRaw .sum gs cl hgs),
    den_aggRaw .sum fs cl hfs, den_aggRaw .sum gs cl hgs, hz2 false x]
  exact (a18c_eval_sum_zipWith _ _ (by simpa using hlen)).symm

/-- the same with the checked element-wise `+` -/
theorem sum_zipBinop_add (fs gs : List (Stairs P)) (cl : Side) (hlen : fs.length = gs.length) (hne : fs ≠ [])
    (hfs : ∀ f ∈ fs, f.WF) (hgs : ∀ g ∈ gs, g.WF)
    (hcf : ∀ f ∈ fs, f.closed = cl) (hcg : ∀ g ∈ gs, g.closed = cl) :
    (zipBinop .add fs gs >>= aggregate .sum) =
      (aggregate .sum fs >>= fun a => aggregate .sum gs >>= fun b => binop .add a b) := by
  rw [zipBinop_same_closed .add cl fs gs hcf hcg]
  exact sum_zipWith_add fs gs cl hlen hne hfs hgs hcf hcg

example : zipBinop .add [a₀, b₀] [d₀, e₀] = .ok [⟨none, [(3, some 1), (4, some (-1))], .left⟩,
      ⟨some 3, [(1, some 4), (2, some 6), (5, some 3), (6, none)], .left⟩] ∧
    (zipBinop .add [a₀, b₀] [d₀, e₀] >>= aggregate .sum) = .ok ⟨none, [(3, some 7), (4, some 5), (5, some 2), (6, none)], .left⟩ ∧
    aggregate .sum [a₀, b₀] = .ok ⟨some 1, [(1, some 3), (2, some 5), (4, some 3), (6, none)], .left⟩ ∧
    aggregate .sum [d₀, e₀] = .ok ⟨none, [(3, some 2), (5, some (-1))], .left⟩ ∧
    binop .add ⟨some 1, [(1, some 3), (2, some 5), (4, some 3), (6, none)], .left⟩ ⟨none, [(3, some 2), (5, some (-1))], .left⟩
      = .ok ⟨none, [(3, some 7), (4, some 5), (5, some 2), (6, none)], .left⟩ := by decide +kernel
example : (zipBinop .add [a₀, b₀] [d₀, e₀] >>= aggregate .sum) =
      (aggregate .sum [a₀, b₀] >>= fun a => aggregate .sum [d₀, e₀] >>= fun b => binop .add a b) :=
  sum_zipBinop_add _ _ .left rfl (by simp) (by decide +kernel) (by decide +kernel) (by decide +kernel) (by decide +kernel)

/-! ### scaling -/

/-- `k · f` -/
def scale (k : Rat) (f : Stairs P) : Stairs P := Stairs.map (vmul (some k)) f

/-- it is what the operator `k * f` with a scalar operand returns -/
theorem scale_eq_binopO (k : Rat) (f : Stairs P) (hf : f.WF) :
    binopO .mul (.sc (some k)) (.st f) = some (.ok (scale k f)) := by
  show some (combineChecked vmul (const _ f.closed) f) = _
  rw [combineChecked_total _ _ _ (not_mismatch_const_left _ _ _),
    s20c_sideOf_of_closed_eq (const _ f.closed) f rfl]
  show some (Except.ok (combine vmul (const (some k) f.closed) f f.closed)) = _
  rw [a18c_combine_const_left vmul f hf]
  rfl

/-- **C18c.2b  `sum (map (k ·) fs) = k · sum fs`**, as objects incl. the error, for canonical members and
`k ≠ 0`, or members sharing a closed side -/
theorem sum_scale (k : Rat) (fs : List (Stairs P)) (hfs : ∀ f ∈ fs, f.WF)
    (hside : (k ≠ 0 ∧ ∀ m ∈ fs, m.IsMinimal) ∨ ∃ cl, ∀ m ∈ fs, m.closed = cl) :
    aggregate .sum (fs.map (scale k)) = (aggregate .sum fs).map (scale k) := by
  apply a18c_aggregate_transfer .sum .sum (vmul (some k)) (fs.map (map (vmul (some k)))) fs
    (a18c_wf_map_members _ fs hfs) hfs
    (a18c_side_map _ fs (hside.imp (fun h => ⟨a18c_scale_injective k h.1, h.2⟩) id)).symm
  intro x
  rw [a18c_den_map_members _ fs hfs, a18c_eval_sum_scale]

/-- the mean is homogeneous, too -/
theorem mean_scale (k : Rat) (fs : List (Stairs P)) (hfs : ∀ f ∈ fs, f.WF)
    (hside : (k ≠ 0 ∧ ∀ m ∈ fs, m.IsMinimal) ∨ ∃ cl, ∀ m ∈ fs, m.closed = cl) :
    aggregate .mean (fs.map (scale k)) = (aggregate .mean fs).map (scale k) := by
  apply a18c_aggregate_transfer .mean .mean (vmul (some k)) (fs.map (map (vmul (some k)))) fs
    (a18c_wf_map_members _ fs hfs) hfs
    (a18c_side_map _ fs (hside.imp (fun h => ⟨a18c_scale_injective k h.1, h.2⟩) id)).symm
  intro x
  rw [a18c_den_map_members _ fs hfs, a18c_eval_mean_scale]

/-- **refutation**: for `k = 0` and mixed closed sides the law fails – scaling by 0 removes every step (where
the members are defined everywhere), and with the steps the closed mismatch -/
theorem sum_scale_zero_needs_side :
    a₀.Canonical ∧ g₀.Canonical ∧ aggregate .sum ([a₀, g₀].map (scale 0)) = .ok ⟨some 0, [], .left⟩ ∧
    (aggregate .sum [a₀, g₀]).map (scale 0) = .error .closedMismatch := by decide +kernel

example : aggregate .sum ([a₀, b₀, c₀].map (scale (-2))) = .ok ⟨some (-12), [(1, some (-16)), (2, some (-20)), (4, some (-16)), (6, none)], .left⟩ ∧
    (aggregate .sum [a₀, b₀, c₀]).map (scale (-2))
      = .ok ⟨some (-12), [(1, some (-16)), (2, some (-20)), (4, some (-16)), (6, none)], .left⟩ := by decide +kernel
example : aggregate .sum ([a₀, b₀, c₀].map (scale (-2))) = (aggregate .sum [a₀, b₀, c₀]).map (scale (-2)) :=
  sum_scale (-2) _ (by decide +kernel) (Or.inl ⟨by decide +kernel, by decide +kernel⟩)

/-! ### adding a constant -/

/-- `f + k` -/
def addConst (k : Rat) (f : Stairs P) : Stairs P := Stairs.map (fun v => vadd v (some k)) f

theorem addConst_eq_binopO (k : Rat) (f : Stairs P) (hf : f.WF) :
    binopO .add (.st f) (.sc (some k)) = some (.ok (addConst k f)) := by
  show some (combineChecked vadd f (const _ f.closed)) = _
  rw [combineChecked_total _ _ _ (not_mismatch_const_right _ _ _),
    s20c_sideOf_of_closed_eq f (const _ f.closed) rfl, a18c_combine_const_right vadd f hf]
  rfl

/-- **C18c.2d  `F (map (· + k) fs) = F fs + k`** for F = mean, median, min, max (in particular
`max (fs + k) = max fs + k`), as objects incl. the error, for canonical members (any closed sides) or members
sharing a closed side -/
theorem aggregate_addConst (F : AggFn) (hF : F = .mean ∨ F = .median ∨ F = .min ∨ F = .max) (k : Rat)
    (fs : List (Stairs P)) (hfs : ∀ f ∈ fs, f.WF)
    (hside : (∀ m ∈ fs, m.IsMinimal) ∨ ∃ cl, ∀ m ∈ fs, m.closed = cl) :
    aggregate F (fs.map (addConst k)) = (aggregate F fs).map (addConst k) := by
  apply a18c_aggregate_transfer F F (fun v => vadd v (some k)) (fs.map (map fun v => vadd v (some k))) fs
    (a18c_wf_map_members _ fs hfs) hfs
    (a18c_side_map _ fs (hside.imp (fun h => ⟨a18c_addConst_injective k, h⟩) id)).symm
  intro x
  rw [a18c_den_map_members _ fs hfs, a18c_eval_translate F hF]

theorem max_addConst (k : Rat) (fs : List (Stairs P)) (hfs : ∀ f ∈ fs, f.WF)
    (hside : (∀ m ∈ fs, m.IsMinimal) ∨ ∃ cl, ∀ m ∈ fs, m.closed = cl) :
    aggregate .max (fs.map (addConst k)) = (aggregate .max fs).map (addConst k) :=
  aggregate_addConst .max (by simp) k fs hfs hside

/-- for the sum the constant is added `n` times -/
theorem sum_addConst (k : Rat) (fs : List (Stairs P)) (hfs : ∀ f ∈ fs, f.WF)
    (hside : (∀ m ∈ fs, m.IsMinimal) ∨ ∃ cl, ∀ m ∈ fs, m.closed = cl) :
    aggregate .sum (fs.map (addConst k)) = (aggregate .sum fs).map (addConst ((fs.length : Rat) * k)) := by
  apply a18c_aggregate_transfer .sum .sum (fun v => vadd v (some ((fs.length : Rat) * k)))
    (fs.map (map fun v => vadd v (some k))) fs
    (a18c_wf_map_members _ fs hfs) hfs
    (a18c_side_map _ fs (hside.imp (fun h => ⟨a18c_addConst_injective k, h⟩) id)).symm
  intro x
  rw [a18c_den_map_members _ fs hfs, a18c_eval_sum_translate, List.length_map]

/-- … so "`sum (fs + k) = sum fs + k`" is false (two members) -/
theorem sum_addConst_naive_false :
    aggregate .sum ([a₀, b₀].map (addConst 1)) ≠ (aggregate .sum [a₀, b₀]).map (addConst 1) := by decide +kernel

example : aggregate .max ([a₀, b₀, c₀].map (addConst 3)) = .ok ⟨some 8, [(6, none)], .left⟩ ∧
    aggregate .max [a₀, b₀, c₀] = .ok ⟨some 5, [(6, none)], .left⟩ ∧
    aggregate .median ([a₀, b₀, c₀].map (addConst 3)) = .ok ⟨some 4, [(1, some 5), (2, some 6), (6, none)], .left⟩ := by
  decide +kernel
example : aggregate .median ([a₀, b₀, c₀].map (addConst 3)) = (aggregate .median [a₀, b₀, c₀]).map (addConst 3) :=
  aggregate_addConst .median (by simp) 3 _ (by decide +kernel) (Or.inl (by decide +kernel))

/-! ### shift -/

/-- **C18c.2c  shifting the members shifts the aggregate** – every reduction, identical object, same error, no
hypothesis (this is `C20c.shift_aggregate`, re-exported: it already covers every `AggFn`) -/
theorem aggregate_shift {Q : Type} [LinearOrder Q] [AddCommGroup Q] [IsOrderedAddMonoid Q]
    (F : AggFn) (fs : List (Stairs Q)) (d : Q) :
    aggregate F (fs.map fun f => shift f d) = (aggregate F fs).map fun h => shift h d :=
  (C20c.shift_aggregate F fs d).symm

example : aggregate .sum ([a₀, b₀].map fun f => shift f 10) = .ok ⟨some 1, [(11, some 3), (12, some 5), (14, some 3), (16, none)], .left⟩ := by
  decide +kernel

/-! ### clip -/

/-- **C18c.2e  `clip` commutes with aggregation**: `(aggregate F fs).clip(a, b) = aggregate F [f.clip(a, b) …]`,
as objects, for a non-empty collection whose members share a closed side -/
theorem clip_aggregate (F : AggFn) (fs : List (Stairs P)) (hne : fs ≠ []) (hfs : ∀ f ∈ fs, f.WF) (cl : Side)
    (hcl : ∀ f ∈ fs, f.closed = cl) (lo hi : Option P) (hb : boundsOk lo hi = true) :
    (aggregate F fs >>= fun h => clip h lo hi) = aggregate F (fs.map (clipTo lo hi)) := by
  rw [aggregate_same_closed F fs cl hne hcl]
  show clip (canon (aggRaw F fs cl)) lo hi = _
  have hwf := wf_canon _ (wf_aggRaw F fs cl hfs)
  have e1 := clip_ok (canon (aggRaw F fs cl)) lo hi hb
  rw [e1]
  symm
  have hw' : ∀ m ∈ fs.map (clipTo lo hi), m.WF := by
    intro m hm
    obtain ⟨m₀, hm₀, rfl⟩ := List.mem_map.mp hm
    exact a18c_wf_clipTo lo hi hb m₀ (hfs m₀ hm₀)
  have hc' : closedOfMembers (fs.map (clipTo lo hi)) = .ok cl :=
    closedOfMembers_same _ cl (by simpa using hne) (by
      intro m hm
      obtain ⟨m₀, hm₀, rfl⟩ := List.mem_map.mp hm
      exact hcl m₀ hm₀)
  apply a18c_aggregate_eq_of_den F _ cl _ hw' hc'
    (canonical_combine _ _ _ _ hwf (wf_indicator lo hi _ hb)) rfl
  intro x
  refine Eq.trans (den_clip _ lo hi hwf hb _ e1 false x) ?_
  rw [den_canon _ (wf_aggRaw F fs cl hfs), den_aggRaw F fs cl hfs]
  have hmem : (fs.map (clipTo lo hi)).map (fun m => Den m false x)
      = (fs.map fun m => Den m false x).map fun v => if inWindow false lo hi x then v else none := by
    rw [List.map_map, List.map_map]
    apply List.map_congr_left
    intro m hm
    exact a18c_den_clipTo lo hi hb m (hfs m hm) false x
  rw [hmem, a18c_eval_window F _ (by simpa using hne)]

/-- the checked form, error case included: for out-of-order bounds both sides raise the `ValueError` -/
theorem clip_aggregate_checked (F : AggFn) (fs : List (Stairs P)) (hne : fs ≠ []) (hfs : ∀ f ∈ fs, f.WF) (cl : Side)
    (hcl : ∀ f ∈ fs, f.closed = cl) (lo hi : Option P) :
    (aggregate F fs >>= fun h => clip h lo hi) = (fs.mapM (fun f => clip f lo hi) >>= aggregate F) := by
  rw [mapM_clip]
  cases hb : boundsOk lo hi with
  | true =>
    rw [clip_aggregate F fs hne hfs cl hcl lo hi hb]
    simp
    rfl
  | false =>
    rw [aggregate_same_closed F fs cl hne hcl]
    show clip _ lo hi = _
    rw [clip_error _ lo hi hb]
    simp [hne]
    rfl

/-- **refutation**: without a common closed side the law fails – a step-free member acquires steps (and a say
about the closed side) when clipped -/
theorem clip_aggregate_needs_side :
    (aggregate .sum [c₀, a₀] >>= fun h => clip h (some 0) (some 5))
      = .ok ⟨none, [(0, some 5), (1, some 7), (4, some 5), (5, none)], .left⟩ ∧
    aggregate .sum ([c₀, a₀].map (clipTo (some 0) (some 5))) = .error .closedMismatch := by decide +kernel

/-- for the empty collection, too: the empty sum is 0 everywhere, also outside the window -/
theorem clip_aggregate_needs_nonempty :
    (aggregate .sum ([] : List (Stairs Int)) >>= fun h => clip h (some 0) (some 5))
      ≠ aggregate .sum (([] : List (Stairs Int)).map (clipTo (some 0) (some 5))) := by decide +kernel

example : (aggregate .median [a₀, b₀, d₀] >>= fun h => clip h (some 2) (some 5))
      = .ok ⟨none, [(3, some 2), (4, some 0), (5, none)], .left⟩ ∧
    aggregate .median ([a₀, b₀, d₀].map (clipTo (some 2) (some 5)))
      = .ok ⟨none, [(3, some 2), (4, some 0), (5, none)], .left⟩ := by decide +kernel
example : (aggregate .median [a₀, b₀, d₀] >>= fun h => clip h (some 2) (some 5)) =
    ([a₀, b₀, d₀].mapM (fun f => clip f (some 2) (some 5)) >>= aggregate .median) :=
  clip_aggregate_checked .median _ (by simp) (by decide +kernel) .left (by decide +kernel) _ _

end pointwise

/-! ## 3. undefinedness -/
section undefined

/-- **C18c.3a  masking ONE member masks the aggregate** (values, both limits, no side condition): where the
masker `g` is defined and zero the aggregate is unchanged, elsewhere it becomes undefined -/
theorem den_aggregate_mask_member (F : AggFn) (ms₁ ms₂ : List (Stairs P)) (m m' g h h' : Stairs P)
    (h₁ : ∀ f ∈ ms₁, f.WF) (h₂ : ∀ f ∈ ms₂, f.WF) (hm : m.WF) (hg : g.WF)
    (hmask : mask m g = .ok m') (hr : aggregate F (ms₁ ++ m :: ms₂) = .ok h)
    (hr' : aggregate F (ms₁ ++ m' :: ms₂) = .ok h') (st : Bool) (x : P) :
    Den h' st x = maskOp (Den h st x) (Den g st x) := by
  obtain ⟨hc', _, hd'⟩ := combineChecked_ok maskOp m g m' hm hg hmask
  have hw : ∀ f ∈ ms₁ ++ m :: ms₂, f.WF := by
    intro f hf
    rcases List.mem_append.mp hf with e | e
    · exact h₁ f e
    · rcases List.mem_cons.mp e with e | e
      · rw [e]; exact hm
      · exact h₂ f e
  have hw' : ∀ f ∈ ms₁ ++ m' :: ms₂, f.WF := by
    intro f hf
    rcases List.mem_append.mp hf with e | e
    · exact h₁ f e
    · rcases List.mem_cons.mp e with e | e
      · rw [e]; exact hc'.1
      · exact h₂ f e
  rw [(den_aggregate F _ h hw hr).2 st x, (den_aggregate F _ h' hw' hr').2 st x]
  simp only [List.map_append, List.map_cons, hd' st x]
  exact a18c_eval_mask_member F _ _ _ _

/-- in particular: where the masked member is undefined, so is the aggregate -/
theorem aggregate_undefined_of_member (F : AggFn) (ms : List (Stairs P)) (hms : ∀ m ∈ ms, m.WF) (h : Stairs P)
    (hr : aggregate F ms = .ok h) (m : Stairs P) (hm : m ∈ ms) (st : Bool) (x : P)
    (hx : Den m st x = none) : Den h st x = none := by
  rw [(den_aggregate F ms h hms hr).2 st x]
  exact eval_none_of_mem F _ (List.mem_map.mpr ⟨m, hm, hx⟩)

variable [NoMinOrder P] [Nonempty P]

/-- as objects, for members and masker sharing a closed side: masking one member = masking the aggregate -/
theorem aggregate_mask_member (F : AggFn) (ms₁ ms₂ : List (Stairs P)) (m g : Stairs P) (cl : Side)
    (h₁ : ∀ f ∈ ms₁, f.WF ∧ f.closed = cl) (h₂ : ∀ f ∈ ms₂, f.WF ∧ f.closed = cl)
    (hm : m.WF ∧ m.closed = cl) (hg : g.WF ∧ g.closed = cl) :
    aggregate F (ms₁ ++ combine maskOp m g cl :: ms₂) = (aggregate F (ms₁ ++ m :: ms₂) >>= fun h => mask h g) := by
  have hw : ∀ f ∈ ms₁ ++ m :: ms₂, f.WF ∧ f.closed = cl := by
    intro f hf
    rcases List.mem_append.mp hf with e | e
    · exact h₁ f e
    · rcases List.mem_cons.mp e with e | e
      · rw [e]; exact hm
      · exact h₂ f e
  have hw' : ∀ f ∈ ms₁ ++ combine maskOp m g cl :: ms₂, f.WF ∧ f.closed = cl := by
    intro f hf
    rcases List.mem_append.mp hf with e | e
    · exact h₁ f e
    · rcases List.mem_cons.mp e with e | e
      · rw [e]; exact ⟨wf_combine _ _ _ _ hm.1 hg.1, rfl⟩
      · exact h₂ f e
  rw [aggregate_same_closed F (ms₁ ++ m :: ms₂) cl (by simp) (fun f hf => (hw f hf).2)]
  show _ = combineChecked maskOp (canon (aggRaw F (ms₁ ++ m :: ms₂) cl)) g
  have hwf := wf_aggRaw F (ms₁ ++ m :: ms₂) cl (fun f hf => (hw f hf).1)
  rw [combineChecked_total _ _ _ (not_mismatch_of_closed_eq _ g hg.2.symm),
    s20c_sideOf_of_closed_eq _ g hg.2.symm]
  apply a18c_aggregate_eq_of_den F _ cl _ (fun f hf => (hw' f hf).1)
    (closedOfMembers_same _ cl (by simp) (fun f hf => (hw' f hf).2))
    (canonical_combine _ _ _ _ (wf_canon _ hwf) hg.1) rfl
  intro x
  rw [den_combine _ _ _ _ (wf_canon _ hwf) hg.1, den_canon _ hwf,
    den_aggRaw F _ cl (fun f hf => (hw f hf).1)]
  simp only [List.map_append, List.map_cons, den_combine maskOp m g cl hm.1 hg.1]
  exact (a18c_eval_mask_member F _ _ _ _).symm

/-- **C18c.3b  an everywhere-undefined member makes the aggregate the everywhere-undefined function** (with the
collection's closed side; the only other outcome is the closed mismatch) -/
theorem aggregate_undefined_member (F : AggFn) (ms₁ ms₂ : List (Stairs P)) (f : Stairs P)
    (h₁ : ∀ m ∈ ms₁, m.WF) (h₂ : ∀ m ∈ ms₂, m.WF) (hf : f.WF) (hu : ∀ x, Den f false x = none) :
    aggregate F (ms₁ ++ f :: ms₂) = (closedOfMembers (ms₁ ++ f :: ms₂)).map fun cl => const none cl := by
  have hw : ∀ m ∈ ms₁ ++ f :: ms₂, m.WF := by
    intro m hm
    rcases List.mem_append.mp hm with e | e
    · exact h₁ m e
    · rcases List.mem_cons.mp e with e | e
      · rw [e]; exact hf
      · exact h₂ m e
  cases hc : closedOfMembers (ms₁ ++ f :: ms₂) with
  | error e => rw [aggregate_eq, hc]; rfl
  | ok cl =>
    show _ = Except.ok _
    apply a18c_aggregate_eq_of_den F _ cl _ hw hc (canonical_const none cl) rfl
    intro x
    rw [den_const]
    exact (eval_none_of_mem F _ (List.mem_map.mpr ⟨f, by simp, hu x⟩)).symm

/-- the constant "undefined" as a member -/
theorem aggregate_const_none_member (F : AggFn) (ms : List (Stairs P)) (hms : ∀ m ∈ ms, m.WF) (cl' : Side) :
    aggregate F (const none cl' :: ms) = (closedOfMembers (const none cl' :: ms)).map fun cl => const none cl :=
  aggregate_undefined_member F [] ms (const none cl') (by simp) hms (wf_const _ _) (fun _ => rfl)

end undefined

example : mask b₀ a₀ = .ok ⟨some 1, [(1, none), (4, some 3), (6, none)], .left⟩ ∧
    aggregate .max [e₀, b₀, s₁] = .ok ⟨some 2, [(1, some 3), (6, none)], .left⟩ ∧
    aggregate .max [e₀, ⟨some 1, [(1, none), (4, some 3), (6, none)], .left⟩, s₁]
      = .ok ⟨some 2, [(1, none), (4, some 3), (6, none)], .left⟩ ∧
    mask ⟨some 2, [(1, some 3), (6, none)], .left⟩ a₀ = .ok ⟨some 2, [(1, none), (4, some 3), (6, none)], .left⟩ := by
  decide +kernel
example : aggregate .max ([e₀] ++ combine maskOp b₀ a₀ .left :: [s₁]) = (aggregate .max ([e₀] ++ b₀ :: [s₁]) >>= fun h => mask h a₀) :=
  aggregate_mask_member .max [e₀] [s₁] b₀ a₀ .left (by decide +kernel) (by decide +kernel) (by decide +kernel)
    (by decide +kernel)
example : aggregate .logicalOr ([a₀] ++ ⟨none, [], .right⟩ :: [b₀])
    = (closedOfMembers ([a₀] ++ ⟨none, [], .right⟩ :: [b₀])).map fun cl => const none cl :=
  aggregate_undefined_member .logicalOr [a₀] [b₀] ⟨none, [], .right⟩ (by decide +kernel) (by decide +kernel)
    (by decide +kernel) (fun _ => rfl)
example : ∀ st x, Den (⟨some 2, [(1, none), (4, some 3), (6, none)], .left⟩ : Stairs Int) st x
    = maskOp (Den (⟨some 2, [(1, some 3), (6, none)], .left⟩ : Stairs Int) st x) (Den a₀ st x) :=
  den_aggregate_mask_member .max [e₀] [s₁] b₀ _ a₀ _ _ (by decide +kernel) (by decide +kernel) (by decide +kernel)
    (by decide +kernel) (by decide +kernel : mask b₀ a₀ = .ok ⟨some 1, [(1, none), (4, some 3), (6, none)], .left⟩)
    (by decide +kernel) (by decide +kernel)
example : aggregate .logicalOr [a₀, ⟨none, [], .right⟩, b₀] = .ok ⟨none, [], .left⟩ ∧
    aggregate .sum [⟨none, [], .right⟩, c₀] = .ok ⟨none, [], .right⟩ := by decide +kernel

/-! ### the logical aggregations follow the same rule; the "all members undefined" variant -/
section logical

/-- **C18c.3c  `logical_or` / `logical_and` are undefined exactly where SOME member is undefined**, and 0 or 1
elsewhere -/
theorem logical_undefined_iff (F : AggFn) (hF : F = .logicalOr ∨ F = .logicalAnd) (ms : List (Stairs P))
    (hms : ∀ m ∈ ms, m.WF) (h : Stairs P) (hr : aggregate F ms = .ok h) (st : Bool) (x : P) :
    (Den h st x = none ↔ ∃ m ∈ ms, Den m st x = none) ∧
    (Den h st x = none ∨ Den h st x = some 0 ∨ Den h st x = some 1) := by
  rw [(den_aggregate F ms h hms hr).2 st x]
  constructor
  · constructor
    · intro he
      unfold AggFn.eval at he
      cases had : allDefined (ms.map fun m => Den m st x) with
      | none =>
        have := (allDefined_eq_none_iff _).mp had
        obtain ⟨m, hm, e⟩ := List.mem_map.mp this
        exact ⟨m, hm, e⟩
      | some xs => rw [had] at he; rcases hF with e | e <;> subst e <;> simp at he
    · rintro ⟨m, hm, e⟩
      exact eval_none_of_mem F _ (List.mem_map.mpr ⟨m, hm, e⟩)
  · unfold AggFn.eval
    cases allDefined (ms.map fun m => Den m st x) with
    | none => exact Or.inl rfl
    | some xs =>
      right
      rcases hF with e | e <;> subst e <;> simp only [b2r]
      · cases xs.any truth <;> simp
      · cases xs.all truth <;> simp

/-- the DEFECTIVE reduction (a seeded defect of the library): the logical reductions are undefined only where
ALL member values are undefined; an undefined value otherwise counts as "true" (NaN is truthy) -/
def evalAllUndef (F : AggFn) (vs : List Val) : Val :=
  match F with
  | .logicalAnd =>
    if vs.all (·.isNone) then none
    else some (b2r (vs.all fun v => match v with | none => true | some q => truth q))
  | .logicalOr =>
    if vs.all (·.isNone) then none
    else some (b2r (vs.any fun v => match v with | none => true | some q => truth q))
  | F => F.eval vs

/-- `aggregate` with the defective reduction -/
def aggregateAllUndef (F : AggFn) (ms : List (Stairs P)) : Except Err (Stairs P) := do
  let cl ← closedOfMembers ms
  let idx := unionAll (ms.map (·.idx))
  pure (canon ⟨evalAllUndef F (ms.map (·.init)),
    idx.map (fun p => (p, evalAllUndef F (ms.map fun m => lim false m.init m.steps p))), cl⟩)

/-- the defect is invisible on collections whose members are defined everywhere … -/
theorem evalAllUndef_defined (F : AggFn) (xs : List Rat) (hne : xs ≠ []) :
    evalAllUndef F (xs.map some) = F.eval (xs.map some) := by
  have hall : (xs.map some).all (·.isNone) = false := by
    cases xs with
    | nil => exact absurd rfl hne
    | cons a r => simp
  cases F <;> try rfl
  · simp only [evalAllUndef, hall, eval_map_some, List.any_map, Function.comp_def]
    simp
  · simp only [evalAllUndef, hall, eval_map_some, List.all_map, Function.comp_def]
    simp

/-- … and where all members are undefined -/
theorem evalAllUndef_all_none (F : AggFn) (vs : List Val) (hne : vs ≠ []) (h : ∀ v ∈ vs, v = none) :
    evalAllUndef F vs = F.eval vs := by
  have hmem : none ∈ vs := by
    cases vs with
    | nil => exact absurd rfl hne
    | cons a r => rw [h a (by simp)]; simp
  have hall : vs.all (·.isNone) = true := by
    rw [List.all_eq_true]; intro v hv; rw [h v hv]; rfl
  rw [eval_none_of_mem F vs hmem]
  cases F <;> simp [evalAllUndef, hall] <;> exact eval_none_of_mem _ vs hmem

/-- **refutation of the defective rule**: on a collection with a partly undefined member the variant differs
from `aggregate`, and violates the domain rule `C18.aggregate_undefined_iff` – at `x = 2` the member `d₀` is
undefined but the variant's `logical_and` is defined -/
theorem aggregateAllUndef_refuted :
    aggregate .logicalAnd [a₀, d₀] = .ok ⟨none, [(3, some 1), (4, some 0)], .left⟩ ∧
    aggregateAllUndef .logicalAnd [a₀, d₀] = .ok ⟨some 0, [(1, some 1), (4, some 0)], .left⟩ ∧
    aggregateAllUndef .logicalAnd [a₀, d₀] ≠ aggregate .logicalAnd [a₀, d₀] ∧
    Den d₀ false 2 = none ∧
    Den (⟨some 0, [(1, some 1), (4, some 0)], .left⟩ : Stairs Int) false 2 = some 1 := by decide +kernel

/-- the variant does not satisfy "undefined iff some member is undefined" -/
theorem aggregateAllUndef_violates_domain_rule :
    ¬ ∀ (ms : List (Stairs Int)) (h : Stairs Int), (∀ m ∈ ms, m.WF) → ms ≠ [] →
        aggregateAllUndef .logicalAnd ms = .ok h → ∀ x, (Den h false x = none ↔ ∃ m ∈ ms, Den m false x = none) := by
  intro hall
  have := (hall [a₀, d₀] ⟨some 0, [(1, some 1), (4, some 0)], .left⟩ (by decide +kernel) (by simp)
    (by decide +kernel) 2).mpr ⟨d₀, by simp, by decide +kernel⟩
  revert this
  decide +kernel

example : aggregate .logicalOr [a₀, d₀] = .ok ⟨none, [(3, some 1)], .left⟩ ∧
    aggregateAllUndef .logicalOr [a₀, d₀] = .ok ⟨some 1, [], .left⟩ ∧
    aggregateAllUndef .logicalAnd [a₀, e₀] = aggregate .logicalAnd [a₀, e₀] := by decide +kernel

end logical

/-! ## 4. closed side and errors -/
section closed

/-- two members WITH steps whose closed sides differ -/
def Clash (ms : List (Stairs P)) : Prop :=
  ∃ m ∈ ms, ∃ m' ∈ ms, m.hasSteps = true ∧ m'.hasSteps = true ∧ m.closed ≠ m'.closed

/-- the closed side of the first member (`left` for an empty collection) -/
def headClosed (ms : List (Stairs P)) : Side :=
  match ms with
  | [] => .left
  | m :: _ => m.closed

/-- **C18c.4a  the aggregate raises iff two members with steps have different closed sides**; the error is
always the closed mismatch, for every reduction -/
theorem aggregate_error_iff (F : AggFn) (ms : List (Stairs P)) (e : Err) :
    aggregate F ms = .error e ↔ e = .closedMismatch ∧ Clash ms := by
  show _ ↔ e = .closedMismatch ∧ a18c_Clash ms
  rw [aggregate_eq, ← a18c_closedOfMembers_error_iff ms e]
  cases closedOfMembers ms with
  | ok cl => constructor <;> intro h <;> cases h
  | error e' =>
    constructor
    · intro h; injection h with h; rw [h]
    · intro h; injection h with h; rw [h]; rfl

theorem aggregate_ok_iff (F : AggFn) (ms : List (Stairs P)) : (∃ h, aggregate F ms = .ok h) ↔ ¬ Clash ms := by
  constructor
  · rintro ⟨h, hr⟩ hcl
    have := (aggregate_error_iff F ms .closedMismatch).mpr ⟨rfl, hcl⟩
    rw [hr] at this; cases this
  · intro hn
    cases hr : aggregate F ms with
    | ok h => exact ⟨h, rfl⟩
    | error e => exact absurd ((aggregate_error_iff F ms e).mp hr).2 hn

/-- whether (and how) it raises does not depend on the reduction -/
theorem aggregate_error_indep (F G : AggFn) (ms : List (Stairs P)) (e : Err) :
    aggregate F ms = .error e ↔ aggregate G ms = .error e := by
  rw [aggregate_error_iff, aggregate_error_iff]

/-- **C18c.4c  the closed side of the result**: that of every member with steps; the first member's when no
member has steps – and this characterises it -/
theorem aggregate_closed (F : AggFn) (ms : List (Stairs P)) (h : Stairs P) (hr : aggregate F ms = .ok h) :
    (∀ m ∈ ms, m.hasSteps = true → m.closed = h.closed) ∧
    ((∀ m ∈ ms, m.hasSteps = false) → h.closed = headClosed ms) :=
  (a18c_closedOfMembers_ok_iff ms h.closed).mp (C18b.a18b_closed_of_aggregate F ms h hr)

theorem closedOfMembers_ok_iff (ms : List (Stairs P)) (cl : Side) :
    closedOfMembers ms = .ok cl ↔
      (∀ m ∈ ms, m.hasSteps = true → m.closed = cl) ∧ ((∀ m ∈ ms, m.hasSteps = false) → cl = headClosed ms) :=
  a18c_closedOfMembers_ok_iff ms cl

/-- **C18c.4b  step-free members never matter for the error**: dropping all of them … -/
theorem aggregate_error_filter (F : AggFn) (ms : List (Stairs P)) (e : Err) :
    aggregate F ms = .error e ↔ aggregate F (ms.filter (·.hasSteps)) = .error e := by
  rw [aggregate_error_iff, aggregate_error_iff]
  constructor
  · rintro ⟨he, m, hm, m', hm', h1, h2, h3⟩
    exact ⟨he, m, List.mem_filter.mpr ⟨hm, h1⟩, m', List.mem_filter.mpr ⟨hm', h2⟩, h1, h2, h3⟩
  · rintro ⟨he, m, hm, m', hm', h1, h2, h3⟩
    exact ⟨he, m, (List.mem_filter.mp hm).1, m', (List.mem_filter.mp hm').1, h1, h2, h3⟩

/-- … or inserting one anywhere does not change whether the aggregate raises -/
theorem aggregate_error_insert_stepfree (F : AggFn) (ms₁ ms₂ : List (Stairs P)) (c : Stairs P)
    (hc : c.hasSteps = false) (e : Err) :
    aggregate F (ms₁ ++ c :: ms₂) = .error e ↔ aggregate F (ms₁ ++ ms₂) = .error e := by
  rw [aggregate_error_filter F (ms₁ ++ c :: ms₂), aggregate_error_filter F (ms₁ ++ ms₂)]
  simp [List.filter_append, hc]

/-- a step-free member inserted into a collection that has a member with steps does not change the closed side
either (inserted in front of a collection WITHOUT steps it decides the side: `C18b.aggregate_perm_unrestricted_false`) -/
theorem closedOfMembers_insert_stepfree (ms₁ ms₂ : List (Stairs P)) (c : Stairs P) (hc : c.hasSteps = false)
    (hs : ∃ m ∈ ms₁ ++ ms₂, m.hasSteps = true) :
    closedOfMembers (ms₁ ++ c :: ms₂) = closedOfMembers (ms₁ ++ ms₂) := by
  obtain ⟨m₀, hm₀, hs₀⟩ := hs
  have hmem : ∀ m, m ∈ ms₁ ++ c :: ms₂ ↔ m = c ∨ m ∈ ms₁ ++ ms₂ := by
    intro m; simp only [List.mem_append, List.mem_cons]; tauto
  have hok : ∀ cl, closedOfMembers (ms₁ ++ c :: ms₂) = .ok cl ↔ closedOfMembers (ms₁ ++ ms₂) = .ok cl := by
    intro cl
    rw [a18c_closedOfMembers_ok_iff, a18c_closedOfMembers_ok_iff]
    constructor
    · rintro ⟨h1, _⟩
      refine ⟨fun m hm hms => h1 m ((hmem m).mpr (Or.inr hm)) hms, fun hno => ?_⟩
      rw [hno m₀ hm₀] at hs₀; cases hs₀
    · rintro ⟨h1, _⟩
      refine ⟨fun m hm hms => ?_, fun hno => ?_⟩
      · rcases (hmem m).mp hm with e | e
        · rw [e, hc] at hms; cases hms
        · exact h1 m e hms
      · rw [hno m₀ ((hmem m₀).mpr (Or.inr hm₀))] at hs₀; cases hs₀
  cases h : closedOfMembers (ms₁ ++ c :: ms₂) with
  | ok cl => exact ((hok cl).mp h).symm
  | error e =>
    cases h' : closedOfMembers (ms₁ ++ ms₂) with
    | ok cl' => rw [(hok cl').mpr h'] at h; cases h
    | error e' =>
      rw [((a18c_closedOfMembers_error_iff _ e).mp h).1, ((a18c_closedOfMembers_error_iff _ e').mp h').1]

example : Clash [a₀, c₀, g₀] ∧ ¬ Clash [a₀, c₀, b₀] := by
  constructor
  · exact ⟨a₀, by simp, g₀, by simp, by decide +kernel⟩
  · rintro ⟨m, hm, m', hm', h1, h2, h3⟩
    simp only [List.mem_cons, List.not_mem_nil, or_false] at hm hm'
    rcases hm with rfl | rfl | rfl <;> rcases hm' with rfl | rfl | rfl <;> revert h1 h2 h3 <;> decide +kernel
example : aggregate .median [a₀, c₀, g₀] = .error .closedMismatch ∧ aggregate .sum [c₀, g₀, c₀] = .ok ⟨some 10, [(2, some 17)], .right⟩ ∧
    aggregate .sum [c₀, a₀] = .ok ⟨some 5, [(1, some 7), (4, some 5)], .left⟩ ∧
    aggregate .min [c₀, ⟨some 1, [], .left⟩] = .ok ⟨some 1, [], .right⟩ := by decide +kernel

end closed

/-! ## 5. sample / limit tables -/
section tables

/-- `StairsArray.sample(xs)`: one row per member, each member sampled on ITS OWN closed side -/
def sampleTable (ms : List (Stairs P)) (xs : List P) : List (List Val) := ms.map fun f => xs.map (sample f)

/-- `StairsArray.limit(xs, side)` -/
def limitTable (side : Side) (ms : List (Stairs P)) (xs : List P) : List (List Val) :=
  ms.map fun f => xs.map (f.limit side)

/-- the DEFECTIVE table (a seeded defect): every row is sampled on the FIRST member's closed side -/
def sampleTableFirst (ms : List (Stairs P)) (xs : List P) : List (List Val) :=
  match ms with
  | [] => []
  | m :: _ => limitTable (sampleSide m.closed) ms xs

/-- **C18c.5a  row `i` is member `i` sampled on the points** – nothing else enters -/
theorem sampleTable_row (ms : List (Stairs P)) (xs : List P) (i : Nat) :
    (sampleTable ms xs)[i]? = ms[i]?.map fun f => xs.map (sample f) := by
  unfold sampleTable; rw [List.getElem?_map]

/-- … so it is independent of the other members -/
theorem sampleTable_row_indep (ms ms' : List (Stairs P)) (xs : List P) (i : Nat) (h : ms[i]? = ms'[i]?) :
    (sampleTable ms xs)[i]? = (sampleTable ms' xs)[i]? := by
  rw [sampleTable_row, sampleTable_row, h]

theorem sampleTable_row_at (ms₁ ms₂ ms₁' ms₂' : List (Stairs P)) (f : Stairs P) (xs : List P)
    (hl : ms₁.length = ms₁'.length) :
    (sampleTable (ms₁ ++ f :: ms₂) xs)[ms₁.length]? = some (xs.map (sample f)) ∧
    (sampleTable (ms₁' ++ f :: ms₂') xs)[ms₁.length]? = some (xs.map (sample f)) := by
  constructor
  · rw [sampleTable_row]; simp
  · rw [sampleTable_row, hl]; simp

/-- every entry: member `i` at point `j` -/
theorem sampleTable_entry (ms : List (Stairs P)) (xs : List P) (i j : Nat) :
    ((sampleTable ms xs)[i]?.bind fun row => row[j]?) = ms[i]?.bind fun f => xs[j]?.map (sample f) := by
  rw [sampleTable_row]
  cases ms[i]? with
  | none => rfl
  | some f => simp

/-- the shape: one row per member, one column per point – in particular the table exists for ANY collection,
also one whose members are closed on different sides (no `closedMismatch`) -/
theorem sampleTable_shape (ms : List (Stairs P)) (xs : List P) :
    (sampleTable ms xs).length = ms.length ∧ ∀ row ∈ sampleTable ms xs, row.length = xs.length := by
  refine ⟨by simp [sampleTable], ?_⟩
  intro row hrow
  obtain ⟨f, _, rfl⟩ := List.mem_map.mp hrow
  simp

theorem sampleTable_append_members (ms ns : List (Stairs P)) (xs : List P) :
    sampleTable (ms ++ ns) xs = sampleTable ms xs ++ sampleTable ns xs := by
  simp [sampleTable]

/-- **C18c.5b  the points may come in any order and with duplicates**: the table of re-arranged points is the
re-arranged table – for every re-arrangement `ρ` of lists that commutes with `map` (selection by positions,
permutation, duplication, reversal …) -/
theorem sampleTable_rearrange (ρ : ∀ {α : Type}, List α → List α)
    (hρ : ∀ {α β : Type} (g : α → β) (l : List α), ρ (l.map g) = (ρ l).map g)
    (ms : List (Stairs P)) (xs : List P) :
    sampleTable ms (ρ xs) = (sampleTable ms xs).map fun row => ρ row := by
  simp only [sampleTable, List.map_map, Function.comp_def, hρ]

theorem sampleTable_reverse (ms : List (Stairs P)) (xs : List P) :
    sampleTable ms xs.reverse = (sampleTable ms xs).map List.reverse :=
  sampleTable_rearrange (fun l => l.reverse) (fun g l => (List.map_reverse).symm) ms xs

theorem sampleTable_append_points (ms : List (Stairs P)) (xs ys : List P) :
    sampleTable ms (xs ++ ys) = List.zipWith (· ++ ·) (sampleTable ms xs) (sampleTable ms ys) := by
  induction ms with
  | nil => rfl
  | cons f r ih =>
    simp only [sampleTable, List.map_cons, List.map_append, List.zipWith_cons_cons] at ih ⊢
    rw [ih]

/-- a duplicated point gives a duplicated column -/
theorem sampleTable_dup (ms : List (Stairs P)) (x : P) (xs : List P) :
    sampleTable ms (x :: x :: xs) = (sampleTable ms (x :: xs)).map fun row => row.head?.toList ++ row := by
  simp [sampleTable]

/-- a permutation of the points permutes every row the same way -/
theorem sampleTable_perm (ms : List (Stairs P)) (xs ys : List P) (hp : xs.Perm ys) :
    List.Forall₂ List.Perm (sampleTable ms xs) (sampleTable ms ys) := by
  induction ms with
  | nil => exact List.Forall₂.nil
  | cons f r ih => exact List.Forall₂.cons (hp.map _) ih

/-- selecting points by (arbitrary, possibly repeated, unordered) positions -/
theorem sampleTable_select (ms : List (Stairs P)) (xs : List P) (js : List Nat) :
    sampleTable ms (js.filterMap fun j => xs[j]?) = (sampleTable ms xs).map fun row => js.filterMap fun j => row[j]? := by
  simp only [sampleTable, List.map_map, Function.comp_def, List.map_filterMap, List.getElem?_map]

/-- the limit table has the same properties (row `i` = member `i`) -/
theorem limitTable_row (side : Side) (ms : List (Stairs P)) (xs : List P) (i : Nat) :
    (limitTable side ms xs)[i]? = ms[i]?.map fun f => xs.map (f.limit side) := by
  unfold limitTable; rw [List.getElem?_map]

/-- rows of members closed like the first one (and of step-free members) are right in the defective table … -/
theorem sampleTableFirst_row_ok (m : Stairs P) (ms : List (Stairs P)) (xs : List P) (i : Nat) (f : Stairs P)
    (hf : (m :: ms)[i]? = some f) (hcl : f.closed = m.closed ∨ f.hasSteps = false) :
    (sampleTableFirst (m :: ms) xs)[i]? = (sampleTable (m :: ms) xs)[i]? := by
  unfold sampleTableFirst
  rw [limitTable_row, sampleTable_row, hf]
  simp only [Option.map_some, Option.some.injEq]
  apply List.map_congr_left
  intro x _
  rcases hcl with e | e
  · unfold sample; rw [e]
  · have hs : f.steps = [] := by
      unfold hasSteps at e
      cases hst : f.steps with
      | nil => rfl
      | cons a r => rw [hst] at e; simp at e
    unfold sample limit
    rw [hs]; rfl

/-- … hence the whole table, for members sharing a closed side -/
theorem sampleTableFirst_eq_of_same_closed (ms : List (Stairs P)) (xs : List P) (cl : Side)
    (hcl : ∀ m ∈ ms, m.closed = cl) : sampleTableFirst ms xs = sampleTable ms xs := by
  cases ms with
  | nil => rfl
  | cons m r =>
    apply List.ext_getElem?
    intro i
    cases hf : (m :: r)[i]? with
    | none =>
      have h1 : (sampleTableFirst (m :: r) xs)[i]? = none := by
        unfold sampleTableFirst; rw [limitTable_row, hf]; rfl
      rw [h1, sampleTable_row, hf]; rfl
    | some f =>
      exact sampleTableFirst_row_ok m r xs i f hf
        (Or.inl ((hcl f (List.mem_of_getElem? hf)).trans (hcl m (by simp)).symm))

/-- **C18c.5c  refutation of the defective table** on a mixed-side collection: at its step point `2` the
right-closed member `g₀` still has its old value 0, the variant reports the new value 7 -/
theorem sampleTableFirst_refuted :
    sampleTable [a₀, g₀] [1, 2, 3] = [[some 2, some 2, some 2], [some 0, some 0, some 7]] ∧
    sampleTableFirst [a₀, g₀] [1, 2, 3] = [[some 2, some 2, some 2], [some 0, some 7, some 7]] ∧
    sampleTableFirst [a₀, g₀] [1, 2, 3] ≠ sampleTable [a₀, g₀] [1, 2, 3] ∧
    aggregate .sum [a₀, g₀] = .error .closedMismatch := by decide +kernel

/-- **the aggregate's samples are the reduced columns of the sample table**: when the aggregate exists,
`h(x) = F (column of x)` although each member is sampled on its own side – members with steps share the result's
side, for step-free members the side is irrelevant -/
theorem aggregate_sample_eq_column (F : AggFn) (ms : List (Stairs P)) (hms : ∀ m ∈ ms, m.WF) (h : Stairs P)
    (hr : aggregate F ms = .ok h) (x : P) : h.sample x = F.eval (ms.map fun m => m.sample x) := by
  rw [sample_eq_den, (den_aggregate F ms h hms hr).2]
  congr 1
  apply List.map_congr_left
  intro m hm
  rw [sample_eq_den]
  cases hs : m.hasSteps with
  | true => rw [(aggregate_closed F ms h hr).1 m hm hs]
  | false =>
    have hst : m.steps = [] := by
      unfold hasSteps at hs
      cases hst : m.steps with
      | nil => rfl
      | cons a r => rw [hst] at hs; simp at hs
    unfold Den; rw [hst]; rfl

theorem aggregate_sample_table (F : AggFn) (ms : List (Stairs P)) (hms : ∀ m ∈ ms, m.WF) (h : Stairs P)
    (hr : aggregate F ms = .ok h) (x : P) :
    h.sample x = F.eval ((sampleTable ms [x]).map fun row => row.head?.join) := by
  rw [aggregate_sample_eq_column F ms hms h hr x]
  simp [sampleTable, Function.comp_def]

example : sampleTable [a₀, c₀, b₀, d₀] [4, 0, 4, 2] =
    [[some 0, some 0, some 0, some 2], [some 5, some 5, some 5, some 5], [some 3, some 1, some 3, some 3],
     [some (-1), none, some (-1), none]] ∧
    aggregate .sum [a₀, c₀, b₀, d₀] = .ok ⟨none, [(3, some 9), (4, some 7), (6, none)], .left⟩ ∧
    sample (⟨none, [(3, some 9), (4, some 7), (6, none)], .left⟩ : Stairs Int) 4 = some 7 := by decide +kernel
example : limitTable .left [a₀, g₀] [1, 2, 3] = [[some 0, some 2, some 2], [some 0, some 0, some 7]] := by
  decide +kernel

end tables

end SC.Props.C18c
