import SCModel.Lemmas.Layer2b
import SCModel.Props.C02
import SCModel.Props.C17b
/-!
# C02b — further laws of layering

`Props/C02` says what `layer` does pointwise (previous value + Σ contributions, on the receiver's domain),
that the order of the triples is irrelevant and that a triple and its negative cancel.  This file adds

1. **value linearity** – `(s,e,v)` then `(s,e,w)` is `(s,e,v+w)`; scaling all layered values by `k` commutes
   with multiplying the function by `k`; zero-valued layers are the identity on canonical receivers (and leave
   no redundant step points);
2. **interval splitting** – `(s,e,v)` = `(s,m,v)` & `(m,e,v)` for ANY `m` (no order hypothesis is needed),
   = `(s,∞,v)` & `(e,∞,−v)`; a reversed interval is NOT ignored: `(e,s,v)` acts as `(s,e,−v)`
   (refutation of "contributes nothing" + the corrected law);
3. **commutation** with `+`/`−` of another step function (with the closed-side proviso, which is necessary:
   refutation included), with negation and with `shift`;
4. **completeness** – every canonical everywhere-defined step function is `layer (const init) (raysOf f)`
   (one ray per step, value = the jump), also as intervals, and as bounded intervals when the function returns
   to its initial value; layering reaches exactly the everywhere-defined functions from a defined constant and
   nothing but itself from the undefined constant; any two everywhere-defined canonical functions with the
   same closed side are connected by one vector `layer` call;
5. **monotonicity** – layering non-negative values on forward intervals never decreases a value (false for
   reversed intervals: refutation included), non-positive values never increase it.

All object equalities need `[NoMinOrder P] [Nonempty P]` (uniqueness of canonical forms), like `C02.layer_perm`.
-/
set_option linter.unusedSectionVars false
namespace SC.Props.C02b
open SC SC.Stairs
variable {P : Type} [LinearOrder P]

/-! ## 0. the general principle: only the total contribution matters -/

/-- two triple lists with the same total contribution at a point give the same value there -/
theorem den_layer_congr (f : Stairs P) (ts us : List (Triple P)) (hf : f.WF) (st : Bool) (x : P)
    (h : contributions ts st x = contributions us st x) :
    Den (layer f ts) st x = Den (layer f us) st x := l2b_den_layer_congr f ts us hf st x h

/-- … and, when they agree everywhere, the very same object (non-empty lists, well-formed receiver) -/
theorem layer_congr [NoMinOrder P] [Nonempty P] (f : Stairs P) (ts us : List (Triple P)) (hf : f.WF)
    (hts : ts ≠ []) (hus : us ≠ []) (h : ∀ x, contributions ts false x = contributions us false x) :
    layer f ts = layer f us := l2b_layer_congr f ts us hf hts hus h

/-- … for arbitrary lists when the receiver is canonical -/
theorem layer_congr_canonical [NoMinOrder P] [Nonempty P] (f : Stairs P) (ts us : List (Triple P))
    (hf : f.Canonical) (h : ∀ x, contributions ts false x = contributions us false x) :
    layer f ts = layer f us := l2b_layer_congr_canonical f ts us hf h

/-! ## 1. value linearity -/

/-- layering `(s,e,v)` and then `(s,e,w)` is, at every point and for both limits, layering `(s,e,v+w)` -/
theorem layer_add_value_den (f : Stairs P) (s e : Option P) (v w : Rat) (hf : f.WF) (st : Bool) (x : P) :
    Den (layer f [⟨s, e, v⟩, ⟨s, e, w⟩]) st x = Den (layer f [⟨s, e, v + w⟩]) st x :=
  den_layer_congr f _ _ hf st x (by
    rw [l2b_contributions_pair, l2b_contributions_single, l2b_contribution_add_value])

/-- **value linearity, objects**: the two calls produce the very object the single call produces
(any well-formed receiver: both results are canonical) -/
theorem layer_add_value [NoMinOrder P] [Nonempty P] (f : Stairs P) (s e : Option P) (v w : Rat) (hf : f.WF) :
    layer f [⟨s, e, v⟩, ⟨s, e, w⟩] = layer f [⟨s, e, v + w⟩] :=
  layer_congr f _ _ hf (by simp) (by simp) (fun x => by
    rw [l2b_contributions_pair, l2b_contributions_single, l2b_contribution_add_value])

/-- all layered values multiplied by `k` -/
def scaleTriples (k : Rat) (ts : List (Triple P)) : List (Triple P) :=
  ts.map fun t => ⟨t.start, t.stop, k * t.value⟩

/-- the function multiplied by `k` (undefined stays undefined) -/
def vscale (k : Rat) (f : Stairs P) : Stairs P := map (fun a => a.map (k * ·)) f

theorem contributions_scale (k : Rat) (ts : List (Triple P)) (st : Bool) (x : P) :
    contributions (scaleTriples k ts) st x = k * contributions ts st x := by
  induction ts with
  | nil => simp [scaleTriples, contributions]
  | cons t r ih =>
    have : scaleTriples k (t :: r) = ⟨t.start, t.stop, k * t.value⟩ :: scaleTriples k r := rfl
    rw [this, contributions_cons, contributions_cons, ih, l2b_contribution_scale]
    ring

/-- scaling the layered values scales what is added -/
theorem den_layer_scaleTriples (k : Rat) (f : Stairs P) (ts : List (Triple P)) (hf : f.WF) (st : Bool) (x : P) :
    Den (layer f (scaleTriples k ts)) st x = (Den f st x).map (· + k * contributions ts st x) := by
  rw [l2b_den_layer f _ hf, contributions_scale]

theorem den_vscale (k : Rat) (f : Stairs P) (hf : f.WF) (st : Bool) (x : P) :
    Den (vscale k f) st x = (Den f st x).map (k * ·) := den_map _ f hf st x

theorem canonical_vscale (k : Rat) (f : Stairs P) (hf : f.WF) : (vscale k f).Canonical := canonical_map _ f hf

/-- `vscale k` is the library's `f * k` -/
theorem mul_const_eq_vscale [NoMinOrder P] [Nonempty P] (k : Rat) (f : Stairs P) (hf : f.WF) :
    binop .mul f (const (some k) f.closed) = .ok (vscale k f) := by
  unfold binop
  rw [combineChecked_total _ _ _ (not_mismatch_const_right f _ _)]
  congr 1
  refine canonical_ext _ _ (canonical_combine _ _ _ _ hf (wf_const _ _)) (canonical_vscale k f hf) ?_ (fun x => ?_)
  · simp only [closed_combine, vscale, closed_map, sideOf, hasSteps, const, List.isEmpty_nil]
    simp
  · rw [den_combine _ _ _ _ hf (wf_const _ _), den_vscale k f hf, den_const]
    cases Den f false x with
    | none => rfl
    | some a => simp [BinOp.eval, vmul, vlift2, mul_comm]

/-- `k·(f layered with ts)` = `(k·f)` layered with the scaled triples, pointwise … -/
theorem layer_scale_den (k : Rat) (f : Stairs P) (ts : List (Triple P)) (hf : f.WF) (st : Bool) (x : P) :
    Den (layer (vscale k f) (scaleTriples k ts)) st x = Den (vscale k (layer f ts)) st x := by
  rw [den_layer_scaleTriples k _ ts (canonical_vscale k f hf).1, den_vscale k f hf,
    den_vscale k _ (wf_layer f ts hf), l2b_den_layer f ts hf]
  cases Den f st x with
  | none => rfl
  | some a => simp only [Option.map_some]; congr 1; ring

/-- **scaling law, objects** (any well-formed receiver, any list, any factor – including 0 and negatives) -/
theorem layer_scale [NoMinOrder P] [Nonempty P] (k : Rat) (f : Stairs P) (ts : List (Triple P)) (hf : f.WF) :
    layer (vscale k f) (scaleTriples k ts) = vscale k (layer f ts) :=
  canonical_ext _ _ (canonical_layer_of_canonical _ _ (canonical_vscale k f hf))
    (canonical_vscale k _ (wf_layer f ts hf))
    (by simp [vscale]) (fun x => layer_scale_den k f ts hf false x)

/-- the same with the library's multiplication by a constant -/
theorem layer_scale_binop [NoMinOrder P] [Nonempty P] (k : Rat) (f : Stairs P) (ts : List (Triple P)) (hf : f.WF) :
    binop .mul (layer f ts) (const (some k) f.closed) = .ok (layer (vscale k f) (scaleTriples k ts)) := by
  have := mul_const_eq_vscale k (layer f ts) (wf_layer f ts hf)
  rw [closed_layer] at this
  rw [this, layer_scale k f ts hf]

/-- a zero-valued layer changes no value … -/
theorem layer_zero_den (f : Stairs P) (s e : Option P) (hf : f.WF) (st : Bool) (x : P) :
    Den (layer f [⟨s, e, 0⟩]) st x = Den f st x :=
  l2b_den_layer_zero f _ hf st x (by rw [l2b_contributions_single, l2b_contribution_zero])

/-- **… and returns a canonical receiver unchanged: no redundant step points at `s` or `e`** -/
theorem layer_zero [NoMinOrder P] [Nonempty P] (f : Stairs P) (s e : Option P) (hf : f.Canonical) :
    layer f [⟨s, e, 0⟩] = f :=
  l2b_layer_eq_self f _ hf (fun x => by rw [l2b_contributions_single, l2b_contribution_zero])

/-- a merely well-formed receiver is canonicalised -/
theorem layer_zero_canon [NoMinOrder P] [Nonempty P] (f : Stairs P) (s e : Option P) (hf : f.WF) :
    layer f [⟨s, e, 0⟩] = f.canon :=
  l2b_layer_eq_canon f _ hf (by simp) (fun x => by rw [l2b_contributions_single, l2b_contribution_zero])

/-- hence a zero layer is the identity exactly on the canonical receivers -/
theorem layer_zero_eq_iff [NoMinOrder P] [Nonempty P] (f : Stairs P) (s e : Option P) (hf : f.WF) :
    layer f [⟨s, e, 0⟩] = f ↔ f.Canonical :=
  ⟨fun h => h ▸ canonical_layer f _ hf (by simp), fun h => layer_zero f s e h⟩

theorem contributions_zero (ts : List (Triple P)) (h : ∀ t ∈ ts, t.value = 0) (st : Bool) (x : P) :
    contributions ts st x = 0 := by
  induction ts with
  | nil => rfl
  | cons t r ih =>
    rw [contributions_cons, ih (fun u hu => h u (List.mem_cons_of_mem _ hu))]
    obtain ⟨s, e, v⟩ := t
    have hv : v = 0 := h ⟨s, e, v⟩ (by simp)
    subst hv
    rw [l2b_contribution_zero]; ring

/-- any number of zero-valued layers is the identity on a canonical receiver -/
theorem layer_zeros [NoMinOrder P] [Nonempty P] (f : Stairs P) (ts : List (Triple P)) (hf : f.Canonical)
    (h : ∀ t ∈ ts, t.value = 0) : layer f ts = f :=
  l2b_layer_eq_self f ts hf (fun x => contributions_zero ts h false x)

/-- in particular the number of step points does not grow -/
theorem layer_zeros_numberOfSteps [NoMinOrder P] [Nonempty P] (f : Stairs P) (ts : List (Triple P))
    (hf : f.Canonical) (h : ∀ t ∈ ts, t.value = 0) : (layer f ts).numberOfSteps = f.numberOfSteps := by
  rw [layer_zeros f ts hf h]

/-! ## 2. interval splitting, rays, reversed intervals -/

/-- `(s,e,v)` = `(s,m,v)` together with `(m,e,v)`, pointwise, for ANY cut point `m` -/
theorem layer_split_den (f : Stairs P) (s e : Option P) (m : P) (v : Rat) (hf : f.WF) (st : Bool) (x : P) :
    Den (layer f [⟨s, e, v⟩]) st x = Den (layer f [⟨s, some m, v⟩, ⟨some m, e, v⟩]) st x :=
  den_layer_congr f _ _ hf st x (by
    rw [l2b_contributions_pair, l2b_contributions_single, ← l2b_contribution_split])

/-- **interval splitting, objects.**  No hypothesis `s ≤ m ≤ e` is needed: outside `[s,e)` the two pieces
overlap with opposite signs and cancel. -/
theorem layer_split [NoMinOrder P] [Nonempty P] (f : Stairs P) (s e : Option P) (m : P) (v : Rat) (hf : f.WF) :
    layer f [⟨s, e, v⟩] = layer f [⟨s, some m, v⟩, ⟨some m, e, v⟩] :=
  layer_congr f _ _ hf (by simp) (by simp) (fun x => by
    rw [l2b_contributions_pair, l2b_contributions_single, ← l2b_contribution_split])

/-- the textbook case `s ≤ m ≤ e` -/
theorem layer_split_between [NoMinOrder P] [Nonempty P] (f : Stairs P) (s m e : P) (v : Rat) (hf : f.WF)
    (_hsm : s ≤ m) (_hme : m ≤ e) :
    layer f [⟨some s, some e, v⟩] = layer f [⟨some s, some m, v⟩, ⟨some m, some e, v⟩] :=
  layer_split f (some s) (some e) m v hf

/-- `(s,e,v)` = `(s,∞,v)` together with `(e,∞,−v)` -/
theorem layer_rays_den (f : Stairs P) (s : Option P) (e : P) (v : Rat) (hf : f.WF) (st : Bool) (x : P) :
    Den (layer f [⟨s, some e, v⟩]) st x = Den (layer f [⟨s, none, v⟩, ⟨some e, none, -v⟩]) st x :=
  den_layer_congr f _ _ hf st x (by
    rw [l2b_contributions_pair, l2b_contributions_single, ← l2b_contribution_rays])

theorem layer_rays [NoMinOrder P] [Nonempty P] (f : Stairs P) (s : Option P) (e : P) (v : Rat) (hf : f.WF) :
    layer f [⟨s, some e, v⟩] = layer f [⟨s, none, v⟩, ⟨some e, none, -v⟩] :=
  layer_congr f _ _ hf (by simp) (by simp) (fun x => by
    rw [l2b_contributions_pair, l2b_contributions_single, ← l2b_contribution_rays])

/-- **reversed interval**: `(e,s,v)` acts exactly as `(s,e,−v)` … -/
theorem layer_reversed_den (f : Stairs P) (s e : P) (v : Rat) (hf : f.WF) (st : Bool) (x : P) :
    Den (layer f [⟨some e, some s, v⟩]) st x = Den (layer f [⟨some s, some e, -v⟩]) st x :=
  den_layer_congr f _ _ hf st x (by rw [l2b_contributions_single, l2b_contributions_single, l2b_contribution_swap])

/-- … as objects (no order hypothesis: the statement is symmetric in `s`, `e`) -/
theorem layer_reversed [NoMinOrder P] [Nonempty P] (f : Stairs P) (s e : P) (v : Rat) (hf : f.WF) :
    layer f [⟨some e, some s, v⟩] = layer f [⟨some s, some e, -v⟩] :=
  layer_congr f _ _ hf (by simp) (by simp) (fun x => by
    rw [l2b_contributions_single, l2b_contributions_single, l2b_contribution_swap])

/-- the value picture for `s < e`: `−v` on `[s, e)` -/
theorem layer_reversed_values (f : Stairs P) (s e : P) (v : Rat) (hf : f.WF) (hse : s < e) (x : P) :
    Den (layer f [⟨some e, some s, v⟩]) false x
      = (Den f false x).map (· + if s ≤ x ∧ x < e then -v else 0) := by
  rw [l2b_den_layer f _ hf, l2b_contributions_single, C02.contribution_reversed e s v x hse]

/-- an interval followed by the same interval reversed cancels exactly -/
theorem layer_reversed_cancel [NoMinOrder P] [Nonempty P] (f : Stairs P) (s e : P) (v : Rat)
    (hf : f.Canonical) : layer f [⟨some s, some e, v⟩, ⟨some e, some s, v⟩] = f :=
  l2b_layer_eq_self f _ hf (fun x => by
    rw [l2b_contributions_pair, l2b_contribution_swap, l2b_contribution_neg_value]; ring)

/-- **refutation of "a reversed interval contributes nothing"**: wherever the receiver is defined at the
smaller endpoint and the value is non-zero, the result differs from the receiver -/
theorem layer_reversed_ne (f : Stairs P) (s e : P) (v a : Rat) (hf : f.WF) (hse : s < e) (hv : v ≠ 0)
    (ha : Den f false s = some a) : layer f [⟨some e, some s, v⟩] ≠ f := by
  intro h
  have h1 := layer_reversed_values f s e v hf hse s
  rw [h, ha, if_pos ⟨le_refl s, hse⟩] at h1
  simp only [Option.map_some, Option.some.injEq] at h1
  exact hv (by linarith)

/-! ## 3. layering commutes with `+`, `−`, negation and `shift` -/

section commute

private theorem vadd_map_left (a b : Val) (c : Rat) :
    vadd (a.map (· + c)) b = (vadd a b).map (· + c) := by
  cases a <;> cases b <;> simp [vadd, vlift2]; ring

private theorem vsub_map_left (a b : Val) (c : Rat) :
    vsub (a.map (· + c)) b = (vsub a b).map (· + c) := by
  cases a <;> cases b <;> simp [vsub, vlift2]; ring

private theorem vadd_map_right (a b : Val) (c : Rat) :
    vadd b (a.map (· + c)) = (vadd b a).map (· + c) := by
  cases a <;> cases b <;> simp [vadd, vlift2]; ring

/-- the general statement: an operator that lets an added constant through on its left operand -/
theorem combine_layer_of_linear [NoMinOrder P] [Nonempty P] (op : Val → Val → Val)
    (hop : ∀ (a b : Val) (c : Rat), op (a.map (· + c)) b = (op a b).map (· + c))
    (f g : Stairs P) (cl : Side) (ts : List (Triple P)) (hf : f.WF) (hg : g.WF) :
    combine op (layer f ts) g cl = layer (combine op f g cl) ts := by
  refine canonical_ext _ _ (canonical_combine _ _ _ _ (wf_layer f ts hf) hg)
    (canonical_layer_of_canonical _ _ (canonical_combine _ _ _ _ hf hg)) ?_ (fun x => ?_)
  · rw [closed_layer]; rfl
  · rw [den_combine _ _ _ _ (wf_layer f ts hf) hg, l2b_den_layer f ts hf,
      l2b_den_layer _ ts (wf_combine _ _ _ _ hf hg), den_combine _ _ _ _ hf hg, hop]

/-- `(layer f ts) + g = layer (f + g) ts` on the unchecked two-operand path -/
theorem combine_add_layer [NoMinOrder P] [Nonempty P] (f g : Stairs P) (cl : Side) (ts : List (Triple P))
    (hf : f.WF) (hg : g.WF) : combine vadd (layer f ts) g cl = layer (combine vadd f g cl) ts :=
  combine_layer_of_linear vadd vadd_map_left f g cl ts hf hg

theorem combine_sub_layer [NoMinOrder P] [Nonempty P] (f g : Stairs P) (cl : Side) (ts : List (Triple P))
    (hf : f.WF) (hg : g.WF) : combine vsub (layer f ts) g cl = layer (combine vsub f g cl) ts :=
  combine_layer_of_linear vsub vsub_map_left f g cl ts hf hg

/-- `g + (layer f ts) = layer (g + f) ts` -/
theorem combine_add_layer_right [NoMinOrder P] [Nonempty P] (f g : Stairs P) (cl : Side) (ts : List (Triple P))
    (hf : f.WF) (hg : g.WF) : combine vadd g (layer f ts) cl = layer (combine vadd g f cl) ts := by
  refine canonical_ext _ _ (canonical_combine _ _ _ _ hg (wf_layer f ts hf))
    (canonical_layer_of_canonical _ _ (canonical_combine _ _ _ _ hg hf)) ?_ (fun x => ?_)
  · rw [closed_layer]; rfl
  · rw [den_combine _ _ _ _ hg (wf_layer f ts hf), l2b_den_layer f ts hf,
      l2b_den_layer _ ts (wf_combine _ _ _ _ hg hf), den_combine _ _ _ _ hg hf, vadd_map_right]

/-- the closed-side proviso under which the checked operators commute with layering:
the sides agree, or the other operand is step-free -/
def SidesOk (f g : Stairs P) : Prop := f.closed = g.closed ∨ g.hasSteps = false

instance (f g : Stairs P) : Decidable (SidesOk f g) := by unfold SidesOk; infer_instance

private theorem sidesOk_facts (f g : Stairs P) (h : SidesOk f g) (ts : List (Triple P)) :
    ¬ Mismatch f g ∧ ¬ Mismatch (layer f ts) g ∧ sideOf f g = f.closed ∧ sideOf (layer f ts) g = f.closed := by
  unfold SidesOk at h
  refine ⟨?_, ?_, ?_, ?_⟩
  · rintro ⟨_, h2, h3⟩; rcases h with h | h
    · exact h3 h
    · rw [h] at h2; cases h2
  · rintro ⟨_, h2, h3⟩; rcases h with h | h
    · rw [closed_layer] at h3; exact h3 h
    · rw [h] at h2; cases h2
  · unfold sideOf; rcases h with h | h
    · rw [← h]; split <;> (try split) <;> rfl
    · rw [h]; split <;> rfl
  · unfold sideOf; rw [closed_layer]; rcases h with h | h
    · rw [← h]; split <;> (try split) <;> rfl
    · rw [h]; split <;> rfl

/-- **`layer` commutes with `+`** (checked operator, objects) -/
theorem binop_add_layer [NoMinOrder P] [Nonempty P] (f g : Stairs P) (ts : List (Triple P))
    (hf : f.WF) (hg : g.WF) (hs : SidesOk f g) :
    binop .add (layer f ts) g = (binop .add f g).map (fun h => layer h ts) := by
  obtain ⟨h1, h2, h3, h4⟩ := sidesOk_facts f g hs ts
  unfold binop
  rw [combineChecked_total _ _ _ h1, combineChecked_total _ _ _ h2, h3, h4]
  show Except.ok _ = Except.ok _
  rw [show BinOp.add.eval = vadd from rfl, combine_add_layer f g _ ts hf hg]

/-- **`layer` commutes with `−`** -/
theorem binop_sub_layer [NoMinOrder P] [Nonempty P] (f g : Stairs P) (ts : List (Triple P))
    (hf : f.WF) (hg : g.WF) (hs : SidesOk f g) :
    binop .sub (layer f ts) g = (binop .sub f g).map (fun h => layer h ts) := by
  obtain ⟨h1, h2, h3, h4⟩ := sidesOk_facts f g hs ts
  unfold binop
  rw [combineChecked_total _ _ _ h1, combineChecked_total _ _ _ h2, h3, h4]
  show Except.ok _ = Except.ok _
  rw [show BinOp.sub.eval = vsub from rfl, combine_sub_layer f g _ ts hf hg]

/-- in particular adding a scalar commutes with layering -/
theorem add_scalar_layer [NoMinOrder P] [Nonempty P] (f : Stairs P) (c : Rat) (ts : List (Triple P)) (hf : f.WF) :
    binop .add (layer f ts) (const (some c) f.closed) =
      (binop .add f (const (some c) f.closed)).map (fun h => layer h ts) :=
  binop_add_layer f _ ts hf (wf_const _ _) (Or.inl rfl)

/-- all layered values negated -/
def negTriples (ts : List (Triple P)) : List (Triple P) := ts.map fun t => ⟨t.start, t.stop, -t.value⟩

theorem contributions_neg (ts : List (Triple P)) (st : Bool) (x : P) :
    contributions (negTriples ts) st x = -contributions ts st x := by
  induction ts with
  | nil => simp [negTriples, contributions]
  | cons t r ih =>
    have : negTriples (t :: r) = ⟨t.start, t.stop, -t.value⟩ :: negTriples r := rfl
    rw [this, contributions_cons, contributions_cons, ih, l2b_contribution_neg_value]
    ring

theorem neg_layer_den (f : Stairs P) (ts : List (Triple P)) (hf : f.WF) (st : Bool) (x : P) :
    Den (unop .neg (layer f ts)) st x = Den (layer (unop .neg f) (negTriples ts)) st x := by
  rw [den_unop _ _ (wf_layer f ts hf), l2b_den_layer f ts hf, l2b_den_layer _ _ (wf_unop _ f hf),
    den_unop _ f hf, contributions_neg]
  cases Den f st x with
  | none => rfl
  | some a => simp only [UnOp.eval, Option.map_some]; congr 1; ring

/-- **`−(layer f ts) = layer (−f) (−ts)`** (objects, any well-formed receiver) -/
theorem neg_layer [NoMinOrder P] [Nonempty P] (f : Stairs P) (ts : List (Triple P)) (hf : f.WF) :
    unop .neg (layer f ts) = layer (unop .neg f) (negTriples ts) :=
  canonical_ext _ _ (canonical_unop _ _ (wf_layer f ts hf))
    (canonical_layer_of_canonical _ _ (canonical_unop _ f hf))
    (by simp [unop]) (fun x => neg_layer_den f ts hf false x)

end commute

section shift
variable {G : Type} [AddCommGroup G] [LinearOrder G] [IsOrderedAddMonoid G]

/-- a triple moved by `d` -/
def shiftTriple (d : G) (t : Triple G) : Triple G := ⟨t.start.map (· + d), t.stop.map (· + d), t.value⟩

theorem orderPreserving_add (d : G) : C17.OrderPreserving (fun x : G => x + d) :=
  fun _ _ => (add_lt_add_iff_right d).symm

/-- **`layer` commutes with `shift`** (objects; no hypothesis on the receiver at all) -/
theorem layer_shift (f : Stairs G) (d : G) (ts : List (Triple G)) :
    layer (shift f d) (ts.map (shiftTriple d)) = shift (layer f ts) d :=
  C17b.layer_mapPoints (fun x : G => x + d) (orderPreserving_add d) f ts

end shift

/-! ## 4. completeness of layering -/

/-- one ray per step point, carrying the jump at that point -/
def raysOf (f : Stairs P) : List (Triple P) := raysFrom (f.init.getD 0) f.steps
/-- one interval per piece (the last piece is a ray), carrying value − initial value -/
def intervalsOf (f : Stairs P) : List (Triple P) := intervalsFrom (f.init.getD 0) f.steps
/-- the bounded pieces only -/
def boundedIntervalsOf (f : Stairs P) : List (Triple P) := boundedFrom (f.init.getD 0) f.steps
/-- the value towards +∞ -/
def finalValue (f : Stairs P) : Val := l2b_lastVal f.init f.steps

theorem raysOf_length (f : Stairs P) : (raysOf f).length = f.numberOfSteps := l2b_length_raysFrom _ _

private theorem noNa_init (f : Stairs P) (hn : f.noNa = true) : f.init = some (f.init.getD 0) := by
  have := ((noNa_iff f).mp hn).1
  cases hfi : f.init with
  | none => exact absurd hfi this
  | some a => rfl

/-- the rays rebuild the function, both limits -/
theorem den_layer_raysOf (f : Stairs P) (hf : f.WF) (hn : f.noNa = true) (st : Bool) (x : P) :
    Den (layer (const f.init f.closed) (raysOf f)) st x = Den f st x := by
  rw [l2b_den_layer _ _ (wf_const _ _), den_const]
  have hi := noNa_init f hn
  unfold Den raysOf
  rw [hi, l2b_lim_rays st _ f.steps hf ((noNa_iff f).mp hn).2 x]
  simp

/-- **representation theorem**: a canonical everywhere-defined step function is obtained from the constant
`f.init` by layering one ray per step, with value = the jump — the very same object -/
theorem layer_raysOf [NoMinOrder P] [Nonempty P] (f : Stairs P) (hf : f.Canonical) (hn : f.noNa = true) :
    layer (const f.init f.closed) (raysOf f) = f :=
  canonical_ext _ _ (canonical_layer_of_canonical _ _ (canonical_const _ _)) hf (closed_layer _ _)
    (fun x => den_layer_raysOf f hf.1 hn false x)

/-- for a merely well-formed `f` one gets its canonical form -/
theorem layer_raysOf_canon [NoMinOrder P] [Nonempty P] (f : Stairs P) (hf : f.WF) (hn : f.noNa = true) :
    layer (const f.init f.closed) (raysOf f) = f.canon :=
  canonical_ext _ _ (canonical_layer_of_canonical _ _ (canonical_const _ _)) (canonical_canon f hf)
    (closed_layer _ _) (fun x => by rw [den_layer_raysOf f hf hn, den_canon f hf])

/-- for canonical `f` the representation is irredundant: every ray carries a non-zero value -/
theorem raysOf_nonzero (f : Stairs P) (hf : f.Canonical) (hn : f.noNa = true) :
    ∀ t ∈ raysOf f, t.value ≠ 0 := by
  have hm : Minimal f.init f.steps := hf.2
  rw [noNa_init f hn] at hm
  exact l2b_raysFrom_nonzero _ f.steps ((noNa_iff f).mp hn).2 hm

theorem den_layer_intervalsOf (f : Stairs P) (hf : f.WF) (hn : f.noNa = true) (st : Bool) (x : P) :
    Den (layer (const f.init f.closed) (intervalsOf f)) st x = Den f st x := by
  rw [l2b_den_layer _ _ (wf_const _ _), den_const]
  have hi := noNa_init f hn
  unfold Den intervalsOf
  rw [hi, l2b_lim_intervals st _ f.steps hf ((noNa_iff f).mp hn).2 x]
  simp

/-- **interval form**: one interval per piece -/
theorem layer_intervalsOf [NoMinOrder P] [Nonempty P] (f : Stairs P) (hf : f.Canonical) (hn : f.noNa = true) :
    layer (const f.init f.closed) (intervalsOf f) = f :=
  canonical_ext _ _ (canonical_layer_of_canonical _ _ (canonical_const _ _)) hf (closed_layer _ _)
    (fun x => den_layer_intervalsOf f hf.1 hn false x)

theorem den_layer_boundedIntervalsOf (f : Stairs P) (hf : f.WF) (hn : f.noNa = true)
    (hl : finalValue f = f.init) (st : Bool) (x : P) :
    Den (layer (const f.init f.closed) (boundedIntervalsOf f)) st x = Den f st x := by
  rw [l2b_den_layer _ _ (wf_const _ _), den_const]
  have hi := noNa_init f hn
  unfold finalValue at hl
  unfold Den boundedIntervalsOf
  rw [hi] at hl ⊢
  rw [l2b_lim_bounded st _ f.steps hf ((noNa_iff f).mp hn).2 hl x]
  simp

/-- **bounded-interval form**: a function that returns to its initial value is a finite superposition of
genuine bounded intervals `(p, q, value − init)` with `p < q` on the constant -/
theorem layer_boundedIntervalsOf [NoMinOrder P] [Nonempty P] (f : Stairs P) (hf : f.Canonical)
    (hn : f.noNa = true) (hl : finalValue f = f.init) :
    layer (const f.init f.closed) (boundedIntervalsOf f) = f :=
  canonical_ext _ _ (canonical_layer_of_canonical _ _ (canonical_const _ _)) hf (closed_layer _ _)
    (fun x => den_layer_boundedIntervalsOf f hf.1 hn hl false x)

theorem boundedIntervalsOf_forward (f : Stairs P) (hf : f.WF) :
    ∀ t ∈ boundedIntervalsOf f, ∃ p q, t.start = some p ∧ t.stop = some q ∧ p < q :=
  l2b_boundedFrom_forward _ f.steps hf

/-- the hypothesis is necessary: beyond all their endpoints bounded intervals add nothing, so a superposition
of bounded intervals always returns to the receiver's value -/
theorem den_layer_bounded_beyond (f : Stairs P) (ts : List (Triple P)) (hf : f.WF)
    (hts : ∀ t ∈ ts, ∃ p q, t.start = some p ∧ t.stop = some q) (st : Bool) (x : P)
    (hx : ∀ t ∈ ts, ∀ q, t.start = some q ∨ t.stop = some q → q < x) :
    Den (layer f ts) st x = Den f st x := by
  refine l2b_den_layer_zero f ts hf st x ?_
  induction ts with
  | nil => rfl
  | cons t r ih =>
    rw [contributions_cons, ih (fun u hu => hts u (List.mem_cons_of_mem _ hu))
      (fun u hu => hx u (List.mem_cons_of_mem _ hu))]
    obtain ⟨p, q, hp, hq⟩ := hts t (by simp)
    have h1 : reached st p x = true := reached_of_lt (hx t (by simp) p (Or.inl hp))
    have h2 : reached st q x = true := reached_of_lt (hx t (by simp) q (Or.inr hq))
    simp [contribution, hp, hq, startReached, stopReached, h1, h2]

/-- layering never creates or removes undefined values … -/
theorem noNa_layer_iff [NoMinOrder P] [Nonempty P] (f : Stairs P) (ts : List (Triple P)) (hf : f.WF) :
    (layer f ts).noNa = true ↔ f.noNa = true := l2b_noNa_layer_iff f ts hf

/-- … so from ANY defined constant `c` every canonical everywhere-defined `g` is reached … -/
theorem layer_from_any_const [NoMinOrder P] [Nonempty P] (g : Stairs P) (c : Rat) (hg : g.Canonical)
    (hn : g.noNa = true) :
    layer (const (some c) g.closed) (⟨none, none, g.init.getD 0 - c⟩ :: raysOf g) = g := by
  refine canonical_ext _ _ (canonical_layer_of_canonical _ _ (canonical_const _ _)) hg (closed_layer _ _)
    (fun x => ?_)
  rw [← den_layer_raysOf g hg.1 hn false x, l2b_den_layer _ _ (wf_const _ _), l2b_den_layer _ _ (wf_const _ _),
    den_const, den_const, contributions_cons, C02.contribution_unbounded, noNa_init g hn]
  simp only [Option.map_some, Option.getD_some]; congr 1; ring

/-- **layering alone reaches exactly the everywhere-defined functions**: a canonical `g` is the result of
layering onto some defined constant iff it has no undefined value -/
theorem layer_reaches_iff [NoMinOrder P] [Nonempty P] (g : Stairs P) (hg : g.Canonical) :
    (∃ (c : Rat) (ts : List (Triple P)), layer (const (some c) g.closed) ts = g) ↔ g.noNa = true := by
  constructor
  · rintro ⟨c, ts, h⟩
    rw [← h, noNa_layer_iff _ ts (wf_const _ _)]
    rfl
  · intro hn
    exact ⟨g.init.getD 0, raysOf g, by rw [← noNa_init g hn]; exact layer_raysOf g hg hn⟩

/-- the results of layering onto a defined constant are canonical, so nothing else is reached -/
theorem layer_const_canonical (c : Val) (cl : Side) (ts : List (Triple P)) :
    (layer (const c cl : Stairs P) ts).Canonical := canonical_layer_of_canonical _ _ (canonical_const _ _)

/-- from the undefined constant only the undefined constant is reached -/
theorem layer_reaches_from_undefined (cl : Side) (g : Stairs P) :
    (∃ ts : List (Triple P), layer (const none cl) ts = g) ↔ g = const none cl :=
  ⟨fun ⟨ts, h⟩ => by rw [← h]; exact C02.layer_undefined cl ts, fun h => ⟨[], by rw [h]; rfl⟩⟩

/-- **any two canonical everywhere-defined functions with the same closed side are one vector `layer` call
apart**: undo the jumps of `f`, adjust the level, add the jumps of `g` -/
theorem layer_connects [NoMinOrder P] [Nonempty P] (f g : Stairs P) (hf : f.Canonical) (hg : g.Canonical)
    (hnf : f.noNa = true) (hng : g.noNa = true) (hc : f.closed = g.closed) :
    layer f (negTriples (raysOf f) ++ ⟨none, none, g.init.getD 0 - f.init.getD 0⟩ :: raysOf g) = g := by
  refine canonical_ext _ _ (canonical_layer_of_canonical _ _ hf) hg (by rw [closed_layer, hc]) (fun x => ?_)
  have h1 := den_layer_raysOf f hf.1 hnf false x
  have h2 := den_layer_raysOf g hg.1 hng false x
  rw [l2b_den_layer _ _ (wf_const _ _), den_const, noNa_init f hnf] at h1
  rw [l2b_den_layer _ _ (wf_const _ _), den_const, noNa_init g hng] at h2
  rw [l2b_den_layer f _ hf.1, ← h1, ← h2, l2b_contributions_append, contributions_neg, contributions_cons,
    C02.contribution_unbounded]
  simp only [Option.map_some]; congr 1; ring

/-- conversely layering cannot change where a function is undefined, nor its closed side -/
theorem layer_preserves_domain (f : Stairs P) (ts : List (Triple P)) (hf : f.WF) (st : Bool) (x : P) :
    (Den (layer f ts) st x = none ↔ Den f st x = none) ∧ (layer f ts).closed = f.closed :=
  ⟨C02.den_layer_undefined_iff f ts hf st x, closed_layer f ts⟩

/-! ### reachability in the presence of undefined pieces -/

/-- every everywhere-defined well-formed function is its initial value plus the jumps reached so far -/
theorem den_eq_rays (h : Stairs P) (hh : h.WF) (hn : h.noNa = true) (st : Bool) (x : P) :
    Den h st x = some (h.init.getD 0 + contributions (raysOf h) st x) := by
  have hi := noNa_init h hn
  unfold Den raysOf
  rw [hi, l2b_lim_rays st _ h.steps hh ((noNa_iff h).mp hn).2 x]
  simp

/-- `f` with its undefined pieces set to 0 -/
def fill0 (f : Stairs P) : Stairs P := fillnaScalar f (some 0)

/-- the difference `g − f` (undefined pieces read as 0), an everywhere-defined step function -/
def gap (f g : Stairs P) : Stairs P := combine vsub (fill0 g) (fill0 f) f.closed

/-- the triples that turn `f` into `g`: the level of the gap and one ray per step of the gap -/
def bridge (f g : Stairs P) : List (Triple P) := ⟨none, none, (gap f g).init.getD 0⟩ :: raysOf (gap f g)

theorem den_fill0 (f : Stairs P) (hf : f.WF) (st : Bool) (x : P) :
    Den (fill0 f) st x = fillOp (Den f st x) (some 0) := den_map _ f hf st x

theorem wf_fill0 (f : Stairs P) (hf : f.WF) : (fill0 f).WF := wf_map _ f hf

theorem den_gap (f g : Stairs P) (hf : f.WF) (hg : g.WF) (st : Bool) (x : P) :
    Den (gap f g) st x = vsub (fillOp (Den g st x) (some 0)) (fillOp (Den f st x) (some 0)) := by
  unfold gap
  rw [den_combine _ _ _ _ (wf_fill0 g hg) (wf_fill0 f hf), den_fill0 g hg, den_fill0 f hf]

theorem wf_gap (f g : Stairs P) (hf : f.WF) (hg : g.WF) : (gap f g).WF :=
  wf_combine _ _ _ _ (wf_fill0 g hg) (wf_fill0 f hf)

theorem noNa_gap [NoMinOrder P] [Nonempty P] (f g : Stairs P) (hf : f.WF) (hg : g.WF) :
    (gap f g).noNa = true := by
  rw [l2b_noNa_iff_den _ (wf_gap f g hf hg)]
  intro x
  rw [den_gap f g hf hg]
  cases Den g false x <;> cases Den f false x <;> simp [fillOp, vsub, vlift2]

/-- the bridge turns `f` into `g` wherever both are defined, for both limits -/
theorem den_layer_bridge [NoMinOrder P] [Nonempty P] (f g : Stairs P) (hf : f.WF) (hg : g.WF) (st : Bool) (x : P)
    (hd : Den f st x = none ↔ Den g st x = none) : Den (layer f (bridge f g)) st x = Den g st x := by
  have h1 := den_eq_rays (gap f g) (wf_gap f g hf hg) (noNa_gap f g hf hg) st x
  rw [den_gap f g hf hg] at h1
  unfold bridge
  rw [l2b_den_layer f _ hf, contributions_cons, C02.contribution_unbounded]
  cases hfx : Den f st x with
  | none => rw [hd.mp hfx]; rfl
  | some a =>
    cases hgx : Den g st x with
    | none => rw [hd.mpr hgx] at hfx; cases hfx
    | some b =>
      rw [hfx, hgx] at h1
      simp only [fillOp, Option.orElse, vsub, vlift2, Option.some.injEq] at h1
      simp only [Option.map_some, Option.some.injEq]
      linarith

/-- **what layering reaches from an arbitrary receiver**: a canonical `g` is obtained from a well-formed `f`
by layering iff it has the same closed side and is undefined at exactly the same points — and then ONE
vector call (`bridge f g`) does it.  Layering moves values freely but cannot touch the domain. -/
theorem layer_reaches_iff_same_domain [NoMinOrder P] [Nonempty P] (f g : Stairs P) (hf : f.WF) (hg : g.Canonical) :
    (∃ ts : List (Triple P), layer f ts = g) ↔
      (f.closed = g.closed ∧ ∀ x, Den f false x = none ↔ Den g false x = none) := by
  constructor
  · rintro ⟨ts, h⟩
    subst h
    exact ⟨(closed_layer f ts).symm, fun x => (C02.den_layer_undefined_iff f ts hf false x).symm⟩
  · rintro ⟨hc, hd⟩
    refine ⟨bridge f g, canonical_ext _ _ (canonical_layer f _ hf (by simp [bridge])) hg ?_ (fun x => ?_)⟩
    · rw [closed_layer, hc]
    · exact den_layer_bridge f g hf hg.1 false x (hd x)

theorem layer_bridge [NoMinOrder P] [Nonempty P] (f g : Stairs P) (hf : f.WF) (hg : g.Canonical)
    (hc : f.closed = g.closed) (hd : ∀ x, Den f false x = none ↔ Den g false x = none) :
    layer f (bridge f g) = g :=
  canonical_ext _ _ (canonical_layer f _ hf (by simp [bridge])) hg (by rw [closed_layer, hc])
    (fun x => den_layer_bridge f g hf hg.1 false x (hd x))

/-! ## 5. monotonicity -/

/-- **layering non-negative values on forward intervals never decreases a value** -/
theorem layer_mono (f : Stairs P) (ts : List (Triple P)) (hf : f.WF)
    (h : ∀ t ∈ ts, Forward t ∧ 0 ≤ t.value) (st : Bool) (x : P) (a : Rat) (ha : Den f st x = some a) :
    ∃ b, Den (layer f ts) st x = some b ∧ a ≤ b := by
  refine ⟨a + contributions ts st x, by rw [l2b_den_layer f ts hf, ha]; rfl, ?_⟩
  have := l2b_contributions_nonneg ts h st x
  linarith

/-- non-positive values never increase it -/
theorem layer_anti (f : Stairs P) (ts : List (Triple P)) (hf : f.WF)
    (h : ∀ t ∈ ts, Forward t ∧ t.value ≤ 0) (st : Bool) (x : P) (a : Rat) (ha : Den f st x = some a) :
    ∃ b, Den (layer f ts) st x = some b ∧ b ≤ a := by
  refine ⟨a + contributions ts st x, by rw [l2b_den_layer f ts hf, ha]; rfl, ?_⟩
  have hneg : ∀ t ∈ negTriples ts, Forward t ∧ 0 ≤ t.value := by
    intro t ht
    simp only [negTriples, List.mem_map] at ht
    obtain ⟨u, hu, rfl⟩ := ht
    exact ⟨(h u hu).1, by have := (h u hu).2; simp only; linarith⟩
  have := l2b_contributions_nonneg _ hneg st x
  rw [contributions_neg] at this
  linarith

/-- the same, on the sampled values (`f(x)`, whichever the closed side) -/
theorem layer_mono_sample (f : Stairs P) (ts : List (Triple P)) (hf : f.WF)
    (h : ∀ t ∈ ts, Forward t ∧ 0 ≤ t.value) (x : P) (a : Rat) (ha : f.sample x = some a) :
    ∃ b, (layer f ts).sample x = some b ∧ a ≤ b := by
  rw [sample_eq_den] at ha
  rw [sample_eq_den, closed_layer]
  exact layer_mono f ts hf h _ x a ha

/-- undefined points stay undefined, so "never decreases" is the whole story -/
theorem layer_mono_undefined (f : Stairs P) (ts : List (Triple P)) (hf : f.WF) (st : Bool) (x : P)
    (ha : Den f st x = none) : Den (layer f ts) st x = none :=
  (C02.den_layer_undefined_iff f ts hf st x).mpr ha

/-! ## non-vacuity and refutations over `Stairs Int` -/

def z : Stairs Int := ⟨some 0, [], .left⟩
def f₀ : Stairs Int := ⟨some 0, [(1, some 2), (5, none), (7, some 1)], .right⟩
def f₁ : Stairs Int := ⟨some 3, [(1, some 5), (4, some 2), (6, some 3)], .left⟩
def f₂ : Stairs Int := ⟨some 3, [(1, some 5), (4, some 2), (6, some 7)], .left⟩
/-- well-formed, not canonical: a redundant row at 2 -/
def f₃ : Stairs Int := ⟨some 0, [(1, some 2), (2, some 2), (5, some 0)], .left⟩
def gR : Stairs Int := ⟨some 0, [(1, some 1)], .right⟩

example : f₀.WF ∧ ¬ f₀.noNa = true ∧ f₁.Canonical ∧ f₁.noNa = true ∧ f₃.WF ∧ ¬ f₃.Canonical := by decide +kernel

-- 1. value linearity, scaling, zero layers
example : layer f₀ [⟨some 0, some 6, 1⟩, ⟨some 0, some 6, 2⟩] = layer f₀ [⟨some 0, some 6, 1 + 2⟩] :=
  layer_add_value f₀ _ _ 1 2 (by decide +kernel)
example : layer f₀ [⟨some 0, some 6, 1⟩, ⟨some 0, some 6, 2⟩] =
    ⟨some 0, [(0, some 3), (1, some 5), (5, none), (7, some 1)], .right⟩ := by decide +kernel
example : layer (vscale (-2) f₀) (scaleTriples (-2) [⟨some 0, some 6, 1⟩, ⟨none, some 3, 5⟩]) =
    vscale (-2) (layer f₀ [⟨some 0, some 6, 1⟩, ⟨none, some 3, 5⟩]) := by decide +kernel
example : binop .mul f₀ (const (some 3) f₀.closed) = .ok (vscale 3 f₀) := by decide +kernel
example : layer f₁ [⟨some 2, some 3, 0⟩] = f₁ := by decide +kernel
example : layer f₀ [⟨some 2, none, 0⟩, ⟨none, some 6, 0⟩] = f₀ := by decide +kernel
-- a non-canonical receiver is canonicalised, not returned
example : layer f₃ [⟨some 3, some 4, 0⟩] = f₃.canon ∧ layer f₃ [⟨some 3, some 4, 0⟩] ≠ f₃ := by decide +kernel

-- 2. splitting (cut point inside, outside, reversed)
example : layer f₀ [⟨some 0, some 6, 2⟩] = layer f₀ [⟨some 0, some 3, 2⟩, ⟨some 3, some 6, 2⟩] := by decide +kernel
example : layer f₀ [⟨some 0, some 6, 2⟩] = layer f₀ [⟨some 0, some 9, 2⟩, ⟨some 9, some 6, 2⟩] := by decide +kernel
example : layer f₀ [⟨none, some 6, 2⟩] = layer f₀ [⟨none, none, 2⟩, ⟨some 6, none, -2⟩] := by decide +kernel
example : layer f₀ [⟨some 6, some 0, 2⟩] = layer f₀ [⟨some 0, some 6, -2⟩] := by decide +kernel
/-- **refuted**: "a reversed interval contributes nothing" -/
theorem reversed_contributes : layer z [⟨some 5, some 2, 1⟩] ≠ z ∧
    layer z [⟨some 5, some 2, 1⟩] = ⟨some 0, [(2, some (-1)), (5, some 0)], .left⟩ := by decide +kernel
example : layer f₁ [⟨some 2, some 5, 4⟩, ⟨some 5, some 2, 4⟩] = f₁ := by decide +kernel

-- 3. commutation
example : binop .add (layer f₁ [⟨some 0, some 6, 1⟩]) f₂ =
    (binop .add f₁ f₂).map (fun h => layer h [⟨some 0, some 6, 1⟩]) := by decide +kernel
example : SidesOk f₁ f₂ ∧ SidesOk f₀ (const (some 1) .left) ∧ ¬ SidesOk z gR := by decide +kernel
/-- **refuted**: without the closed-side proviso the checked `+` does NOT commute with layering — a step-free
receiver acquires steps (and with them a binding closed side) by being layered -/
theorem binop_add_layer_needs_sides :
    binop .add (layer z [⟨some 0, none, 1⟩]) gR = .error .closedMismatch ∧
    (binop .add z gR).map (fun h => layer h [⟨some 0, none, 1⟩])
      = .ok ⟨some 0, [(0, some 1), (1, some 2)], .right⟩ := by decide +kernel
example : unop .neg (layer f₀ [⟨some 0, some 6, 1⟩]) = layer (unop .neg f₀) (negTriples [⟨some 0, some 6, 1⟩]) := by
  decide +kernel
example : layer (shift f₀ 10) ([⟨some 0, some 6, 1⟩, ⟨none, some 2, 3⟩].map (shiftTriple 10)) =
    shift (layer f₀ [⟨some 0, some 6, 1⟩, ⟨none, some 2, 3⟩]) 10 := by decide +kernel

-- 4. completeness
example : raysOf f₁ = [⟨some 1, none, 2⟩, ⟨some 4, none, -3⟩, ⟨some 6, none, 1⟩] := by decide +kernel
example : layer (const f₁.init f₁.closed) (raysOf f₁) = f₁ := by decide +kernel
example : intervalsOf f₂ = [⟨some 1, some 4, 2⟩, ⟨some 4, some 6, -1⟩, ⟨some 6, none, 4⟩] := by decide +kernel
example : layer (const f₂.init f₂.closed) (intervalsOf f₂) = f₂ := by decide +kernel
example : finalValue f₁ = f₁.init ∧ boundedIntervalsOf f₁ = [⟨some 1, some 4, 2⟩, ⟨some 4, some 6, -1⟩] ∧
    layer (const f₁.init f₁.closed) (boundedIntervalsOf f₁) = f₁ := by decide +kernel
-- the hypothesis `finalValue f = f.init` is needed
example : finalValue f₂ ≠ f₂.init ∧ layer (const f₂.init f₂.closed) (boundedIntervalsOf f₂) ≠ f₂ := by
  decide +kernel
example : layer (const f₃.init f₃.closed) (raysOf f₃) = f₃.canon := by decide +kernel
example : layer (const (some 100) f₁.closed) (⟨none, none, f₁.init.getD 0 - 100⟩ :: raysOf f₁) = f₁ := by
  decide +kernel
example : layer f₁ (negTriples (raysOf f₁) ++ ⟨none, none, f₂.init.getD 0 - f₁.init.getD 0⟩ :: raysOf f₂) = f₂ := by
  decide +kernel
-- a function with an undefined piece is not rebuilt (and, by `layer_reaches_iff`, cannot be)
example : layer (const f₀.init f₀.closed) (raysOf f₀) ≠ f₀ := by decide +kernel
-- … but is reached from any function with the same closed side and the same undefined piece `(5, 7]`
def f₄ : Stairs Int := ⟨some 1, [(3, some (-2)), (5, none), (7, some 4), (9, some 0)], .right⟩
example : f₄.Canonical ∧ bridge f₀ f₄ = [⟨none, none, 1⟩, ⟨some 1, none, -2⟩, ⟨some 3, none, -3⟩,
    ⟨some 5, none, 4⟩, ⟨some 7, none, 3⟩, ⟨some 9, none, -4⟩] ∧ layer f₀ (bridge f₀ f₄) = f₄ := by decide +kernel

-- 5. monotonicity
example : ∀ t ∈ ([⟨some 0, some 6, 1⟩, ⟨none, some 2, 3⟩, ⟨some 4, none, 0⟩] : List (Triple Int)),
    Forward t ∧ 0 ≤ t.value := by decide +kernel
/-- **refuted**: without `Forward`, layering a positive value can decrease the function -/
theorem layer_mono_needs_forward :
    ¬ Forward (⟨some 5, some 2, 1⟩ : Triple Int) ∧
    Den z false 3 = some 0 ∧ Den (layer z [⟨some 5, some 2, 1⟩]) false 3 = some (-1) := by decide +kernel

end SC.Props.C02b
