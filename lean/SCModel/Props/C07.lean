import SCModel.Lemmas.Fill
import Mathlib.Data.Int.Order.Basic
/-!
# C07 — fillna only ever changes undefined points, and fills them as specified
-/
set_option linter.unusedSectionVars false
namespace SC.Props.C07
open SC SC.Stairs
variable {P : Type} [LinearOrder P]

/-- **scalar**: equals `f` where defined and the scalar `v` where undefined -/
theorem fillna_scalar_spec (f : Stairs P) (v : Val) (hf : f.WF) (st : Bool) (x : P) :
    Den (fillnaScalar f v) st x = match Den f st x with | some q => some q | none => v := by
  rw [show Den (fillnaScalar f v) st x = fillOp (Den f st x) v from den_map _ f hf st x]
  cases Den f st x <;> rfl

theorem fillna_scalar_canonical (f : Stairs P) (v : Val) (hf : f.WF) : (fillnaScalar f v).Canonical :=
  canonical_map _ f hf

/-- **step-function filler**: equals `f` where defined, `g(x)` where undefined (so it remains undefined
only where `g` is undefined too) -/
theorem fillna_stairs_spec (f g h : Stairs P) (hf : f.WF) (hg : g.WF) (hres : fillnaStairs f g = .ok h) :
    h.Canonical ∧ ∀ st x, Den h st x = match Den f st x with | some q => some q | none => Den g st x := by
  obtain ⟨hc, _, hp⟩ := combineChecked_ok fillOp f g h hf hg hres
  refine ⟨hc, fun st x => ?_⟩
  rw [hp]; cases Den f st x <;> rfl

theorem fillna_stairs_undefined_iff (f g h : Stairs P) (hf : f.WF) (hg : g.WF)
    (hres : fillnaStairs f g = .ok h) (st : Bool) (x : P) :
    Den h st x = none ↔ Den f st x = none ∧ Den g st x = none := by
  rw [(fillna_stairs_spec f g h hf hg hres).2]
  cases Den f st x <;> simp

theorem fillna_stairs_total (f g : Stairs P) (h : ¬ Mismatch f g) : ∃ r, fillnaStairs f g = .ok r :=
  ⟨_, combineChecked_total fillOp f g h⟩

/-- **every form of fillna leaves defined points alone** -/
theorem fillna_keeps_defined (f : Stairs P) (hf : f.WF) (st : Bool) (x : P) (q : Rat)
    (hq : Den f st x = some q) :
    (∀ v, Den (fillnaScalar f v) st x = some q) ∧
    Den (ffill f) st x = some q ∧ Den (bfill f) st x = some q ∧
    (∀ g h, g.WF → fillnaStairs f g = .ok h → Den h st x = some q) := by
  refine ⟨fun v => ?_, ?_, ?_, fun g h hg hres => ?_⟩
  · rw [fillna_scalar_spec f v hf, hq]
  · rw [den_ffill f hf]; exact lastDefined_of_defined st f.init f.steps x q hq
  · rw [den_bfill f hf]; exact nextDefined_of_defined st f.init f.steps x q hq
  · rw [(fillna_stairs_spec f g h hf hg hres).2, hq]

/-- **'ffill' / 'pad'**: the value of the nearest defined piece at or to the left of `x`
(`lastDefined` walks through the step points reached at `x` keeping the last defined value, starting from
the initial value); undefined when there is none -/
theorem ffill_spec (f : Stairs P) (hf : f.WF) (st : Bool) (x : P) :
    Den (ffill f) st x = lastDefined st f.init f.steps x := den_ffill f hf st x

/-- **'bfill' / 'backfill'**: the value in effect at `x` if defined, else the first defined value among
the step points after `x` (`nextDefined`); undefined when there is none -/
theorem bfill_spec (f : Stairs P) (hf : f.WF) (st : Bool) (x : P) :
    Den (bfill f) st x = nextDefined st f.init f.steps x := den_bfill f hf st x

/-- forward fill towards −∞ has nothing to copy from: left of all step points it is the initial value -/
theorem ffill_before (f : Stairs P) (hf : f.WF) (st : Bool) (x : P)
    (hx : ∀ q ∈ f.steps.map Prod.fst, x < q) : Den (ffill f) st x = f.init := by
  rw [den_ffill f hf]
  cases hs : f.steps with
  | nil => rfl
  | cons pv r =>
    obtain ⟨p, v⟩ := pv
    have : reached st p x = false := not_reached_of_lt (hx p (by simp [hs]))
    simp [lastDefined, this]

/-- backward fill of an undefined initial value takes the first defined value -/
theorem bfill_before (f : Stairs P) (hf : f.WF) (st : Bool) (x : P)
    (hx : ∀ q ∈ f.steps.map Prod.fst, x < q) :
    Den (bfill f) st x = fillOp f.init (firstSome f.steps) := by
  rw [den_bfill f hf]
  cases hs : f.steps with
  | nil => simp [nextDefined, firstSome, fillOp_none_right]
  | cons pv r =>
    obtain ⟨p, v⟩ := pv
    have : reached st p x = false := not_reached_of_lt (hx p (by simp [hs]))
    simp [nextDefined, this]

theorem fill_canonical (f : Stairs P) (hf : f.WF) : (ffill f).Canonical ∧ (bfill f).Canonical :=
  ⟨canonical_ffill f hf, canonical_bfill f hf⟩

/-! non-vacuity: leading, consecutive and trailing undefined regions -/
def f₀ : Stairs Int := ⟨none, [(1, some 2), (3, none), (5, some 4), (7, none)], .left⟩
def g₀ : Stairs Int := ⟨some 9, [(4, none)], .left⟩
example : f₀.WF ∧ g₀.WF := by decide +kernel
example : ffill f₀ = ⟨none, [(1, some 2), (5, some 4)], .left⟩ := by decide +kernel
example : bfill f₀ = ⟨some 2, [(3, some 4), (7, none)], .left⟩ := by decide +kernel
example : fillnaStairs f₀ g₀ = .ok ⟨some 9, [(1, some 2), (3, some 9), (4, none), (5, some 4), (7, none)], .left⟩ := by
  decide +kernel

end SC.Props.C07
