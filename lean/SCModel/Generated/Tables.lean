import SCModel.Model.Stats
/-!
# SCModel.Generated.Tables — REGENERATED from /repo's source on every run by tools/extract_tables.py.
Do not edit.  `SCModel/Props/Tie.lean` proves each table equal to the hand-written model's table.
-/
namespace SC.Generated
open SC

/-- abstract scalar: NaN, zero, or some non-zero number -/
inductive Tri | nan | zero | nonzero
  deriving DecidableEq, Repr

/-- what `layer` does before it resets the caches -/
inductive LayerEvent | returnSelfIfAllUndefined | otherEarlyExit | otherStatement | clearCache | noClearCache
  deriving DecidableEq, Repr

def getLims : Side → IClosed → Side × Side
  | .left, .left => (.right, .left)
  | .left, .right => (.right, .right)
  | .left, .both => (.right, .right)
  | .left, .neither => (.right, .left)
  | .right, .left => (.left, .left)
  | .right, .right => (.right, .left)
  | .right, .both => (.left, .left)
  | .right, .neither => (.right, .left)

def sampleSide : Side → Side
  | .left => .right
  | .right => .left

def slicerEndpoint : Side → IClosed → Option Side
  | .left, .left => none
  | .left, .right => some .right
  | .left, .both => some .right
  | .left, .neither => none
  | .right, .left => some .left
  | .right, .right => none
  | .right, .both => some .left
  | .right, .neither => none

/-- does the ufunc combining the slice extreme with the endpoint sample ignore NaN (fmax/fmin)? -/
def slicerCombineIgnoresNaN : Bool := true

def scalarAnd : Tri → Tri → Val
  | .nan, .nan => none
  | .nan, .zero => none
  | .nan, .nonzero => none
  | .zero, .nan => none
  | .zero, .zero => some 0
  | .zero, .nonzero => some 0
  | .nonzero, .nan => none
  | .nonzero, .zero => some 0
  | .nonzero, .nonzero => some 1

def scalarOr : Tri → Tri → Val
  | .nan, .nan => none
  | .nan, .zero => none
  | .nan, .nonzero => none
  | .zero, .nan => none
  | .zero, .zero => some 0
  | .zero, .nonzero => some 1
  | .nonzero, .nan => none
  | .nonzero, .zero => some 1
  | .nonzero, .nonzero => some 1

def scalarXor : Tri → Tri → Val
  | .nan, .nan => none
  | .nan, .zero => none
  | .nan, .nonzero => none
  | .zero, .nan => none
  | .zero, .zero => some 0
  | .zero, .nonzero => some 1
  | .nonzero, .nan => none
  | .nonzero, .zero => some 1
  | .nonzero, .nonzero => some 0


def mismatchCond : Bool → Side → Bool → Side → Bool
  | false, .left, false, .left => false
  | false, .left, false, .right => false
  | false, .right, false, .left => false
  | false, .right, false, .right => false
  | false, .left, true, .left => false
  | false, .left, true, .right => false
  | false, .right, true, .left => false
  | false, .right, true, .right => false
  | true, .left, false, .left => false
  | true, .left, false, .right => false
  | true, .right, false, .left => false
  | true, .right, false, .right => false
  | true, .left, true, .left => false
  | true, .left, true, .right => true
  | true, .right, true, .left => true
  | true, .right, true, .right => false

def clipSides : Side × Side := (.right, .left)

def layerPrefix : List LayerEvent := [.returnSelfIfAllUndefined, .clearCache]
def clearCacheResetsDist : Bool := true
def clearCacheResetsIntegralAndMean : Bool := true

/-- constructor call sites that build a result without passing `closed=` (outside the reviewed allow-list) -/
def ctorCallsWithoutClosed : List String := []

end SC.Generated
