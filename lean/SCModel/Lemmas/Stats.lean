import SCModel.Lemmas.Den
import SCModel.Model.Stats
import Mathlib.Algebra.Order.Field.Rat
import Mathlib.Tactic.Ring
import Mathlib.Tactic.Linarith
import Mathlib.Tactic.FieldSimp
/-!
# SCModel.Lemmas.Stats — helper lemmas for the statistics of `Model/Stats.lean` (C08, C09)

* `sumBy` algebra
* `pieces` / `definedPieces` structure and their link with the denotation (`lim`)
* `insertSum` / `valueSums`: entries, keys, sortedness, push-forward of weighted sums
* splitting a piece (`lim_insert_redundant`, `vsFold_split`, `sumBy_split`)
* `lim_cumsum` (the ECDF as a filtered sum), `lim_scale` / `xtileRows_scale` (percentile vs fractile),
  `lim_xtileRows` / `firstUnreached` (lower / upper quantile), `cumsum` monotonicity, `maxLen` (modes)
-/
set_option linter.unusedSectionVars false
set_option linter.unusedVariables false
namespace SC
namespace Stairs

/-! ## `sumBy` -/
section sumBy
variable {α β : Type}

@[simp] theorem sumBy_nil (g : α → Rat) : sumBy g [] = 0 := rfl
@[simp] theorem sumBy_cons (g : α → Rat) (a : α) (l : List α) : sumBy g (a :: l) = g a + sumBy g l := by
  simp [sumBy]

theorem sumBy_append (g : α → Rat) (l₁ l₂ : List α) : sumBy g (l₁ ++ l₂) = sumBy g l₁ + sumBy g l₂ := by
  induction l₁ with
  | nil => simp
  | cons a l ih => simp only [List.cons_append, sumBy_cons, ih]; ring

theorem sumBy_map (g : α → Rat) (h : β → α) (l : List β) : sumBy g (l.map h) = sumBy (fun b => g (h b)) l := by
  induction l with
  | nil => rfl
  | cons a l ih => simp only [List.map_cons, sumBy_cons, ih]

theorem sumBy_congr (g h : α → Rat) (l : List α) (H : ∀ a ∈ l, g a = h a) : sumBy g l = sumBy h l := by
  induction l with
  | nil => rfl
  | cons a l ih =>
    simp only [sumBy_cons]
    rw [H a (by simp), ih (fun b hb => H b (by simp [hb]))]

theorem sumBy_add (g h : α → Rat) (l : List α) : sumBy (fun a => g a + h a) l = sumBy g l + sumBy h l := by
  induction l with
  | nil => simp
  | cons a l ih => simp only [sumBy_cons, ih]; ring

theorem sumBy_sub (g h : α → Rat) (l : List α) : sumBy (fun a => g a - h a) l = sumBy g l - sumBy h l := by
  induction l with
  | nil => simp
  | cons a l ih => simp only [sumBy_cons, ih]; ring

theorem sumBy_mul_left (c : Rat) (g : α → Rat) (l : List α) : sumBy (fun a => c * g a) l = c * sumBy g l := by
  induction l with
  | nil => simp
  | cons a l ih => simp only [sumBy_cons, ih]; ring

theorem sumBy_mul_right (c : Rat) (g : α → Rat) (l : List α) : sumBy (fun a => g a * c) l = sumBy g l * c := by
  induction l with
  | nil => simp
  | cons a l ih => simp only [sumBy_cons, ih]; ring

theorem sumBy_div (c : Rat) (g : α → Rat) (l : List α) : sumBy (fun a => g a / c) l = sumBy g l / c := by
  induction l with
  | nil => simp
  | cons a l ih => simp only [sumBy_cons, ih]; ring

theorem sumBy_const_zero (l : List α) : sumBy (fun _ => (0 : Rat)) l = 0 := by
  induction l with
  | nil => rfl
  | cons a l ih => simp only [sumBy_cons, ih]; ring

theorem sumBy_nonneg (g : α → Rat) (l : List α) (H : ∀ a ∈ l, 0 ≤ g a) : 0 ≤ sumBy g l := by
  induction l with
  | nil => simp
  | cons a l ih =>
    simp only [sumBy_cons]
    have h1 := H a (by simp)
    have h2 := ih (fun b hb => H b (by simp [hb]))
    linarith

theorem sumBy_le_sumBy (g h : α → Rat) (l : List α) (H : ∀ a ∈ l, g a ≤ h a) : sumBy g l ≤ sumBy h l := by
  induction l with
  | nil => simp
  | cons a l ih =>
    simp only [sumBy_cons]
    have h1 := H a (by simp)
    have h2 := ih (fun b hb => H b (by simp [hb]))
    linarith

theorem sumBy_pos (g : α → Rat) (l : List α) (hl : l ≠ []) (H : ∀ a ∈ l, 0 < g a) : 0 < sumBy g l := by
  cases l with
  | nil => exact absurd rfl hl
  | cons a l =>
    simp only [sumBy_cons]
    have h1 := H a (by simp)
    have h2 := sumBy_nonneg g l (fun b hb => le_of_lt (H b (by simp [hb])))
    linarith

theorem sumBy_filter (g : α → Rat) (P : α → Bool) (l : List α) :
    sumBy g (l.filter P) = sumBy (fun a => if P a then g a else 0) l := by
  induction l with
  | nil => rfl
  | cons a l ih =>
    simp only [List.filter_cons, sumBy_cons]
    cases P a
    · simp [ih]
    · simp [ih]

end sumBy

/-! ## `pieces` / `definedPieces` -/

theorem pieces_nil : pieces [] = [] := rfl
theorem pieces_singleton (a : Rat × Val) : pieces [a] = [] := by
  obtain ⟨p, v⟩ := a; rfl
theorem pieces_cons_cons (p : Rat) (v : Val) (q : Rat) (w : Val) (r : List (Rat × Val)) :
    pieces ((p, v) :: (q, w) :: r) = (p, q, v) :: pieces ((q, w) :: r) := rfl
theorem pieces_cons_cons' (a b : Rat × Val) (r : List (Rat × Val)) :
    pieces (a :: b :: r) = (a.1, b.1, a.2) :: pieces (b :: r) := rfl

/-- the finite pieces are exactly the consecutive pairs of rows -/
theorem pieces_eq_zipWith (s : List (Rat × Val)) :
    pieces s = List.zipWith (fun a b => (a.1, b.1, a.2)) s s.tail := by
  induction s with
  | nil => rfl
  | cons a r ih =>
    cases r with
    | nil => simp [pieces_singleton]
    | cons b r' => rw [pieces_cons_cons', ih]; rfl

theorem length_pieces (s : List (Rat × Val)) : (pieces s).length = s.length - 1 := by
  rw [pieces_eq_zipWith]; simp

theorem pieces_of_length_lt_two (s : List (Rat × Val)) (h : s.length < 2) : pieces s = [] := by
  apply List.eq_nil_of_length_eq_zero; rw [length_pieces]; omega

theorem pieces_append (l : List (Rat × Val)) (a : Rat × Val) (r : List (Rat × Val)) :
    pieces (l ++ a :: r) = pieces (l ++ [a]) ++ pieces (a :: r) := by
  induction l with
  | nil => simp [pieces_singleton]
  | cons b l ih =>
    cases l with
    | nil => simp [pieces_cons_cons', pieces_singleton]
    | cons c l' =>
      simp only [List.cons_append] at ih ⊢
      rw [pieces_cons_cons', pieces_cons_cons', ih]; simp

/-- membership in `pieces`: a consecutive pair of rows somewhere in the list -/
theorem mem_pieces_iff (s : List (Rat × Val)) (p q : Rat) (v : Val) :
    (p, q, v) ∈ pieces s ↔ ∃ l w r, s = l ++ (p, v) :: (q, w) :: r := by
  induction s with
  | nil => simp [pieces_nil]
  | cons a t ih =>
    cases t with
    | nil =>
      simp only [pieces_singleton, List.not_mem_nil, false_iff]
      rintro ⟨l, w, r, h⟩
      have := congrArg List.length h
      simp at this; omega
    | cons b t' =>
      rw [pieces_cons_cons', List.mem_cons, ih]
      constructor
      · rintro (h | ⟨l, w, r, h⟩)
        · refine ⟨[], b.2, t', ?_⟩
          simp only [Prod.mk.injEq] at h
          obtain ⟨h1, h2, h3⟩ := h
          subst h1 h2 h3; rfl
        · exact ⟨a :: l, w, r, by rw [h]; rfl⟩
      · rintro ⟨l, w, r, h⟩
        cases l with
        | nil =>
          left
          simp only [List.nil_append, List.cons.injEq] at h
          obtain ⟨h1, h2, _⟩ := h
          subst h1 h2; rfl
        | cons c l' =>
          right
          simp only [List.cons_append, List.cons.injEq] at h
          exact ⟨l', w, r, h.2⟩

theorem mem_pieces_keys (s : List (Rat × Val)) (p q : Rat) (v : Val) (h : (p, q, v) ∈ pieces s) :
    p ∈ s.map Prod.fst ∧ q ∈ s.map Prod.fst := by
  obtain ⟨l, w, r, rfl⟩ := (mem_pieces_iff s p q v).mp h
  simp

/-- in a well-formed list every finite piece has positive length -/
theorem pieces_lt (s : List (Rat × Val)) (hs : Sorted s) (p q : Rat) (v : Val) (h : (p, q, v) ∈ pieces s) :
    p < q := by
  obtain ⟨l, w, r, rfl⟩ := (mem_pieces_iff s p q v).mp h
  unfold Sorted at hs
  simp only [List.map_append, List.map_cons, List.pairwise_append, List.pairwise_cons] at hs
  exact hs.2.1.1 q (by simp)

/-- **a finite piece carries the value the function denotes there**: for either one-sided limit, at any
`x` that has reached `p` but not `q` the limit is the piece's value (`p ≤ x < q` for right limits,
`p < x ≤ q` for left limits) -/
theorem lim_on_piece (st : Bool) (a : Val) (s : List (Rat × Val)) (hs : Sorted s) (p q : Rat) (v : Val)
    (h : (p, q, v) ∈ pieces s) (x : Rat) (hp : reached st p x = true) (hq : reached st q x = false) :
    lim st a s x = v := by
  induction s generalizing a with
  | nil => simp [pieces_nil] at h
  | cons a0 t ih =>
    cases t with
    | nil => simp [pieces_singleton] at h
    | cons b t' =>
      obtain ⟨p0, v0⟩ := a0
      obtain ⟨q0, w0⟩ := b
      rw [pieces_cons_cons, List.mem_cons] at h
      rcases h with h | h
      · simp only [Prod.mk.injEq] at h
        obtain ⟨h1, h2, h3⟩ := h
        subst h1 h2 h3
        rw [lim_cons, hp, if_pos rfl, lim_cons, hq]; rfl
      · have hk := (mem_pieces_keys _ p q v h).1
        have hlt : p0 < p := (sorted_tail hs).2 p hk
        rw [lim_cons, reached_mono hlt hp, if_pos rfl]
        exact ih v0 (sorted_tail hs).1 h

/-- the finite pieces lie between the first and the last step point: the two unbounded pieces are not among them -/
theorem pieces_within (s : List (Rat × Val)) (hs : Sorted s) (p q : Rat) (v : Val) (h : (p, q, v) ∈ pieces s)
    (first last : Rat) (hf : s.head?.map Prod.fst = some first) (hl : s.getLast?.map Prod.fst = some last) :
    first ≤ p ∧ q ≤ last := by
  obtain ⟨l, w, r, rfl⟩ := (mem_pieces_iff s p q v).mp h
  unfold Sorted at hs
  simp only [List.map_append, List.map_cons, List.pairwise_append, List.pairwise_cons] at hs
  constructor
  · cases l with
    | nil => simp at hf; exact le_of_eq hf.symm
    | cons c l' =>
      simp at hf
      subst hf
      exact le_of_lt (hs.2.2 c.1 (by simp) p (by simp))
  · rcases List.eq_nil_or_concat r with hr | ⟨r', z, hr⟩
    · subst hr
      simp [List.getLast?_append] at hl
      exact le_of_eq hl
    · subst hr
      have : l ++ (p, v) :: (q, w) :: (r'.concat z) = (l ++ (p, v) :: (q, w) :: r') ++ [z] := by simp
      rw [this, List.getLast?_append] at hl
      simp at hl
      subst hl
      exact le_of_lt (hs.2.1.2.1 z.1 (by simp))

/-- coverage: in a well-formed list every `x` from the first step point (inclusive) to the last (exclusive)
lies in some finite piece (right-limit form) -/
theorem exists_piece (s : List (Rat × Val)) (x : Rat) (first last : Rat)
    (hf : s.head?.map Prod.fst = some first) (hl : s.getLast?.map Prod.fst = some last)
    (h1 : first ≤ x) (h2 : x < last) : ∃ p q v, (p, q, v) ∈ pieces s ∧ p ≤ x ∧ x < q := by
  induction s generalizing first with
  | nil => simp at hf
  | cons a t ih =>
    cases t with
    | nil =>
      simp at hf hl
      rw [hf] at hl; rw [hl] at h1; exact absurd h1 (not_le.mpr h2)
    | cons b t' =>
      simp only [List.head?_cons, Option.map_some, Option.some.injEq] at hf
      subst hf
      by_cases hx : x < b.1
      · exact ⟨a.1, b.1, a.2, by rw [pieces_cons_cons']; simp, h1, hx⟩
      · obtain ⟨p, q, v, hm, hp, hq⟩ := ih b.1 rfl (by simpa [List.getLast?_cons_cons] using hl) (not_lt.mp hx)
        exact ⟨p, q, v, by rw [pieces_cons_cons']; exact List.mem_cons_of_mem _ hm, hp, hq⟩

theorem definedPieces_nil : definedPieces [] = [] := rfl
theorem definedPieces_singleton (a : Rat × Val) : definedPieces [a] = [] := by
  simp [definedPieces, pieces_singleton]

theorem definedPieces_of_length_lt_two (s : List (Rat × Val)) (h : s.length < 2) : definedPieces s = [] := by
  simp [definedPieces, pieces_of_length_lt_two s h]

/-- an undefined piece contributes nothing -/
theorem definedPieces_cons_none (p q : Rat) (w : Val) (r : List (Rat × Val)) :
    definedPieces ((p, none) :: (q, w) :: r) = definedPieces ((q, w) :: r) := by
  simp [definedPieces, pieces_cons_cons]

/-- a defined piece contributes its value and its length -/
theorem definedPieces_cons_some (p x q : Rat) (w : Val) (r : List (Rat × Val)) :
    definedPieces ((p, some x) :: (q, w) :: r) = (x, q - p) :: definedPieces ((q, w) :: r) := by
  simp [definedPieces, pieces_cons_cons]

theorem definedPieces_append (l : List (Rat × Val)) (a : Rat × Val) (r : List (Rat × Val)) :
    definedPieces (l ++ a :: r) = definedPieces (l ++ [a]) ++ definedPieces (a :: r) := by
  simp [definedPieces, pieces_append l a r]

theorem mem_definedPieces_iff (s : List (Rat × Val)) (x len : Rat) :
    (x, len) ∈ definedPieces s ↔ ∃ p q, (p, q, some x) ∈ pieces s ∧ len = q - p := by
  unfold definedPieces
  simp only [List.mem_filterMap]
  constructor
  · rintro ⟨⟨p, q, v⟩, hm, hv⟩
    cases v with
    | none => simp at hv
    | some y =>
      simp only [Option.map_some, Option.some.injEq, Prod.mk.injEq] at hv
      obtain ⟨h1, h2⟩ := hv
      subst h1 h2
      exact ⟨p, q, hm, rfl⟩
  · rintro ⟨p, q, hm, rfl⟩
    exact ⟨(p, q, some x), hm, rfl⟩

/-- in a well-formed list every defined piece has positive length -/
theorem definedPieces_pos (s : List (Rat × Val)) (hs : Sorted s) (vl : Rat × Rat) (h : vl ∈ definedPieces s) :
    0 < vl.2 := by
  obtain ⟨x, len⟩ := vl
  obtain ⟨p, q, hm, rfl⟩ := (mem_definedPieces_iff s x _).mp h
  have := pieces_lt s hs p q _ hm
  show 0 < q - p
  linarith

/-- the value of the last row (the unbounded piece to the right) is irrelevant -/
theorem pieces_last_irrelevant (l : List (Rat × Val)) (p : Rat) (v v' : Val) :
    pieces (l ++ [(p, v)]) = pieces (l ++ [(p, v')]) := by
  induction l with
  | nil => rfl
  | cons b l ih =>
    cases l with
    | nil => rfl
    | cons c l' =>
      simp only [List.cons_append] at ih ⊢
      rw [pieces_cons_cons', pieces_cons_cons', ih]


/-! ## `insertSum` / `valueSums` -/

/-- keys (first components) strictly increasing -/
def KSorted (l : List (Rat × Rat)) : Prop := (l.map Prod.fst).Pairwise (· < ·)

instance (l : List (Rat × Rat)) : Decidable (KSorted l) := by unfold KSorted; infer_instance

/-- total weight attached to the key `k` in a `(key, weight)` list -/
def entry (l : List (Rat × Rat)) (k : Rat) : Rat := sumBy (·.2) (l.filter fun vl => vl.1 = k)

theorem entry_eq_sum (l : List (Rat × Rat)) (k : Rat) :
    entry l k = ((l.filter (·.1 = k)).map (·.2)).sum := rfl

@[simp] theorem entry_nil (k : Rat) : entry [] k = 0 := rfl
theorem entry_cons (a : Rat × Rat) (l : List (Rat × Rat)) (k : Rat) :
    entry (a :: l) k = (if a.1 = k then a.2 else 0) + entry l k := by
  unfold entry
  simp only [List.filter_cons]
  by_cases h : a.1 = k
  · simp [h]
  · simp [h]

theorem entry_append (l₁ l₂ : List (Rat × Rat)) (k : Rat) : entry (l₁ ++ l₂) k = entry l₁ k + entry l₂ k := by
  unfold entry; rw [List.filter_append, sumBy_append]

theorem entry_insertSum (v len : Rat) (l : List (Rat × Rat)) (k : Rat) :
    entry (insertSum v len l) k = entry l k + if v = k then len else 0 := by
  induction l with
  | nil => simp [insertSum, entry_cons]
  | cons a r ih =>
    obtain ⟨w, x⟩ := a
    simp only [insertSum]
    split
    · simp only [entry_cons]; ring
    · split
      · rename_i h1 h2
        subst h2
        simp only [entry_cons]
        by_cases h : v = k
        · simp [h]; ring
        · simp [h]
      · rw [entry_cons, ih, entry_cons]; ring

/-- push-forward of a weighted sum through `insertSum` -/
theorem sumBy_insertSum (g : Rat → Rat) (v len : Rat) (l : List (Rat × Rat)) :
    sumBy (fun vl => g vl.1 * vl.2) (insertSum v len l) = sumBy (fun vl => g vl.1 * vl.2) l + g v * len := by
  induction l with
  | nil => simp [insertSum]
  | cons a r ih =>
    obtain ⟨w, x⟩ := a
    simp only [insertSum]
    split
    · simp only [sumBy_cons]; ring
    · split
      · rename_i h1 h2
        subst h2
        simp only [sumBy_cons]; ring
      · rw [sumBy_cons, ih, sumBy_cons]; ring

theorem keys_insertSum (v len : Rat) (l : List (Rat × Rat)) (k : Rat) :
    k ∈ (insertSum v len l).map Prod.fst ↔ k = v ∨ k ∈ l.map Prod.fst := by
  induction l with
  | nil => simp [insertSum]
  | cons a r ih =>
    obtain ⟨w, x⟩ := a
    simp only [insertSum]
    split
    · simp
    · split
      · rename_i h1 h2
        subst h2
        simp
      · simp only [List.map_cons, List.mem_cons, ih]; tauto

theorem ksorted_insertSum (v len : Rat) (l : List (Rat × Rat)) (hl : KSorted l) : KSorted (insertSum v len l) := by
  induction l with
  | nil => simp [insertSum, KSorted]
  | cons a r ih =>
    obtain ⟨w, x⟩ := a
    unfold KSorted at hl ih ⊢
    simp only [List.map_cons, List.pairwise_cons] at hl
    simp only [insertSum]
    split
    · rename_i h
      simp only [List.map_cons, List.pairwise_cons, List.mem_cons]
      refine ⟨?_, hl.1, hl.2⟩
      rintro k (hk | hk)
      · rw [hk]; exact h
      · exact lt_trans h (hl.1 k hk)
    · split
      · simp only [List.map_cons, List.pairwise_cons]; exact hl
      · rename_i h1 h2
        simp only [List.map_cons, List.pairwise_cons]
        refine ⟨?_, ih hl.2⟩
        intro k hk
        rcases (keys_insertSum v len r k).mp hk with h | h
        · rw [h]; exact lt_of_le_of_ne (not_lt.mp h1) (Ne.symm h2)
        · exact hl.1 k h

/-- inserting twice under the same key adds the lengths: this is why splitting a piece is invisible -/
theorem insertSum_insertSum (v a b : Rat) (l : List (Rat × Rat)) :
    insertSum v b (insertSum v a l) = insertSum v (a + b) l := by
  induction l with
  | nil => simp [insertSum]
  | cons c r ih =>
    obtain ⟨w, x⟩ := c
    simp only [insertSum]
    split
    · simp [insertSum]
    · split
      · rename_i h1 h2
        subst h2
        simp [insertSum]; ring
      · rename_i h1 h2
        simp only [insertSum, if_neg h1, if_neg h2, ih]

/-- the fold behind `valueSums`, from an arbitrary accumulator -/
def vsFold (acc : List (Rat × Rat)) (d : List (Rat × Rat)) : List (Rat × Rat) :=
  d.foldl (fun acc vl => insertSum vl.1 vl.2 acc) acc

theorem valueSums_eq (f : Stairs Rat) : valueSums f = vsFold [] (definedPieces f.steps) := rfl

@[simp] theorem vsFold_nil (acc : List (Rat × Rat)) : vsFold acc [] = acc := rfl
@[simp] theorem vsFold_cons (acc : List (Rat × Rat)) (a : Rat × Rat) (d : List (Rat × Rat)) :
    vsFold acc (a :: d) = vsFold (insertSum a.1 a.2 acc) d := rfl
theorem vsFold_append (acc : List (Rat × Rat)) (d₁ d₂ : List (Rat × Rat)) :
    vsFold acc (d₁ ++ d₂) = vsFold (vsFold acc d₁) d₂ := by
  unfold vsFold; rw [List.foldl_append]

theorem entry_vsFold (acc d : List (Rat × Rat)) (k : Rat) : entry (vsFold acc d) k = entry acc k + entry d k := by
  induction d generalizing acc with
  | nil => simp
  | cons a d ih => rw [vsFold_cons, ih, entry_insertSum, entry_cons]; ring

theorem sumBy_vsFold (g : Rat → Rat) (acc d : List (Rat × Rat)) :
    sumBy (fun vl => g vl.1 * vl.2) (vsFold acc d)
      = sumBy (fun vl => g vl.1 * vl.2) acc + sumBy (fun vl => g vl.1 * vl.2) d := by
  induction d generalizing acc with
  | nil => simp
  | cons a d ih => rw [vsFold_cons, ih, sumBy_insertSum, sumBy_cons]; ring

theorem keys_vsFold (acc d : List (Rat × Rat)) (k : Rat) :
    k ∈ (vsFold acc d).map Prod.fst ↔ k ∈ acc.map Prod.fst ∨ k ∈ d.map Prod.fst := by
  induction d generalizing acc with
  | nil => simp
  | cons a d ih => rw [vsFold_cons, ih, keys_insertSum]; simp only [List.map_cons, List.mem_cons]; tauto

theorem ksorted_vsFold (acc d : List (Rat × Rat)) (h : KSorted acc) : KSorted (vsFold acc d) := by
  induction d generalizing acc with
  | nil => exact h
  | cons a d ih => rw [vsFold_cons]; exact ih _ (ksorted_insertSum _ _ _ h)

theorem ksorted_nil : KSorted [] := by simp [KSorted]

theorem ksorted_tail {a : Rat × Rat} {l : List (Rat × Rat)} (h : KSorted (a :: l)) :
    KSorted l ∧ ∀ k ∈ l.map Prod.fst, a.1 < k := by
  unfold KSorted at h ⊢; simp only [List.map_cons, List.pairwise_cons] at h; exact ⟨h.2, h.1⟩

theorem entry_of_not_mem (l : List (Rat × Rat)) (k : Rat) (h : k ∉ l.map Prod.fst) : entry l k = 0 := by
  induction l with
  | nil => rfl
  | cons a r ih =>
    simp only [List.map_cons, List.mem_cons, not_or] at h
    rw [entry_cons, if_neg (Ne.symm h.1), ih h.2]; ring

/-- with distinct keys, the entry for a key is the weight stored with it -/
theorem entry_of_mem (l : List (Rat × Rat)) (hl : KSorted l) (k x : Rat) (h : (k, x) ∈ l) : entry l k = x := by
  induction l with
  | nil => simp at h
  | cons a r ih =>
    have ht := ksorted_tail hl
    rcases List.mem_cons.mp h with h | h
    · subst h
      rw [entry_cons, if_pos rfl, entry_of_not_mem r k (fun hk => lt_irrefl _ (ht.2 k hk))]; ring
    · have hk : k ∈ r.map Prod.fst := List.mem_map.mpr ⟨(k, x), h, rfl⟩
      rw [entry_cons, if_neg (ne_of_lt (ht.2 k hk)), ih ht.1 h]; ring

theorem sumBy_snd_eq_weight (l : List (Rat × Rat)) :
    sumBy (·.2) l = sumBy (fun vl => (fun _ => (1 : Rat)) vl.1 * vl.2) l := by
  apply sumBy_congr; intro a _; ring


/-! ## splitting a piece -/
section split
variable {P V : Type} [LinearOrder P]

/-- inserting a row that repeats the value to its left does not change the function denoted -/
theorem lim_insert_redundant (st : Bool) (a : V) (l : List (P × V)) (p m : P) (v : V) (t : List (P × V))
    (ht : ∀ k ∈ t.map Prod.fst, m < k) (x : P) :
    lim st a (l ++ (p, v) :: (m, v) :: t) x = lim st a (l ++ (p, v) :: t) x := by
  induction l generalizing a with
  | nil =>
    simp only [List.nil_append, lim_cons]
    cases hp : reached st p x
    · rfl
    · cases hm : reached st m x
      · simp only [if_true, Bool.false_eq_true, if_false]
        exact (lim_before st v t x (fun k hk => lt_of_not_reached hm (ht k hk))).symm
      · rfl
  | cons b l ih =>
    obtain ⟨p0, v0⟩ := b
    simp only [List.cons_append, lim_cons, ih]

theorem sorted_insert_redundant (l : List (P × V)) (p m : P) (v v' : V) (t : List (P × V))
    (hs : Sorted (l ++ (p, v) :: t)) (hpm : p < m) (ht : ∀ k ∈ t.map Prod.fst, m < k) :
    Sorted (l ++ (p, v) :: (m, v') :: t) := by
  unfold Sorted at hs ⊢
  simp only [List.map_append, List.map_cons, List.pairwise_append, List.pairwise_cons, List.mem_cons] at hs ⊢
  obtain ⟨h1, ⟨h2, h3⟩, h4⟩ := hs
  refine ⟨h1, ⟨?_, ht, h3⟩, ?_⟩
  · rintro k (hk | hk)
    · rw [hk]; exact hpm
    · exact h2 k hk
  · rintro k hk b (hb | hb | hb)
    · exact h4 k hk b (Or.inl hb)
    · rw [hb]; exact lt_trans (h4 k hk p (Or.inl rfl)) hpm
    · exact h4 k hk b (Or.inr hb)

end split

theorem definedPieces_unsplit (l : List (Rat × Val)) (p q : Rat) (v w : Val) (r : List (Rat × Val)) :
    definedPieces (l ++ (p, v) :: (q, w) :: r) =
      definedPieces (l ++ [(p, v)]) ++
        ((match v with | none => [] | some x => [(x, q - p)]) ++ definedPieces ((q, w) :: r)) := by
  rw [definedPieces_append]
  cases v with
  | none => rw [definedPieces_cons_none]; rfl
  | some x => rw [definedPieces_cons_some]; rfl

theorem definedPieces_split (l : List (Rat × Val)) (p m q : Rat) (v w : Val) (r : List (Rat × Val)) :
    definedPieces (l ++ (p, v) :: (m, v) :: (q, w) :: r) =
      definedPieces (l ++ [(p, v)]) ++
        ((match v with | none => [] | some x => [(x, m - p), (x, q - m)]) ++ definedPieces ((q, w) :: r)) := by
  rw [definedPieces_append]
  cases v with
  | none => rw [definedPieces_cons_none, definedPieces_cons_none]; rfl
  | some x => rw [definedPieces_cons_some, definedPieces_cons_some]; rfl

theorem vsFold_split (l : List (Rat × Val)) (p m q : Rat) (v w : Val) (r : List (Rat × Val)) :
    vsFold [] (definedPieces (l ++ (p, v) :: (m, v) :: (q, w) :: r))
      = vsFold [] (definedPieces (l ++ (p, v) :: (q, w) :: r)) := by
  rw [definedPieces_split, definedPieces_unsplit]
  cases v with
  | none => rfl
  | some x =>
    simp only [vsFold_append, vsFold_cons, vsFold_nil]
    rw [insertSum_insertSum]
    have : m - p + (q - m) = q - p := by ring
    rw [this]

theorem sumBy_split (g : Rat → Rat) (l : List (Rat × Val)) (p m q : Rat) (v w : Val) (r : List (Rat × Val)) :
    sumBy (fun vl => g vl.1 * vl.2) (definedPieces (l ++ (p, v) :: (m, v) :: (q, w) :: r))
      = sumBy (fun vl => g vl.1 * vl.2) (definedPieces (l ++ (p, v) :: (q, w) :: r)) := by
  rw [definedPieces_split, definedPieces_unsplit]
  cases v with
  | none => rfl
  | some x => simp only [sumBy_append, sumBy_cons, sumBy_nil]; ring

/-! ## shares and second moments -/

theorem shares_eq (f : Stairs Rat) :
    shares f = (valueSums f).map fun vl => (vl.1, vl.2 / sumBy (·.2) (valueSums f)) := rfl

theorem shares_keys (f : Stairs Rat) : (shares f).map Prod.fst = (valueSums f).map Prod.fst := by
  rw [shares_eq, List.map_map]; rfl

theorem sumBy_sq_dev (d : List (Rat × Rat)) (m : Rat) :
    sumBy (fun vl => (vl.1 - m) * (vl.1 - m) * vl.2) d
      = sumBy (fun vl => vl.1 * vl.1 * vl.2) d - 2 * m * sumBy (fun vl => vl.1 * vl.2) d + m * m * sumBy (·.2) d := by
  induction d with
  | nil => simp
  | cons a d ih => simp only [sumBy_cons, ih]; ring


/-! ## the ECDF: `lim` over `cumsum` rows is a filtered sum -/

theorem cumsum_nil (acc : Rat) : cumsum acc [] = [] := rfl
theorem cumsum_cons (acc v s : Rat) (r : List (Rat × Rat)) :
    cumsum acc ((v, s) :: r) = (v, acc + s) :: cumsum (acc + s) r := rfl

theorem cumsum_keys (acc : Rat) (L : List (Rat × Rat)) : (cumsum acc L).map Prod.fst = L.map Prod.fst := by
  induction L generalizing acc with
  | nil => rfl
  | cons a r ih => obtain ⟨v, s⟩ := a; simp [cumsum_cons, ih]

theorem length_cumsum (acc : Rat) (L : List (Rat × Rat)) : (cumsum acc L).length = L.length := by
  have := congrArg List.length (cumsum_keys acc L); simpa using this

theorem lim_cumsum (st : Bool) (acc : Rat) (L : List (Rat × Rat)) (hL : KSorted L) (y : Rat) :
    lim st (some acc) ((cumsum acc L).map fun vc => (vc.1, some vc.2)) y
      = some (acc + sumBy (·.2) (L.filter fun vs => reached st vs.1 y)) := by
  induction L generalizing acc with
  | nil => simp [cumsum_nil]
  | cons a r ih =>
    obtain ⟨v, s⟩ := a
    have ht := ksorted_tail hL
    rw [cumsum_cons, List.map_cons, lim_cons]
    cases hv : reached st v y
    · have hnil : (((v, s) :: r).filter fun vs => reached st vs.1 y) = [] := by
        rw [List.filter_eq_nil_iff]
        intro b hb
        rcases List.mem_cons.mp hb with hb | hb
        · rw [hb]; simp [hv]
        · have hk : v < b.1 := ht.2 b.1 (List.mem_map.mpr ⟨b, hb, rfl⟩)
          intro hr
          have := reached_mono hk hr
          rw [hv] at this; exact absurd this (by simp)
      rw [hnil]; simp
    · rw [if_pos rfl, ih (acc + s) ht.1, List.filter_cons, if_pos hv, sumBy_cons]
      congr 1; ring

theorem ksorted_shares (f : Stairs Rat) : KSorted (shares f) := by
  unfold KSorted; rw [shares_keys]; exact ksorted_vsFold [] _ ksorted_nil

/-- the value of a sorted row list at one of its own step points (right limit) -/
theorem lim_at_key {P V : Type} [LinearOrder P] (a : V) (s : List (P × V)) (hs : Sorted s) (p : P) (w : V)
    (h : (p, w) ∈ s) : lim false a s p = w := by
  induction s generalizing a with
  | nil => simp at h
  | cons b t ih =>
    obtain ⟨q, u⟩ := b
    rcases List.mem_cons.mp h with h | h
    · simp only [Prod.mk.injEq] at h; obtain ⟨h1, h2⟩ := h; subst h1 h2
      exact lim_at_head a p w t hs
    · have hlt : q < p := (sorted_tail hs).2 p (List.mem_map.mpr ⟨(p, w), h, rfl⟩)
      rw [lim_cons, reached_of_lt hlt, if_pos rfl]
      exact ih u (sorted_tail hs).1 h

/-! ## scaling the points of a row list -/

theorem reached_scale (st : Bool) (k : Rat) (hk : 0 < k) (p x : Rat) : reached st (k * p) (k * x) = reached st p x := by
  cases st
  · rw [Bool.eq_iff_iff, reached_right_iff, reached_right_iff]
    exact mul_le_mul_iff_right₀ hk
  · rw [Bool.eq_iff_iff, reached_left_iff, reached_left_iff]
    exact mul_lt_mul_iff_right₀ hk

theorem lim_scale {V : Type} (st : Bool) (k : Rat) (hk : 0 < k) (a : V) (s : List (Rat × V)) (x : Rat) :
    lim st a (s.map fun pv => (k * pv.1, pv.2)) (k * x) = lim st a s x := by
  induction s generalizing a with
  | nil => rfl
  | cons b t ih =>
    obtain ⟨p, v⟩ := b
    simp only [List.map_cons, lim_cons, reached_scale st k hk, ih]

theorem xtileRows_one (scale pp v c : Rat) : xtileRows scale pp [(v, c)] = [(pp, some v), (c * scale, some v)] := rfl
theorem xtileRows_cons_cons (scale pp v c : Rat) (b : Rat × Rat) (r : List (Rat × Rat)) :
    xtileRows scale pp ((v, c) :: b :: r) = (pp, some v) :: xtileRows scale (c * scale) (b :: r) := rfl

theorem xtileRows_scale (k scale pp : Rat) (cs : List (Rat × Rat)) :
    xtileRows (k * scale) (k * pp) cs = (xtileRows scale pp cs).map fun pv => (k * pv.1, pv.2) := by
  induction cs generalizing pp with
  | nil => rfl
  | cons a r ih =>
    obtain ⟨v, c⟩ := a
    cases r with
    | nil =>
      simp only [xtileRows_one, List.map_cons, List.map_nil]
      have : c * (k * scale) = k * (c * scale) := by ring
      rw [this]
    | cons b r' =>
      simp only [xtileRows_cons_cons, List.map_cons]
      have : c * (k * scale) = k * (c * scale) := by ring
      rw [this, ih]

/-- the first value whose (scaled) cumulative share has not been reached at `x`; the last value when all
have been reached (`d` when the list is empty) -/
def firstUnreached (st : Bool) (scale x : Rat) : Rat → List (Rat × Rat) → Rat
  | d, [] => d
  | _, (v, c) :: r => if reached st (c * scale) x then firstUnreached st scale x v r else v

theorem lim_xtileRows (st : Bool) (scale pp v0 : Rat) (a : Rat × Rat) (r : List (Rat × Rat)) (x d : Rat) :
    lim st (some v0) (xtileRows scale pp (a :: r)) x
      = if reached st pp x then some (firstUnreached st scale x d (a :: r)) else some v0 := by
  induction r generalizing pp v0 a d with
  | nil =>
    obtain ⟨v, c⟩ := a
    simp only [xtileRows_one, lim_cons, lim_nil, firstUnreached, ite_self]
  | cons b r' ih =>
    obtain ⟨v, c⟩ := a
    rw [xtileRows_cons_cons, lim_cons, ih (c * scale) v b v]
    cases reached st pp x
    · rfl
    · simp only [if_true, firstUnreached]
      cases reached st (c * scale) x <;> rfl

theorem firstUnreached_append (st : Bool) (scale x d v c : Rat) (l r : List (Rat × Rat))
    (hl : ∀ e ∈ l, reached st (e.2 * scale) x = true) (hc : reached st (c * scale) x = false) :
    firstUnreached st scale x d (l ++ (v, c) :: r) = v := by
  induction l generalizing d with
  | nil => simp [firstUnreached, hc]
  | cons e l ih =>
    obtain ⟨v', c'⟩ := e
    simp only [List.cons_append, firstUnreached, hl (v', c') (by simp), if_true]
    exact ih v' (fun e he => hl e (by simp [he]))

theorem firstUnreached_all (st : Bool) (scale x d v c : Rat) (l : List (Rat × Rat))
    (hl : ∀ e ∈ l ++ [(v, c)], reached st (e.2 * scale) x = true) :
    firstUnreached st scale x d (l ++ [(v, c)]) = v := by
  induction l generalizing d with
  | nil => simp [firstUnreached]
  | cons e l ih =>
    obtain ⟨v', c'⟩ := e
    simp only [List.cons_append, firstUnreached, hl (v', c') (by simp), if_true]
    exact ih v' (fun e he => hl e (by simp at he ⊢; tauto))


/-! ## monotonicity of `cumsum` -/

theorem cumsum_append (acc : Rat) (L₁ L₂ : List (Rat × Rat)) :
    cumsum acc (L₁ ++ L₂) = cumsum acc L₁ ++ cumsum (acc + sumBy (·.2) L₁) L₂ := by
  induction L₁ generalizing acc with
  | nil => simp [cumsum_nil]
  | cons a r ih =>
    obtain ⟨v, s⟩ := a
    simp only [List.cons_append, cumsum_cons, ih, sumBy_cons]
    have : acc + s + sumBy (·.2) r = acc + (s + sumBy (·.2) r) := by ring
    rw [this]

theorem cumsum_le (acc : Rat) (L : List (Rat × Rat)) (hL : ∀ e ∈ L, 0 ≤ e.2) (e : Rat × Rat)
    (he : e ∈ cumsum acc L) : e.2 ≤ acc + sumBy (·.2) L := by
  induction L generalizing acc with
  | nil => simp [cumsum_nil] at he
  | cons a r ih =>
    obtain ⟨v, s⟩ := a
    rw [cumsum_cons] at he
    have hr : 0 ≤ sumBy (·.2) r := sumBy_nonneg _ _ (fun b hb => hL b (by simp [hb]))
    rcases List.mem_cons.mp he with he | he
    · subst he; simp only [sumBy_cons]; linarith
    · have := ih (acc + s) (fun b hb => hL b (by simp [hb])) he
      simp only [sumBy_cons]; linarith

theorem cumsum_gt (acc : Rat) (L : List (Rat × Rat)) (hL : ∀ e ∈ L, 0 < e.2) (e : Rat × Rat)
    (he : e ∈ cumsum acc L) : acc < e.2 := by
  induction L generalizing acc with
  | nil => simp [cumsum_nil] at he
  | cons a r ih =>
    obtain ⟨v, s⟩ := a
    rw [cumsum_cons] at he
    have hs : 0 < s := hL (v, s) (by simp)
    rcases List.mem_cons.mp he with he | he
    · subst he; show acc < acc + s; linarith
    · have := ih (acc + s) (fun b hb => hL b (by simp [hb])) he
      linarith

/-! ## the running maximum behind `modes` -/

def maxLen (l0 : Rat) (r : List (Rat × Rat)) : Rat :=
  r.foldl (fun acc vl => if acc < vl.2 then vl.2 else acc) l0

theorem maxLen_nil (l0 : Rat) : maxLen l0 [] = l0 := rfl
theorem maxLen_cons (l0 : Rat) (a : Rat × Rat) (r : List (Rat × Rat)) :
    maxLen l0 (a :: r) = maxLen (if l0 < a.2 then a.2 else l0) r := rfl

theorem le_maxLen (l0 : Rat) (r : List (Rat × Rat)) : l0 ≤ maxLen l0 r ∧ ∀ vl ∈ r, vl.2 ≤ maxLen l0 r := by
  induction r generalizing l0 with
  | nil => simp [maxLen_nil]
  | cons a r ih =>
    rw [maxLen_cons]
    have h := ih (if l0 < a.2 then a.2 else l0)
    have h1 : l0 ≤ (if l0 < a.2 then a.2 else l0) := by split <;> [exact le_of_lt ‹_›; exact le_refl _]
    have h2 : a.2 ≤ (if l0 < a.2 then a.2 else l0) := by split <;> [exact le_refl _; exact not_lt.mp ‹_›]
    refine ⟨le_trans h1 h.1, ?_⟩
    intro vl hvl
    rcases List.mem_cons.mp hvl with hvl | hvl
    · rw [hvl]; exact le_trans h2 h.1
    · exact h.2 vl hvl

theorem maxLen_attained (l0 : Rat) (r : List (Rat × Rat)) : maxLen l0 r = l0 ∨ ∃ vl ∈ r, vl.2 = maxLen l0 r := by
  induction r generalizing l0 with
  | nil => left; rfl
  | cons a r ih =>
    rw [maxLen_cons]
    rcases ih (if l0 < a.2 then a.2 else l0) with h | ⟨vl, hvl, h⟩
    · split at h
      · right; exact ⟨a, by simp, by rw [if_pos ‹_›]; exact h.symm⟩
      · left; rw [if_neg ‹_›]; exact h
    · right; exact ⟨vl, by simp [hvl], h⟩

theorem modes_eq (f : Stairs Rat) (a : Rat × Rat) (r : List (Rat × Rat)) (h : valueSums f = a :: r) :
    modes f = ((a :: r).filter fun vl => vl.2 = maxLen a.2 r).map (·.1) := by
  unfold modes; simp only; rw [h]; rfl

theorem modes_nil (f : Stairs Rat) (h : valueSums f = []) : modes f = [] := by
  unfold modes; simp only; rw [h]

/-! ## zip of a mapped list with itself -/
theorem zip_map_self {α β : Type} (g : α → β) (l : List α) : (l.map g).zip l = l.map fun a => (g a, a) := by
  induction l with
  | nil => rfl
  | cons a l ih => simp [ih]

end Stairs
end SC
