import SCModel.Lemmas.Fill7b
/-!
# SCModel.Lemmas.Canon12b — list-level facts about `removeRedundant` used by `Props/C12b`

* `c12b_rr_sublist`, `c12b_rr_idem`, `c12b_rr_eq_self_iff`   structure of `removeRedundant`
* `c12b_init_eq_of_lim`   both one-sided limits determine the initial value (any non-empty linear order)
* `c12b_rr_eq_of_lim`, `c12b_rr_eq_of_lim2`   `removeRedundant` is a function of the denotation
* `c12b_rr_append`        `removeRedundant` of a concatenation
* `c12b_rr_length_mono`   fewer rows ⇒ fewer genuine changes
* `c12b_rr_sandwich`      anything between the minimal form and a representation has the same minimal form
* `c12b_mem_iff_jump`     the step points of a sorted minimal list are exactly the discontinuities
* `c12b_rr_bfill_rr`      backward fill only sees the minimal form (cf. `f7b_rr_ffill_rr` for forward fill)
-/
set_option linter.unusedSectionVars false
namespace SC
variable {P V W : Type} [LinearOrder P]

section rr
variable [DecidableEq V]

/-- canonicalisation only deletes rows -/
theorem c12b_rr_sublist (a : V) (s : List (P × V)) : (removeRedundant a s).Sublist s := by
  induction s generalizing a with
  | nil => exact List.Sublist.slnil
  | cons pv r ih =>
    obtain ⟨p, v⟩ := pv
    simp only [removeRedundant]
    split
    · exact (ih a).cons _
    · exact (ih v).cons_cons _

theorem c12b_rr_length_le (a : V) (s : List (P × V)) : (removeRedundant a s).length ≤ s.length :=
  (c12b_rr_sublist a s).length_le

/-- canonicalisation is idempotent -/
theorem c12b_rr_idem (a : V) (s : List (P × V)) :
    removeRedundant a (removeRedundant a s) = removeRedundant a s :=
  removeRedundant_of_minimal a _ (minimal_removeRedundant a s)

/-- … and its fixed points are exactly the minimal lists -/
theorem c12b_rr_eq_self_iff (a : V) (s : List (P × V)) : removeRedundant a s = s ↔ Minimal a s :=
  ⟨fun h => h ▸ minimal_removeRedundant a s, removeRedundant_of_minimal a s⟩

/-- a list is minimal iff canonicalisation keeps its length -/
theorem c12b_rr_length_eq_iff (a : V) (s : List (P × V)) :
    (removeRedundant a s).length = s.length ↔ Minimal a s := by
  constructor
  · intro h
    exact (c12b_rr_eq_self_iff a s).mp ((c12b_rr_sublist a s).eq_of_length h)
  · intro h; rw [removeRedundant_of_minimal a s h]

/-- the value on the unbounded right piece (`a` when there are no rows) -/
def c12bEnd : V → List (P × V) → V
  | a, [] => a
  | _, (_, v) :: r => c12bEnd v r

theorem c12b_end_rr (a : V) (s : List (P × V)) : c12bEnd a (removeRedundant a s) = c12bEnd a s := by
  induction s generalizing a with
  | nil => rfl
  | cons pv r ih =>
    obtain ⟨p, v⟩ := pv
    simp only [removeRedundant]
    split
    · rename_i h; subst h; exact ih v
    · exact ih v

/-- **`removeRedundant` of a concatenation**: canonicalise the first part, then the second part starting
from the last value of the first -/
theorem c12b_rr_append (a : V) (s t : List (P × V)) :
    removeRedundant a (s ++ t) = removeRedundant a s ++ removeRedundant (c12bEnd a s) t := by
  induction s generalizing a with
  | nil => rfl
  | cons pv r ih =>
    obtain ⟨p, v⟩ := pv
    simp only [List.cons_append, removeRedundant, c12bEnd]
    split
    · rename_i h; subst h; exact ih v
    · rw [ih v]; rfl

/-- changing the initial value changes the number of genuine changes by at most one -/
theorem c12b_rr_length_init (a b : V) (s : List (P × V)) :
    (removeRedundant a s).length ≤ (removeRedundant b s).length + 1 := by
  cases s with
  | nil => simp [removeRedundant]
  | cons pv r =>
    obtain ⟨p, v⟩ := pv
    simp only [removeRedundant]
    by_cases h1 : v = a <;> by_cases h2 : v = b
    · rw [if_pos h1, if_pos h2, ← h1, ← h2]; omega
    · rw [if_pos h1, if_neg h2, ← h1]; simp only [List.length_cons]; omega
    · rw [if_neg h1, if_pos h2, ← h2]; simp only [List.length_cons]; omega
    · rw [if_neg h1, if_neg h2]; simp only [List.length_cons]; omega

/-- **monotonicity**: a sub-list of rows has at most as many genuine changes -/
theorem c12b_rr_length_mono {s t : List (P × V)} (h : s.Sublist t) (a : V) :
    (removeRedundant a s).length ≤ (removeRedundant a t).length := by
  induction h generalizing a with
  | slnil => exact Nat.le_refl _
  | @cons s' t' x _ ih =>
    obtain ⟨p, v⟩ := x
    simp only [removeRedundant]
    split
    · exact ih a
    · simp only [List.length_cons]
      exact Nat.le_trans (c12b_rr_length_init a v s') (Nat.add_le_add_right (ih v) 1)
  | @cons_cons s' t' x _ ih =>
    obtain ⟨p, v⟩ := x
    simp only [removeRedundant]
    split
    · exact ih a
    · simp only [List.length_cons]; exact Nat.add_le_add_right (ih v) 1

/-- the first row of a minimal form differs from the initial value -/
theorem c12b_rr_head_ne (a : V) (s : List (P × V)) (p : P) (r : List (P × V)) :
    removeRedundant a s ≠ (p, a) :: r := by
  intro h
  have := minimal_removeRedundant a s
  rw [h] at this
  exact this.1 rfl

/-- **sandwich**: a row list between the minimal form of `t` and `t` itself has the same minimal form -/
theorem c12b_rr_sandwich (t : List (P × V)) (ht : Sorted t) : ∀ (a : V) (s : List (P × V)),
    (removeRedundant a t).Sublist s → s.Sublist t → removeRedundant a s = removeRedundant a t := by
  induction t with
  | nil =>
    intro a s _ h2
    rw [List.sublist_nil.mp h2]
  | cons qw t' ih =>
    obtain ⟨q, w⟩ := qw
    intro a s h1 h2
    have ht' := sorted_tail ht
    by_cases hwa : w = a
    · subst hwa
      simp only [removeRedundant, if_true] at h1 ⊢
      cases h2 with
      | cons _ h2' => exact ih ht'.1 w s h1 h2'
      | @cons_cons s' _ _ h2' =>
        simp only [removeRedundant, if_true]
        refine ih ht'.1 w s' ?_ h2'
        cases hrr : removeRedundant w t' with
        | nil => exact List.nil_sublist _
        | cons y ys =>
          rw [hrr] at h1
          rcases List.sublist_cons_iff.mp h1 with h | ⟨r, hr, h⟩
          · exact h
          · exfalso
            have : y = (q, w) := by
              have := List.cons.inj hr; exact this.1
            exact c12b_rr_head_ne w t' q ys (by rw [hrr, this])
    · simp only [removeRedundant, if_neg hwa] at h1 ⊢
      cases h2 with
      | cons _ h2' =>
        exfalso
        have hmem : (q, w) ∈ t' := h2'.subset (h1.subset (by simp))
        have : q < q := ht'.2 q (List.mem_map.mpr ⟨(q, w), hmem, rfl⟩)
        exact lt_irrefl _ this
      | @cons_cons s' _ _ h2' =>
        simp only [removeRedundant, if_neg hwa]
        rw [ih ht'.1 w s' (List.cons_sublist_cons.mp h1) h2']

end rr

/-! ## the denotation determines the minimal form -/

/-- the left limit at or before the first step point is the initial value (no sortedness needed) -/
theorem c12b_lim_left_head (c : V) (p : P) (v : V) (r : List (P × V)) (x : P) (hx : x ≤ p) :
    lim true c ((p, v) :: r) x = c := by
  rw [lim_cons]
  have : reached true p x = false := by simp [reached, not_lt.mpr hx]
  rw [this]; rfl

/-- both one-sided limits determine the initial value: look at the left limit at the first step point
(any non-empty linear order; with right limits alone one needs `NoMinOrder`, see `canonical_unique`) -/
theorem c12b_init_eq_of_lim [Nonempty P] (a b : V) (s t : List (P × V))
    (h : ∀ st x, lim st a s x = lim st b t x) : a = b := by
  cases s with
  | nil =>
    cases t with
    | nil => exact h true (Classical.arbitrary P)
    | cons qw t' =>
      obtain ⟨q, w⟩ := qw
      have := h true q
      rwa [c12b_lim_left_head b q w t' q (le_refl _)] at this
  | cons pv s' =>
    obtain ⟨p, v⟩ := pv
    cases t with
    | nil =>
      have := h true p
      rwa [c12b_lim_left_head a p v s' p (le_refl _)] at this
    | cons qw t' =>
      obtain ⟨q, w⟩ := qw
      have := h true (min p q)
      rwa [c12b_lim_left_head a p v s' _ (min_le_left _ _),
           c12b_lim_left_head b q w t' _ (min_le_right _ _)] at this

section den
variable [DecidableEq V]

/-- **`removeRedundant` is a function of the denotation** (same initial value; any linear order): two sorted
row lists with the same right limits have the same minimal form -/
theorem c12b_rr_eq_of_lim (a : V) (s t : List (P × V)) (hs : Sorted s) (ht : Sorted t)
    (h : ∀ x, lim false a s x = lim false a t x) : removeRedundant a s = removeRedundant a t :=
  f7b_steps_unique _ _ a (sorted_removeRedundant a s hs) (sorted_removeRedundant a t ht)
    (minimal_removeRedundant a s) (minimal_removeRedundant a t)
    (fun x => by rw [lim_removeRedundant false a s hs, lim_removeRedundant false a t ht, h x])

/-- … with possibly different initial values, when both one-sided limits agree (non-empty linear order) -/
theorem c12b_rr_eq_of_lim2 [Nonempty P] (a b : V) (s t : List (P × V)) (hs : Sorted s) (ht : Sorted t)
    (h : ∀ st x, lim st a s x = lim st b t x) : a = b ∧ removeRedundant a s = removeRedundant b t := by
  have hab := c12b_init_eq_of_lim a b s t h
  subst hab
  exact ⟨rfl, c12b_rr_eq_of_lim a s t hs ht (h false)⟩

/-- … or when the right limits agree and the order has no least element -/
theorem c12b_rr_eq_of_lim_noMin [NoMinOrder P] [Nonempty P] (a b : V) (s t : List (P × V)) (hs : Sorted s)
    (ht : Sorted t) (h : ∀ x, lim false a s x = lim false b t x) :
    a = b ∧ removeRedundant a s = removeRedundant b t :=
  canonical_unique _ _ a b (sorted_removeRedundant a s hs) (sorted_removeRedundant b t ht)
    (minimal_removeRedundant a s) (minimal_removeRedundant b t)
    (fun x => by rw [lim_removeRedundant false a s hs, lim_removeRedundant false b t ht, h x])

/-- **the step points of a sorted minimal list are exactly the points of discontinuity** -/
theorem c12b_mem_iff_jump (s : List (P × V)) : ∀ (a : V), Sorted s → Minimal a s → ∀ x,
    (x ∈ s.map Prod.fst ↔ lim true a s x ≠ lim false a s x) := by
  induction s with
  | nil => intro a _ _ x; simp
  | cons pv r ih =>
    obtain ⟨p, v⟩ := pv
    intro a hs hm x
    have hr := sorted_tail hs
    rcases lt_trichotomy x p with hlt | heq | hgt
    · rw [lim_cons, lim_cons, not_reached_of_lt hlt, not_reached_of_lt hlt]
      simp only [List.map_cons, List.mem_cons, Bool.false_eq_true, if_false, ne_eq, not_true_eq_false,
        iff_false, not_or]
      exact ⟨ne_of_lt hlt, fun h => lt_asymm hlt (hr.2 x h)⟩
    · subst heq
      rw [c12b_lim_left_head a x v r x (le_refl _), lim_at_head a x v r hs]
      simp only [List.map_cons, List.mem_cons, true_or, true_iff]
      exact fun h => hm.1 h.symm
    · rw [lim_cons, lim_cons, reached_of_lt hgt, reached_of_lt hgt]
      simp only [if_true, List.map_cons, List.mem_cons]
      rw [← ih v hr.1 hm.2 x]
      constructor
      · rintro (h | h)
        · exact absurd h (ne_of_gt hgt)
        · exact h
      · exact Or.inr

end den

/-! ## backward fill only sees the minimal form -/
namespace Stairs

/-- canonicalising before backward filling does not matter -/
theorem c12b_rr_bfill_rr (s : List (P × Val)) : ∀ a : Val,
    removeRedundant (fillOp a (firstSome s)) (bfillSteps (removeRedundant a s))
      = removeRedundant (fillOp a (firstSome s)) (bfillSteps s) := by
  induction s with
  | nil => intro a; rfl
  | cons pv r ih =>
    obtain ⟨p, v⟩ := pv
    intro a
    by_cases hva : v = a
    · subst hva
      have hI : fillOp v (firstSome ((p, v) :: r)) = fillOp v (firstSome r) := by
        show fillOp v (fillOp v (firstSome r)) = _
        rw [← f7b_fillOp_assoc, f7b_fillOp_self]
      rw [hI, bfillSteps_cons, firstVal_bfillSteps]
      simp only [removeRedundant, if_true]
      exact ih v
    · simp only [removeRedundant, if_neg hva]
      rw [bfillSteps_cons, bfillSteps_cons, firstVal_bfillSteps, firstVal_bfillSteps,
        f7b_firstSome_removeRedundant v r]
      simp only [removeRedundant]
      by_cases hw : fillOp v (firstSome r) = fillOp a (firstSome ((p, v) :: r))
      · rw [if_pos hw, if_pos hw, ← hw]; exact ih v
      · rw [if_neg hw, if_neg hw, ih v]

end Stairs

end SC
