import SCModel.Lemmas.Den
/-!
# SCModel.Lemmas.Pointwise — every checked two-operand operation is pointwise (or a closed mismatch)
-/
set_option linter.unusedSectionVars false
namespace SC
namespace Stairs
variable {P : Type} [LinearOrder P]

/-- both operands have steps and their closed sides differ -/
def Mismatch (f g : Stairs P) : Prop := f.hasSteps = true ∧ g.hasSteps = true ∧ f.closed ≠ g.closed

instance (f g : Stairs P) : Decidable (Mismatch f g) := by unfold Mismatch; infer_instance

/-- the closed side a two-operand result gets when there is no mismatch -/
def sideOf (f g : Stairs P) : Side :=
  if f.hasSteps then f.closed else if g.hasSteps then g.closed else f.closed

theorem closedFor_eq (f g : Stairs P) :
    closedFor f g = if Mismatch f g then .error .closedMismatch else .ok (sideOf f g) := by
  unfold closedFor Mismatch sideOf
  by_cases h1 : f.hasSteps = true <;> by_cases h2 : g.hasSteps = true <;> by_cases h3 : f.closed = g.closed <;>
    simp [h1, h2, h3]

theorem combineChecked_eq (op : Val → Val → Val) (f g : Stairs P) :
    combineChecked op f g =
      if Mismatch f g then .error .closedMismatch else .ok (combine op f g (sideOf f g)) := by
  unfold combineChecked
  rw [closedFor_eq]
  split <;> rfl

/-- **error iff mismatch** -/
theorem combineChecked_error_iff (op : Val → Val → Val) (f g : Stairs P) :
    combineChecked op f g = .error .closedMismatch ↔ Mismatch f g := by
  rw [combineChecked_eq]; split <;> simp_all

/-- no other error is possible -/
theorem combineChecked_error_only (op : Val → Val → Val) (f g : Stairs P) (e : Err)
    (h : combineChecked op f g = .error e) : e = .closedMismatch := by
  rw [combineChecked_eq] at h; split at h <;> simp_all

/-- **success ⇒ pointwise, canonical, with the side of the operand that has steps** -/
theorem combineChecked_ok (op : Val → Val → Val) (f g h : Stairs P) (hf : f.WF) (hg : g.WF)
    (hres : combineChecked op f g = .ok h) :
    h.Canonical ∧ h.closed = sideOf f g ∧ ∀ st x, Den h st x = op (Den f st x) (Den g st x) := by
  rw [combineChecked_eq] at hres
  split at hres
  · cases hres
  · injection hres with hres; subst hres
    exact ⟨canonical_combine op f g _ hf hg, rfl, fun st x => den_combine op f g _ hf hg st x⟩

/-- **totality**: without a mismatch the operation succeeds -/
theorem combineChecked_total (op : Val → Val → Val) (f g : Stairs P) (h : ¬ Mismatch f g) :
    combineChecked op f g = .ok (combine op f g (sideOf f g)) := by
  rw [combineChecked_eq, if_neg h]

theorem not_mismatch_of_closed_eq (f g : Stairs P) (h : f.closed = g.closed) : ¬ Mismatch f g :=
  fun m => m.2.2 h
theorem not_mismatch_const_right (f : Stairs P) (c : Val) (cl : Side) : ¬ Mismatch f (const c cl) :=
  fun m => by have := m.2.1; simp [hasSteps, const] at this
theorem not_mismatch_const_left (g : Stairs P) (c : Val) (cl : Side) : ¬ Mismatch (const c cl) g :=
  fun m => by have := m.1; simp [hasSteps, const] at this

end Stairs
end SC
