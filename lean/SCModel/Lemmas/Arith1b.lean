import SCModel.Lemmas.Algebra4b
import Mathlib.Data.List.Perm.Basic
/-!
# SCModel.Lemmas.Arith1b — one-point lemmas for `Props/C01b` (arithmetic in depth)

Everything is about `Val = Option Rat` (`none` = undefined) and holds for *all* values, i.e. the lemmas say
what happens on undefined regions and on zero divisors as well.
-/
set_option linter.unusedSectionVars false
set_option linter.unusedSimpArgs false
namespace SC

local notation "vzero" => g4b_vzero
local notation "vone" => g4b_vone
local notation "vneg" => UnOp.eval UnOp.neg

/-- unfold the arithmetic one-point operators -/
macro "r1b_unfold" : tactic => `(tactic|
  simp [vadd, vsub, vmul, vdiv, vlift2, UnOp.eval, maskOp, whereOp, g4b_vzero, g4b_vone])

/-! ## 1. division -/

/-- `a / b` is undefined exactly where an operand is undefined or the divisor is zero -/
theorem r1b_v_div_none_iff (a b : Val) : vdiv a b = none ↔ a = none ∨ b = none ∨ b = some 0 := by
  cases a <;> cases b <;> simp [vdiv]

/-- `a / b` is defined exactly where both are defined and the divisor is non-zero; the value is the quotient -/
theorem r1b_v_div_some_iff (a b : Val) (q : Rat) :
    vdiv a b = some q ↔ ∃ x y, a = some x ∧ b = some y ∧ y ≠ 0 ∧ q = x / y := by
  cases a <;> cases b <;> simp [vdiv]
  rename_i x y
  by_cases hy : y = 0 <;> simp [hy, eq_comm]

/-- the reciprocal `1 / a` -/
def r1b_vinv (a : Val) : Val := vdiv (some 1) a

theorem r1b_v_div_eq_mul_inv (a b : Val) : vdiv a b = vmul a (vdiv (some 1) b) := by
  cases a <;> cases b <;> try r1b_unfold
  rename_i x y; by_cases hy : y = 0 <;> simp [hy, div_eq_mul_inv]

/-- `1 / (1 / a)` is `a` exactly where `a` is defined and non-zero: `a.where(a)` -/
theorem r1b_v_inv_inv (a : Val) : vdiv (some 1) (vdiv (some 1) a) = whereOp a a := by
  cases a <;> try r1b_unfold
  rename_i x; by_cases hx : x = 0 <;> simp [hx]

theorem r1b_v_div_div (a b c : Val) : vdiv (vdiv a b) c = vdiv a (vmul b c) := by
  cases a <;> cases b <;> cases c <;> try r1b_unfold
  rename_i x y z
  by_cases hy : y = 0 <;> by_cases hz : z = 0 <;> simp [hy, hz, div_div]

/-- dividing by a quotient: `a / (b / c) = (a * c) / b` **only where `c ≠ 0`** -/
theorem r1b_v_div_div_right (a b c : Val) : vdiv a (vdiv b c) = whereOp (vdiv (vmul a c) b) c := by
  cases a <;> cases b <;> cases c <;> try r1b_unfold
  rename_i x y z
  by_cases hy : y = 0 <;> by_cases hz : z = 0 <;> simp [hy, hz]
  field_simp

theorem r1b_v_inv_mul (a b : Val) :
    vdiv (some 1) (vmul a b) = vmul (vdiv (some 1) a) (vdiv (some 1) b) := by
  cases a <;> cases b <;> try r1b_unfold
  rename_i x y
  by_cases hx : x = 0 <;> by_cases hy : y = 0 <;> simp [hx, hy, mul_comm]

/-- `0 / a` is 0 exactly where `a` is defined and non-zero -/
theorem r1b_v_zero_div (a : Val) : vdiv (some 0) a = vzero (whereOp a a) := by
  cases a <;> try r1b_unfold
  rename_i x; by_cases hx : x = 0 <;> simp [hx]

theorem r1b_v_add_div (a b c : Val) : vadd (vdiv a c) (vdiv b c) = vdiv (vadd a b) c := by
  cases a <;> cases b <;> cases c <;> try r1b_unfold
  all_goals (rename_i z; by_cases hz : z = 0 <;> simp [hz, add_div])

theorem r1b_v_sub_div (a b c : Val) : vsub (vdiv a c) (vdiv b c) = vdiv (vsub a b) c := by
  cases a <;> cases b <;> cases c <;> try r1b_unfold
  all_goals (rename_i z; by_cases hz : z = 0 <;> simp [hz, sub_div])

/-- adding fractions with different denominators -/
theorem r1b_v_div_add_div (a b c d : Val) :
    vadd (vdiv a b) (vdiv c d) = vdiv (vadd (vmul a d) (vmul c b)) (vmul b d) := by
  cases a <;> cases b <;> cases c <;> cases d <;> try r1b_unfold
  rename_i x y z w
  by_cases hy : y = 0 <;> by_cases hw : w = 0 <;> simp [hy, hw]
  field_simp

theorem r1b_v_mul_div_assoc (a b c : Val) : vdiv (vmul a b) c = vmul a (vdiv b c) := by
  cases a <;> cases b <;> cases c <;> try r1b_unfold
  all_goals (rename_i z; by_cases hz : z = 0 <;> simp [hz, mul_div_assoc])

theorem r1b_v_div_mul_div (a b c d : Val) :
    vmul (vdiv a b) (vdiv c d) = vdiv (vmul a c) (vmul b d) := by
  cases a <;> cases b <;> cases c <;> cases d <;> try r1b_unfold
  rename_i x y z w
  by_cases hy : y = 0 <;> by_cases hw : w = 0 <;> simp [hy, hw, div_mul_div_comm]

theorem r1b_v_neg_div (a b : Val) : vdiv (vneg a) b = vneg (vdiv a b) := by
  cases a <;> cases b <;> try r1b_unfold
  rename_i x y; by_cases hy : y = 0 <;> simp [hy, neg_div]
theorem r1b_v_div_neg (a b : Val) : vdiv a (vneg b) = vneg (vdiv a b) := by
  cases a <;> cases b <;> try r1b_unfold
  rename_i x y; by_cases hy : y = 0 <;> simp [hy, div_neg]

/-- a real non-zero scalar divisor is a scalar factor -/
theorem r1b_v_div_scalar (a : Val) (c : Rat) (hc : c ≠ 0) : vdiv a (some c) = vmul a (some (1 / c)) := by
  cases a <;> try r1b_unfold
  simp [hc, div_eq_mul_inv]
theorem r1b_v_div_zero (a : Val) : vdiv a (some 0) = none := by cases a <;> simp [vdiv]
theorem r1b_v_div_nan (a : Val) : vdiv a none = none := by cases a <;> simp [vdiv]
theorem r1b_v_nan_div (a : Val) : vdiv none a = none := by simp [vdiv]

/-- where the quotient is defined, multiplying back by the divisor gives the numerator -/
theorem r1b_v_div_mul_back (a b : Val) (q : Rat) (h : vdiv a b = some q) :
    ∃ x y, a = some x ∧ b = some y ∧ y ≠ 0 ∧ q * y = x := by
  obtain ⟨x, y, rfl, rfl, hy, rfl⟩ := (r1b_v_div_some_iff a b q).mp h
  exact ⟨x, y, rfl, rfl, hy, by field_simp⟩

/-! ## 2. NaN scalars / absorbing elements -/

theorem r1b_v_arith_nan_right (o : BinOp) (ho : o = .add ∨ o = .sub ∨ o = .mul ∨ o = .div) (a : Val) :
    o.eval a none = none := by
  rcases ho with rfl | rfl | rfl | rfl <;> cases a <;> simp [BinOp.eval, vadd, vsub, vmul, vdiv, vlift2]
theorem r1b_v_arith_nan_left (o : BinOp) (ho : o = .add ∨ o = .sub ∨ o = .mul ∨ o = .div) (a : Val) :
    o.eval none a = none := by
  rcases ho with rfl | rfl | rfl | rfl <;> simp [BinOp.eval, vadd, vsub, vmul, vdiv, vlift2]

/-! ## 3. scalar re-association -/

theorem r1b_v_sub_sub (a b c : Val) : vsub (vsub a b) c = vsub a (vadd b c) := by
  cases a <;> cases b <;> cases c <;> try r1b_unfold
  rename_i x y z; ring
theorem r1b_v_add_mul (a b c : Val) : vmul (vadd a b) c = vadd (vmul a c) (vmul b c) := by
  cases a <;> cases b <;> cases c <;> try r1b_unfold
  rename_i x y z; ring
theorem r1b_v_sub_mul (a b c : Val) : vmul (vsub a b) c = vsub (vmul a c) (vmul b c) := by
  cases a <;> cases b <;> cases c <;> try r1b_unfold
  rename_i x y z; ring
theorem r1b_v_mul_add (a b c : Val) : vmul a (vadd b c) = vadd (vmul a b) (vmul a c) := by
  cases a <;> cases b <;> cases c <;> try r1b_unfold
  rename_i x y z; ring
theorem r1b_v_add_comm (a b : Val) : vadd a b = vadd b a := by
  cases a <;> cases b <;> try r1b_unfold
  rename_i x y; ring
theorem r1b_v_mul_comm (a b : Val) : vmul a b = vmul b a := by
  cases a <;> cases b <;> try r1b_unfold
  rename_i x y; ring
theorem r1b_v_add_assoc (a b c : Val) : vadd (vadd a b) c = vadd a (vadd b c) := by
  cases a <;> cases b <;> cases c <;> try r1b_unfold
  rename_i x y z; ring
theorem r1b_v_mul_assoc (a b c : Val) : vmul (vmul a b) c = vmul a (vmul b c) := by
  cases a <;> cases b <;> cases c <;> try r1b_unfold
  rename_i x y z; ring
theorem r1b_v_add_sub_assoc (a b c : Val) : vsub (vadd a b) c = vadd a (vsub b c) := by
  cases a <;> cases b <;> cases c <;> try r1b_unfold
  rename_i x y z; ring
/-- `(a + b) * 0` is 0 where both are defined -/
theorem r1b_v_add_mul_zero (a b : Val) : vmul (vadd a b) (some 0) = vzero (vadd a b) := by
  cases a <;> cases b <;> r1b_unfold
theorem r1b_v_vzero_add_some (a : Val) (c : Rat) : vzero (vadd a (some c)) = vzero a := by
  cases a <;> r1b_unfold
theorem r1b_v_vzero_mul_some (a : Val) (c : Rat) : vzero (vmul a (some c)) = vzero a := by
  cases a <;> r1b_unfold

/-! ## 4. folds of a commutative, associative operator depend only on the multiset of operands -/

section fold
variable {α : Type} (op : α → α → α)

theorem r1b_foldl_swap_head (hc : ∀ a b, op a b = op b a) (a b : α) (l : List α) :
    l.foldl op (op a b) = l.foldl op (op b a) := by rw [hc]

theorem r1b_foldl_perm_same (hc : ∀ a b, op a b = op b a) (ha : ∀ a b c, op (op a b) c = op a (op b c))
    (l l' : List α) (hp : l.Perm l') (a : α) : l.foldl op a = l'.foldl op a := by
  induction hp generalizing a with
  | nil => rfl
  | cons x _ ih => exact ih (op a x)
  | swap x y l =>
    simp only [List.foldl_cons]
    rw [ha, ha, hc y x]
  | trans _ _ ih1 ih2 => exact (ih1 a).trans (ih2 a)

/-- the head may take part in the permutation -/
theorem r1b_foldl_perm (hc : ∀ a b, op a b = op b a) (ha : ∀ a b c, op (op a b) c = op a (op b c))
    (a a' : α) (l l' : List α) (hp : (a :: l).Perm (a' :: l')) : l.foldl op a = l'.foldl op a' := by
  by_cases h : a = a'
  · subst h; exact r1b_foldl_perm_same op hc ha l l' (List.Perm.cons_inv hp) a
  · have hmem : a' ∈ a :: l := hp.symm.subset (by simp)
    have hmem' : a' ∈ l := by
      rcases List.mem_cons.mp hmem with e | e
      · exact absurd e.symm h
      · exact e
    obtain ⟨s, t, rfl⟩ := List.append_of_mem hmem'
    have h1 : (s ++ a' :: t).Perm (a' :: (s ++ t)) := List.perm_middle
    have q1 : (a :: a' :: (s ++ t)).Perm (a' :: l') := (List.Perm.cons a h1).symm.trans hp
    have h2 : (a' :: a :: (s ++ t)).Perm (a' :: l') := (List.Perm.swap a a' (s ++ t)).trans q1
    have h3 : (a :: (s ++ t)).Perm l' := List.Perm.cons_inv h2
    rw [r1b_foldl_perm_same op hc ha _ _ h1 a]
    simp only [List.foldl_cons]
    rw [hc a a']
    rw [← r1b_foldl_perm_same op hc ha _ _ h3 a']
    rfl

end fold

/-- scalar factor through a fold of `+` -/
theorem r1b_vmul_foldl_vadd (k a : Val) (l : List Val) :
    vmul k (l.foldl vadd a) = (l.map (vmul k)).foldl vadd (vmul k a) := by
  induction l generalizing a with
  | nil => rfl
  | cons b r ih => simp only [List.foldl_cons, List.map_cons]; rw [ih, r1b_v_mul_add]

/-! ## 5. order at one point -/

/-- `a ≤ b` wherever both are defined -/
def r1b_vle (a b : Val) : Prop := ∀ x y, a = some x → b = some y → x ≤ y

theorem r1b_vle_add_right (a b c : Val) (h : r1b_vle a b) : r1b_vle (vadd a c) (vadd b c) := by
  cases a <;> cases b <;> cases c <;> simp [r1b_vle, vadd, vlift2] at h ⊢
  exact h
theorem r1b_vle_add_left (a b c : Val) (h : r1b_vle a b) : r1b_vle (vadd c a) (vadd c b) := by
  rw [r1b_v_add_comm c a, r1b_v_add_comm c b]; exact r1b_vle_add_right a b c h
theorem r1b_vle_sub_right (a b c : Val) (h : r1b_vle a b) : r1b_vle (vsub a c) (vsub b c) := by
  cases a <;> cases b <;> cases c <;> simp [r1b_vle, vsub, vlift2] at h ⊢
  exact h
theorem r1b_vle_sub_left (a b c : Val) (h : r1b_vle a b) : r1b_vle (vsub c b) (vsub c a) := by
  cases a <;> cases b <;> cases c <;> simp [r1b_vle, vsub, vlift2] at h ⊢
  linarith
theorem r1b_vle_neg (a b : Val) (h : r1b_vle a b) : r1b_vle (vneg b) (vneg a) := by
  cases a <;> cases b <;> simp [r1b_vle, UnOp.eval] at h ⊢
  exact h
/-- multiplying by a function that is non-negative where defined keeps the order -/
theorem r1b_vle_mul_nonneg (a b c : Val) (h : r1b_vle a b) (hc : ∀ z, c = some z → 0 ≤ z) :
    r1b_vle (vmul a c) (vmul b c) := by
  cases a <;> cases b <;> cases c <;> simp [r1b_vle, vmul, vlift2] at h hc ⊢
  exact mul_le_mul_of_nonneg_right h hc
theorem r1b_vle_mul_nonpos (a b c : Val) (h : r1b_vle a b) (hc : ∀ z, c = some z → z ≤ 0) :
    r1b_vle (vmul b c) (vmul a c) := by
  cases a <;> cases b <;> cases c <;> simp [r1b_vle, vmul, vlift2] at h hc ⊢
  exact mul_le_mul_of_nonpos_right h hc
theorem r1b_vle_div_pos (a b c : Val) (h : r1b_vle a b) (hc : ∀ z, c = some z → 0 ≤ z) :
    r1b_vle (vdiv a c) (vdiv b c) := by
  intro p q hp hq
  obtain ⟨x, z, rfl, rfl, hz, rfl⟩ := (r1b_v_div_some_iff a c p).mp hp
  obtain ⟨y, z', rfl, hz', _, rfl⟩ := (r1b_v_div_some_iff b (some z) q).mp hq
  cases hz'
  exact div_le_div_of_nonneg_right (h x y rfl rfl) (hc z rfl)
theorem r1b_v_mul_self_nonneg (a : Val) (q : Rat) (h : vmul a a = some q) : 0 ≤ q := by
  cases a <;> simp [vmul, vlift2] at h
  rw [← h]; exact mul_self_nonneg _
theorem r1b_v_mul_self_eq_zero (a : Val) : vmul a a = some 0 ↔ a = some 0 := by
  cases a <;> simp [vmul, vlift2]
/-- `a ≤ b` where both defined, expressed by the relational operator: `(a <= b)` is never 0 -/
theorem r1b_vle_iff_rel (a b : Val) : r1b_vle a b ↔ vrel .le a b ≠ some 0 := by
  cases a <;> cases b <;> simp [r1b_vle, vrel, Rel.eval, b2r]
theorem r1b_vle_refl (a : Val) : r1b_vle a a := by
  intro x y hx hy; rw [hx] at hy; cases hy; exact le_refl _
/-- transitivity needs the middle value to be defined -/
theorem r1b_vle_trans (a b c : Val) (hb : b ≠ none) (h1 : r1b_vle a b) (h2 : r1b_vle b c) : r1b_vle a c := by
  cases b with
  | none => exact absurd rfl hb
  | some y => intro x z hx hz; exact le_trans (h1 x y hx rfl) (h2 y z rfl hz)

end SC
