import SCModel.Lemmas.Agg18b
import SCModel.Lemmas.Masking
/-!
# SCModel.Lemmas.Agg18c — relations between the one-point reductions behind `aggregate`, the closed side of a
collection, and the plumbing that lifts a one-point identity to an equality of aggregated objects

Helper lemmas for `Props/C18c`:
* `a18c_eval_mean_eq_sum_div`, `a18c_eval_sum_replicate`, `a18c_eval_replicate`   mean = sum / n, n copies
* `a18c_eval_max_neg`, `a18c_eval_min_neg`, `a18c_eval_or_deMorgan`, `a18c_eval_and_deMorgan`
* `a18c_eval_median_pair`, `a18c_eval_median_mem`, `a18c_eval_median_sorted_odd/even`
* `a18c_eval_sum_zipWith`, `a18c_eval_sum_scale`, `a18c_eval_mean_scale`, `a18c_eval_translate`
* `a18c_eval_window`, `a18c_eval_mask_member`
* `a18c_closedOfMembers_ok_iff`, `a18c_closedOfMembers_error_iff`, `a18c_closedOfMembers_congr`
* `a18c_aggregate_eq_of_den`, `a18c_aggregate_transfer`, `a18c_aggregate_congr_eval`
-/
set_option linter.unusedSectionVars false
set_option linter.unusedSimpArgs false
namespace SC
namespace Stairs

/-! ## `allDefined` under a value map -/

theorem a18c_allDefined_map (g : Rat → Rat) (vs : List Val) :
    allDefined (vs.map (Option.map g)) = (allDefined vs).map (List.map g) := by
  induction vs with
  | nil => rfl
  | cons v r ih =>
    cases v with
    | none => simp [allDefined]
    | some q =>
      simp only [List.map_cons, Option.map_some, allDefined, ih]
      cases allDefined r <;> rfl

theorem a18c_vadd_some (v : Val) (k : Rat) : vadd v (some k) = v.map (· + k) := by
  cases v <;> rfl
theorem a18c_vmul_some (k : Rat) (v : Val) : vmul (some k) v = v.map (k * ·) := by
  cases v <;> rfl

theorem a18c_ne_nil_of_allDefined (vs : List Val) (xs : List Rat) (h : allDefined vs = some xs)
    (hne : vs ≠ []) : xs ≠ [] := by
  intro h'; subst h'
  exact hne (by simpa using (allDefined_eq_some_iff vs []).mp h)

/-! ## mean = sum / n -/

/-- the mean is the sum divided by the number of members (for no members: `0 / 0`, undefined) -/
theorem a18c_eval_mean_eq_sum_div (vs : List Val) :
    AggFn.mean.eval vs = vdiv (AggFn.sum.eval vs) (some (vs.length : Rat)) := by
  unfold AggFn.eval
  cases h : allDefined vs with
  | none => rfl
  | some xs =>
    have hl := allDefined_length vs xs h
    simp only [vdiv, ← hl]
    by_cases h0 : xs.length = 0
    · simp [h0]
    · have : (xs.length : Rat) ≠ 0 := by exact_mod_cast h0
      simp [h0, this]

/-! ## n copies of one value -/

theorem a18c_eval_sum_replicate (n : Nat) (v : Val) :
    AggFn.sum.eval (List.replicate (n + 1) v) = vmul (some ((n + 1 : Nat) : Rat)) v := by
  induction n with
  | zero =>
    rw [List.replicate_succ, List.replicate_zero, eval_sum_cons, eval_nil.1, vadd_zero]
    cases v <;> simp [vmul, vlift2]
  | succ n ih =>
    rw [List.replicate_succ, eval_sum_cons, ih]
    cases v with
    | none => rfl
    | some q =>
      simp only [vadd, vmul, vlift2, Option.some.injEq]
      push_cast
      ring

/-- mean / median / min / max of values that are all equal to `v` -/
theorem a18c_eval_all_eq (F : AggFn) (hF : F = .mean ∨ F = .median ∨ F = .min ∨ F = .max) (vs : List Val)
    (hne : vs ≠ []) (v : Val) (hv : ∀ w ∈ vs, w = v) : F.eval vs = v := by
  cases v with
  | none =>
    apply eval_none_of_mem
    cases vs with
    | nil => exact absurd rfl hne
    | cons w r => rw [hv w (by simp)]; simp
  | some q =>
    have hnone : none ∉ vs := fun h => by cases hv none h
    have hmin : AggFn.min.eval vs = some q := by
      cases hm : AggFn.min.eval vs with
      | none => exact absurd ((eval_none_iff _ _ hne).mp hm) hnone
      | some a =>
        unfold AggFn.eval at hm
        cases had : allDefined vs with
        | none => rw [had] at hm; cases hm
        | some xs =>
          rw [had] at hm
          have hvs := (allDefined_eq_some_iff vs xs).mp had
          have := (listMin_spec xs a hm).1
          have : some a ∈ vs := by rw [hvs]; exact List.mem_map.mpr ⟨a, this, rfl⟩
          rw [hv _ this]
    have hmax : AggFn.max.eval vs = some q := by
      cases hm : AggFn.max.eval vs with
      | none => exact absurd ((eval_none_iff _ _ hne).mp hm) hnone
      | some a =>
        unfold AggFn.eval at hm
        cases had : allDefined vs with
        | none => rw [had] at hm; cases hm
        | some xs =>
          rw [had] at hm
          have hvs := (allDefined_eq_some_iff vs xs).mp had
          have := (listMax_spec xs a hm).1
          have : some a ∈ vs := by rw [hvs]; exact List.mem_map.mpr ⟨a, this, rfl⟩
          rw [hv _ this]
    obtain ⟨_, _, _, e4, e5⟩ := a18b_eval_bounds vs
    rcases hF with h | h | h | h <;> subst h
    · cases hm : AggFn.mean.eval vs with
      | none => exact absurd ((eval_none_iff _ _ hne).mp hm) hnone
      | some b =>
        obtain ⟨h1, h2⟩ := e4 q b q hmin hm hmax
        rw [le_antisymm h2 h1]
    · cases hm : AggFn.median.eval vs with
      | none => exact absurd ((eval_none_iff _ _ hne).mp hm) hnone
      | some b =>
        obtain ⟨h1, h2⟩ := e5 q b q hmin hm hmax
        rw [le_antisymm h2 h1]
    · exact hmin
    · exact hmax

theorem a18c_eval_replicate (F : AggFn) (hF : F = .mean ∨ F = .median ∨ F = .min ∨ F = .max) (n : Nat)
    (v : Val) : F.eval (List.replicate (n + 1) v) = v :=
  a18c_eval_all_eq F hF _ (by simp [List.replicate_succ]) v (fun w hw => List.eq_of_mem_replicate hw)

/-! ## max = − min ∘ −,  De Morgan -/

theorem a18c_listMax_neg (xs : List Rat) : listMax xs = (listMin (xs.map fun q => -q)).map fun q => -q := by
  cases hx : listMax xs with
  | none =>
    cases xs with
    | nil => rfl
    | cons a r => cases hx
  | some m =>
    obtain ⟨hm, hle⟩ := listMax_spec xs m hx
    have : listMin (xs.map fun q => -q) = some (-m) := by
      rw [a18b_listMin_iff]
      refine ⟨List.mem_map.mpr ⟨m, hm, rfl⟩, ?_⟩
      intro y hy
      obtain ⟨z, hz, rfl⟩ := List.mem_map.mp hy
      exact neg_le_neg (hle z hz)
    rw [this]; simp

theorem a18c_listMin_neg (xs : List Rat) : listMin xs = (listMax (xs.map fun q => -q)).map fun q => -q := by
  cases hx : listMin xs with
  | none =>
    cases xs with
    | nil => rfl
    | cons a r => cases hx
  | some m =>
    obtain ⟨hm, hle⟩ := listMin_spec xs m hx
    have : listMax (xs.map fun q => -q) = some (-m) := by
      rw [a18b_listMax_iff]
      refine ⟨List.mem_map.mpr ⟨m, hm, rfl⟩, ?_⟩
      intro y hy
      obtain ⟨z, hz, rfl⟩ := List.mem_map.mp hy
      exact neg_le_neg (hle z hz)
    rw [this]; simp

/-- `max = −min(−·)` at one point (undefined iff some value is undefined, on both sides) -/
theorem a18c_eval_max_neg (vs : List Val) :
    AggFn.max.eval vs = UnOp.neg.eval (AggFn.min.eval (vs.map UnOp.neg.eval)) := by
  unfold AggFn.eval
  show _ = UnOp.neg.eval (match allDefined (vs.map (Option.map fun q => -q)) with | none => none | some xs => _)
  rw [a18c_allDefined_map]
  cases allDefined vs with
  | none => rfl
  | some xs => exact a18c_listMax_neg xs

theorem a18c_eval_min_neg (vs : List Val) :
    AggFn.min.eval vs = UnOp.neg.eval (AggFn.max.eval (vs.map UnOp.neg.eval)) := by
  unfold AggFn.eval
  show _ = UnOp.neg.eval (match allDefined (vs.map (Option.map fun q => -q)) with | none => none | some xs => _)
  rw [a18c_allDefined_map]
  cases allDefined vs with
  | none => rfl
  | some xs => exact a18c_listMin_neg xs

theorem a18c_truth_b2r (b : Bool) : truth (b2r b) = b := by
  cases b <;> simp [truth, b2r]

theorem a18c_all_not_truth (xs : List Rat) :
    (xs.map fun q => b2r (!truth q)).all truth = !xs.any truth := by
  induction xs with
  | nil => rfl
  | cons x r ih => simp only [List.map_cons, List.all_cons, List.any_cons, ih, a18c_truth_b2r, Bool.not_or]

theorem a18c_any_not_truth (xs : List Rat) :
    (xs.map fun q => b2r (!truth q)).any truth = !xs.all truth := by
  induction xs with
  | nil => rfl
  | cons x r ih => simp only [List.map_cons, List.all_cons, List.any_cons, ih, a18c_truth_b2r, Bool.not_and]

/-- **De Morgan** at one point: `or = ¬ and (¬ ·)`, for arbitrary (not only 0/1) values, undefined iff some
value is undefined on both sides -/
theorem a18c_eval_or_deMorgan (vs : List Val) :
    AggFn.logicalOr.eval vs = UnOp.invert.eval (AggFn.logicalAnd.eval (vs.map UnOp.invert.eval)) := by
  unfold AggFn.eval
  show _ = UnOp.invert.eval
    (match allDefined (vs.map (Option.map fun q => b2r (!truth q))) with | none => none | some xs => _)
  rw [a18c_allDefined_map]
  cases allDefined vs with
  | none => rfl
  | some xs =>
    simp only [Option.map_some, UnOp.eval, a18c_all_not_truth, a18c_truth_b2r, Bool.not_not]

theorem a18c_eval_and_deMorgan (vs : List Val) :
    AggFn.logicalAnd.eval vs = UnOp.invert.eval (AggFn.logicalOr.eval (vs.map UnOp.invert.eval)) := by
  unfold AggFn.eval
  show _ = UnOp.invert.eval
    (match allDefined (vs.map (Option.map fun q => b2r (!truth q))) with | none => none | some xs => _)
  rw [a18c_allDefined_map]
  cases allDefined vs with
  | none => rfl
  | some xs =>
    simp only [Option.map_some, UnOp.eval, a18c_any_not_truth, a18c_truth_b2r, Bool.not_not]

/-- the logical reductions only see the truth values of the members -/
theorem a18c_eval_logical_makeBoolean (F : AggFn) (hF : F = .logicalOr ∨ F = .logicalAnd) (vs : List Val) :
    F.eval (vs.map UnOp.makeBoolean.eval) = F.eval vs := by
  unfold AggFn.eval
  show (match allDefined (vs.map (Option.map fun q => b2r (truth q))) with | none => none | some xs => _) = _
  rw [a18c_allDefined_map]
  cases allDefined vs with
  | none => rfl
  | some xs =>
    rcases hF with h | h <;> subst h <;>
      simp [List.any_map, List.all_map, Function.comp_def, a18c_truth_b2r]

theorem a18c_b2r_le_one (b : Bool) : b2r b ≤ 1 := by cases b <;> simp [b2r]
theorem a18c_b2r_nonneg (b : Bool) : 0 ≤ b2r b := by cases b <;> simp [b2r]

theorem a18c_listMax_truth (xs : List Rat) (hne : xs ≠ []) :
    listMax (xs.map fun q => b2r (truth q)) = some (b2r (xs.any truth)) := by
  rw [a18b_listMax_iff]
  cases hany : xs.any truth with
  | true =>
    obtain ⟨y, hy, hty⟩ := List.any_eq_true.mp hany
    refine ⟨List.mem_map.mpr ⟨y, hy, by rw [hty]⟩, ?_⟩
    intro z hz
    obtain ⟨w, _, rfl⟩ := List.mem_map.mp hz
    exact a18c_b2r_le_one _
  | false =>
    have hall : ∀ y ∈ xs, truth y = false := by
      intro y hy
      cases hty : truth y with
      | false => rfl
      | true => rw [List.any_eq_true.mpr ⟨y, hy, hty⟩] at hany; cases hany
    cases xs with
    | nil => exact absurd rfl hne
    | cons a r =>
      refine ⟨List.mem_map.mpr ⟨a, by simp, by rw [hall a (by simp)]⟩, ?_⟩
      intro z hz
      obtain ⟨w, hw, rfl⟩ := List.mem_map.mp hz
      rw [hall w hw]

theorem a18c_listMin_truth (xs : List Rat) (hne : xs ≠ []) :
    listMin (xs.map fun q => b2r (truth q)) = some (b2r (xs.all truth)) := by
  rw [a18b_listMin_iff]
  cases hall : xs.all truth with
  | false =>
    have : ∃ y ∈ xs, truth y = false := by
      by_contra hcon
      have : xs.all truth = true := by
        rw [List.all_eq_true]
        intro y hy
        cases hty : truth y with
        | true => rfl
        | false => exact absurd ⟨y, hy, hty⟩ hcon
      rw [this] at hall; cases hall
    obtain ⟨y, hy, hty⟩ := this
    refine ⟨List.mem_map.mpr ⟨y, hy, by rw [hty]⟩, ?_⟩
    intro z hz
    obtain ⟨w, _, rfl⟩ := List.mem_map.mp hz
    exact a18c_b2r_nonneg _
  | true =>
    have hall' := List.all_eq_true.mp hall
    cases xs with
    | nil => exact absurd rfl hne
    | cons a r =>
      refine ⟨List.mem_map.mpr ⟨a, by simp, by rw [hall' a (by simp)]⟩, ?_⟩
      intro z hz
      obtain ⟨w, hw, rfl⟩ := List.mem_map.mp hz
      rw [hall' w hw]

/-- on truth values, `or` is the maximum and `and` the minimum (non-empty collections) -/
theorem a18c_eval_or_eq_max (vs : List Val) (hne : vs ≠ []) :
    AggFn.logicalOr.eval vs = AggFn.max.eval (vs.map UnOp.makeBoolean.eval) := by
  unfold AggFn.eval
  show _ = (match allDefined (vs.map (Option.map fun q => b2r (truth q))) with | none => none | some xs => _)
  rw [a18c_allDefined_map]
  cases had : allDefined vs with
  | none => rfl
  | some xs => exact (a18c_listMax_truth xs (a18c_ne_nil_of_allDefined vs xs had hne)).symm

theorem a18c_eval_and_eq_min (vs : List Val) (hne : vs ≠ []) :
    AggFn.logicalAnd.eval vs = AggFn.min.eval (vs.map UnOp.makeBoolean.eval) := by
  unfold AggFn.eval
  show _ = (match allDefined (vs.map (Option.map fun q => b2r (truth q))) with | none => none | some xs => _)
  rw [a18c_allDefined_map]
  cases had : allDefined vs with
  | none => rfl
  | some xs => exact (a18c_listMin_truth xs (a18c_ne_nil_of_allDefined vs xs had hne)).symm

/-! ## median -/

/-- the median of two values is their mean -/
theorem a18c_eval_median_pair (v w : Val) : AggFn.median.eval [v, w] = AggFn.mean.eval [v, w] := by
  cases v with
  | none => rfl
  | some a =>
    cases w with
    | none => rfl
    | some b =>
      simp only [AggFn.eval, allDefined, Option.map_some, medianOf, sortRat, List.foldl_cons, List.foldl_nil,
        insertSorted]
      by_cases hba : b ≤ a
      · simp only [hba, if_true, List.length_cons, List.length_nil, List.sum_cons, List.sum_nil]
        norm_num
        ring
      · simp only [hba, if_false, List.length_cons, List.length_nil, List.sum_cons, List.sum_nil]
        norm_num

/-- a sorted list is a fixed point of `sortRat` -/
theorem a18c_sortRat_of_sorted (xs : List Rat) (h : xs.Pairwise (· ≤ ·)) : sortRat xs = xs := by
  obtain ⟨p1, s1⟩ := a18b_sortRat_spec xs
  exact List.Perm.eq_of_pairwise (fun a b _ _ hab hba => le_antisymm hab hba) s1 h p1

/-- sorting commutes with a monotone map -/
theorem a18c_sortRat_map (g : Rat → Rat) (hg : ∀ a b, a ≤ b → g a ≤ g b) (xs : List Rat) :
    sortRat (xs.map g) = (sortRat xs).map g := by
  obtain ⟨p1, s1⟩ := a18b_sortRat_spec xs
  obtain ⟨p2, s2⟩ := a18b_sortRat_spec (xs.map g)
  have s3 : ((sortRat xs).map g).Pairwise (· ≤ ·) := by
    rw [List.pairwise_map]
    exact s1.imp (fun hab => hg _ _ hab)
  exact List.Perm.eq_of_pairwise (fun a b _ _ hab hba => le_antisymm hab hba) s2 s3 (p2.trans (p1.map g).symm)

/-- the median of an odd number of values is one of them -/
theorem a18c_eval_median_mem (vs : List Val) (hodd : vs.length % 2 = 1) : AggFn.median.eval vs ∈ vs := by
  cases had : allDefined vs with
  | none =>
    have := (allDefined_eq_none_iff vs).mp had
    rwa [eval_none_of_mem _ _ this]
  | some xs =>
    have hvs := (allDefined_eq_some_iff vs xs).mp had
    have hl := allDefined_length vs xs had
    unfold AggFn.eval
    rw [had]
    simp only [medianOf]
    have hlen : (sortRat xs).length = vs.length := by rw [length_sortRat, hl]
    rw [hlen]
    have hn : vs.length ≠ 0 := by omega
    rw [if_neg hn, if_pos hodd, List.getElem?_eq_getElem (by omega)]
    have hmem : some ((sortRat xs)[vs.length / 2]'(by omega)) ∈ List.map some xs :=
      List.mem_map.mpr ⟨_, (a18b_sortRat_spec xs).1.subset (List.getElem_mem _), rfl⟩
    rw [← hvs] at hmem
    exact hmem

theorem a18c_eval_min_mem (vs : List Val) (hne : vs ≠ []) : AggFn.min.eval vs ∈ vs := by
  cases had : allDefined vs with
  | none =>
    have := (allDefined_eq_none_iff vs).mp had
    rwa [eval_none_of_mem _ _ this]
  | some xs =>
    have hvs := (allDefined_eq_some_iff vs xs).mp had
    have hx := a18c_ne_nil_of_allDefined vs xs had hne
    unfold AggFn.eval
    rw [had]
    simp only
    cases hm : listMin xs with
    | none => have := listMin_isSome xs hx; rw [hm] at this; cases this
    | some m => rw [hvs]; exact List.mem_map.mpr ⟨m, (listMin_spec xs m hm).1, rfl⟩

theorem a18c_eval_max_mem (vs : List Val) (hne : vs ≠ []) : AggFn.max.eval vs ∈ vs := by
  cases had : allDefined vs with
  | none =>
    have := (allDefined_eq_none_iff vs).mp had
    rwa [eval_none_of_mem _ _ this]
  | some xs =>
    have hvs := (allDefined_eq_some_iff vs xs).mp had
    have hx := a18c_ne_nil_of_allDefined vs xs had hne
    unfold AggFn.eval
    rw [had]
    simp only
    cases hm : listMax xs with
    | none => have := listMax_isSome xs hx; rw [hm] at this; cases this
    | some m => rw [hvs]; exact List.mem_map.mpr ⟨m, (listMax_spec xs m hm).1, rfl⟩

/-- "pointwise sorted" for values: defined values increase along the list -/
def a18c_ValLE (v w : Val) : Prop := ∀ a b, v = some a → w = some b → a ≤ b

theorem a18c_sorted_of_valLE (xs : List Rat) (h : (xs.map some).Pairwise a18c_ValLE) : xs.Pairwise (· ≤ ·) := by
  rw [List.pairwise_map] at h
  exact h.imp (fun hab => hab _ _ rfl rfl)

/-- values that are all defined and increase along the list, odd count: the median is the middle value -/
theorem a18c_eval_median_sorted_odd (vs : List Val) (hdef : none ∉ vs) (hs : vs.Pairwise a18c_ValLE)
    (hodd : vs.length % 2 = 1) : vs[vs.length / 2]? = some (AggFn.median.eval vs) := by
  cases had : allDefined vs with
  | none => exact absurd ((allDefined_eq_none_iff vs).mp had) hdef
  | some xs =>
    have hvs := (allDefined_eq_some_iff vs xs).mp had
    subst hvs
    have hsort := a18c_sortRat_of_sorted xs (a18c_sorted_of_valLE xs hs)
    rw [List.length_map] at hodd ⊢
    rw [eval_map_some]
    simp only [medianOf, hsort]
    have hn : xs.length ≠ 0 := by omega
    rw [if_neg hn, if_pos hodd, List.getElem?_map, List.getElem?_eq_getElem (by omega)]
    rfl

/-- … even count: the mean of the two middle values -/
theorem a18c_eval_median_sorted_even (vs : List Val) (hdef : none ∉ vs) (hs : vs.Pairwise a18c_ValLE)
    (heven : vs.length % 2 = 0) (a b : Val) (ha : vs[vs.length / 2 - 1]? = some a)
    (hb : vs[vs.length / 2]? = some b) : AggFn.median.eval vs = AggFn.mean.eval [a, b] := by
  cases had : allDefined vs with
  | none => exact absurd ((allDefined_eq_none_iff vs).mp had) hdef
  | some xs =>
    have hvs := (allDefined_eq_some_iff vs xs).mp had
    subst hvs
    have hsort := a18c_sortRat_of_sorted xs (a18c_sorted_of_valLE xs hs)
    rw [List.length_map] at heven ha hb
    rw [List.getElem?_map] at ha hb
    have hn : xs.length ≠ 0 := by
      intro h0
      have hx : xs = [] := List.length_eq_zero_iff.mp h0
      subst hx
      simp at hb
    rw [List.getElem?_eq_getElem (show xs.length / 2 - 1 < xs.length by omega)] at ha
    rw [List.getElem?_eq_getElem (show xs.length / 2 < xs.length by omega)] at hb
    simp only [Option.map_some, Option.some.injEq] at ha hb
    subst ha; subst hb
    rw [eval_map_some]
    have hodd : ¬ xs.length % 2 = 1 := by omega
    simp only [medianOf, hsort]
    rw [if_neg hn, if_neg hodd, List.getElem?_eq_getElem (show xs.length / 2 - 1 < xs.length by omega),
      List.getElem?_eq_getElem (show xs.length / 2 < xs.length by omega)]
    simp only [AggFn.eval, allDefined, Option.map_some, List.length_cons, List.length_nil, List.sum_cons,
      List.sum_nil]
    norm_num

/-! ## sum and the arithmetic operators -/

theorem a18c_vadd_comm4 (a b c d : Val) : vadd (vadd a b) (vadd c d) = vadd (vadd a c) (vadd b d) := by
  cases a <;> cases b <;> cases c <;> cases d <;> simp [vadd, vlift2]
  ring

/-- the sum of pairwise sums is the sum of the two sums -/
theorem a18c_eval_sum_zipWith (vs ws : List Val) (h : vs.length = ws.length) :
    AggFn.sum.eval (List.zipWith vadd vs ws) = vadd (AggFn.sum.eval vs) (AggFn.sum.eval ws) := by
  induction vs generalizing ws with
  | nil =>
    cases ws with
    | nil => rw [List.zipWith_nil_left, eval_nil.1]; simp [vadd, vlift2]
    | cons w r => cases h
  | cons v r ih =>
    cases ws with
    | nil => cases h
    | cons w r' =>
      rw [List.zipWith_cons_cons, eval_sum_cons, eval_sum_cons, eval_sum_cons,
        ih r' (by simpa using h), a18c_vadd_comm4]

theorem a18c_vmul_vadd (k a b : Val) : vmul k (vadd a b) = vadd (vmul k a) (vmul k b) := by
  cases k <;> cases a <;> cases b <;> simp [vadd, vmul, vlift2]
  ring

/-- the sum of scaled values is the scaled sum -/
theorem a18c_eval_sum_scale (k : Rat) (vs : List Val) :
    AggFn.sum.eval (vs.map (vmul (some k))) = vmul (some k) (AggFn.sum.eval vs) := by
  induction vs with
  | nil => rw [List.map_nil, eval_nil.1]; simp [vmul, vlift2]
  | cons v r ih => rw [List.map_cons, eval_sum_cons, eval_sum_cons, ih, a18c_vmul_vadd]

theorem a18c_eval_mean_scale (k : Rat) (vs : List Val) :
    AggFn.mean.eval (vs.map (vmul (some k))) = vmul (some k) (AggFn.mean.eval vs) := by
  rw [a18c_eval_mean_eq_sum_div, a18c_eval_mean_eq_sum_div, a18c_eval_sum_scale, List.length_map]
  cases AggFn.sum.eval vs with
  | none => rfl
  | some s =>
    simp only [vmul, vlift2, vdiv]
    by_cases h0 : (vs.length : Rat) = 0
    · simp [h0]
    · simp only [h0, if_false, Option.some.injEq]; ring

theorem a18c_sum_map_add (k : Rat) (xs : List Rat) :
    (xs.map (· + k)).sum = xs.sum + (xs.length : Rat) * k := by
  induction xs with
  | nil => simp
  | cons x r ih => simp only [List.map_cons, List.sum_cons, ih, List.length_cons]; push_cast; ring

/-- the sum of translated values: `n · k` is added -/
theorem a18c_eval_sum_translate (k : Rat) (vs : List Val) :
    AggFn.sum.eval (vs.map (vadd · (some k))) = vadd (AggFn.sum.eval vs) (some ((vs.length : Rat) * k)) := by
  induction vs with
  | nil => rw [List.map_nil, eval_nil.1]; simp [vadd, vlift2]
  | cons v r ih =>
    rw [List.map_cons, eval_sum_cons, eval_sum_cons, ih]
    cases v <;> cases AggFn.sum.eval r <;> simp [vadd, vlift2]
    ring

/-- **translation equivariance** of mean / median / min / max at one point -/
theorem a18c_eval_translate (F : AggFn) (hF : F = .mean ∨ F = .median ∨ F = .min ∨ F = .max) (k : Rat)
    (vs : List Val) : F.eval (vs.map (vadd · (some k))) = vadd (F.eval vs) (some k) := by
  have hfun : (fun v : Val => vadd v (some k)) = Option.map (· + k) := by
    funext v; exact a18c_vadd_some v k
  rw [hfun]
  unfold AggFn.eval
  rw [a18c_allDefined_map]
  cases allDefined vs with
  | none => rfl
  | some xs =>
    simp only [Option.map_some]
    rcases hF with h | h | h | h <;> subst h <;> simp only
    · rw [List.length_map]
      by_cases h0 : xs.length = 0
      · simp [h0, vadd, vlift2]
      · have h0' : (xs.length : Rat) ≠ 0 := by exact_mod_cast h0
        simp only [h0, if_false, vadd, vlift2, Option.some.injEq, a18c_sum_map_add]
        field_simp
    · simp only [medianOf]
      rw [a18c_sortRat_map (· + k) (fun a b hab => by linarith) xs, List.length_map]
      generalize sortRat xs = s
      by_cases hn : s.length = 0
      · simp [hn, vadd, vlift2]
      · rw [if_neg hn, if_neg hn]
        by_cases hodd : s.length % 2 = 1
        · rw [if_pos hodd, if_pos hodd, List.getElem?_map, List.getElem?_eq_getElem (by omega)]
          rfl
        · rw [if_neg hodd, if_neg hodd, List.getElem?_map, List.getElem?_map,
            List.getElem?_eq_getElem (show s.length / 2 - 1 < s.length by omega),
            List.getElem?_eq_getElem (show s.length / 2 < s.length by omega)]
          simp only [Option.map_some, vadd, vlift2, Option.some.injEq]
          ring
    · cases hm : listMin xs with
      | none =>
        cases xs with
        | nil => rfl
        | cons a r => cases hm
      | some m =>
        obtain ⟨hmem, hle⟩ := listMin_spec xs m hm
        have : listMin (xs.map (· + k)) = some (m + k) := by
          rw [a18b_listMin_iff]
          refine ⟨List.mem_map.mpr ⟨m, hmem, rfl⟩, ?_⟩
          intro y hy
          obtain ⟨z, hz, rfl⟩ := List.mem_map.mp hy
          have := hle z hz
          linarith
        rw [this]; rfl
    · cases hm : listMax xs with
      | none =>
        cases xs with
        | nil => rfl
        | cons a r => cases hm
      | some m =>
        obtain ⟨hmem, hle⟩ := listMax_spec xs m hm
        have : listMax (xs.map (· + k)) = some (m + k) := by
          rw [a18b_listMax_iff]
          refine ⟨List.mem_map.mpr ⟨m, hmem, rfl⟩, ?_⟩
          intro y hy
          obtain ⟨z, hz, rfl⟩ := List.mem_map.mp hy
          have := hle z hz
          linarith
        rw [this]; rfl

/-! ## windows and masks -/

/-- restricting every member value to a window restricts the reduction (non-empty collections) -/
theorem a18c_eval_window (F : AggFn) (vs : List Val) (hne : vs ≠ []) (b : Bool) :
    F.eval (vs.map fun v => if b then v else none) = if b then F.eval vs else none := by
  cases b with
  | true => simp
  | false =>
    simp only [Bool.false_eq_true, if_false]
    apply eval_none_of_mem
    cases vs with
    | nil => exact absurd rfl hne
    | cons v r => simp

/-- masking ONE member value masks the reduction -/
theorem a18c_eval_mask_member (F : AggFn) (vs₁ vs₂ : List Val) (v g : Val) :
    F.eval (vs₁ ++ maskOp v g :: vs₂) = maskOp (F.eval (vs₁ ++ v :: vs₂)) g := by
  unfold maskOp
  by_cases hg : g = some 0
  · simp [hg]
  · simp only [hg, if_false]
    exact eval_none_of_mem _ _ (by simp)

/-- replacing one member value by "undefined" makes the reduction undefined -/
theorem a18c_eval_none_member (F : AggFn) (vs₁ vs₂ : List Val) : F.eval (vs₁ ++ none :: vs₂) = none :=
  eval_none_of_mem _ _ (by simp)

/-! ## the closed side of a collection -/

variable {P : Type} [LinearOrder P]

/-- the closed side of the first member (`left` for no members) -/
def a18c_headClosed (ms : List (Stairs P)) : Side :=
  match ms with
  | [] => .left
  | m :: _ => m.closed

/-- two members with steps whose closed sides differ -/
def a18c_Clash (ms : List (Stairs P)) : Prop :=
  ∃ m ∈ ms, ∃ m' ∈ ms, m.hasSteps = true ∧ m'.hasSteps = true ∧ m.closed ≠ m'.closed

theorem a18c_filter_nil_iff (ms : List (Stairs P)) :
    ms.filter (·.hasSteps) = [] ↔ ∀ m ∈ ms, m.hasSteps = false := by
  rw [List.filter_eq_nil_iff]
  constructor
  · intro h m hm; simpa using h m hm
  · intro h m hm; simpa using h m hm

/-- **success, exactly**: `cl` is the side of every member with steps, and the first member's side when no
member has steps -/
theorem a18c_closedOfMembers_ok_iff (ms : List (Stairs P)) (cl : Side) :
    closedOfMembers ms = .ok cl ↔
      (∀ m ∈ ms, m.hasSteps = true → m.closed = cl) ∧
      ((∀ m ∈ ms, m.hasSteps = false) → cl = a18c_headClosed ms) := by
  rcases a18b_closedOfMembers_cases ms with ⟨hfl, he⟩ | ⟨m, r, hfl, hc⟩
  · have hno := (a18c_filter_nil_iff ms).mp hfl
    rw [he]
    constructor
    · intro h
      injection h with h
      refine ⟨fun m hm hs => ?_, fun _ => h.symm⟩
      rw [hno m hm] at hs; cases hs
    · intro ⟨_, h2⟩
      rw [h2 hno]; rfl
  · have hmem : ∀ x, x ∈ m :: r ↔ x ∈ ms ∧ x.hasSteps = true := by
      intro x; rw [← hfl, List.mem_filter]
    have hm := (hmem m).mp (by simp)
    rcases hc with ⟨hall, he⟩ | ⟨hnall, he⟩
    · rw [he]
      constructor
      · intro h
        injection h with h
        refine ⟨fun x hx hs => ?_, fun hno => ?_⟩
        · rw [← h]; exact hall x ((hmem x).mpr ⟨hx, hs⟩)
        · have := hno m hm.1; rw [hm.2] at this; cases this
      · intro ⟨h1, _⟩
        rw [h1 m hm.1 hm.2]
    · rw [he]
      constructor
      · intro h; cases h
      · intro ⟨h1, _⟩
        exfalso; apply hnall
        intro x hx
        obtain ⟨hx1, hx2⟩ := (hmem x).mp hx
        rw [h1 x hx1 hx2, h1 m hm.1 hm.2]

/-- **error, exactly**: two members WITH steps disagree about the closed side; the only possible error is the
closed mismatch -/
theorem a18c_closedOfMembers_error_iff (ms : List (Stairs P)) (e : Err) :
    closedOfMembers ms = .error e ↔ e = .closedMismatch ∧ a18c_Clash ms := by
  rcases a18b_closedOfMembers_cases ms with ⟨hfl, he⟩ | ⟨m, r, hfl, hc⟩
  · have hno := (a18c_filter_nil_iff ms).mp hfl
    rw [he]
    constructor
    · intro h; cases h
    · rintro ⟨_, x, hx, _, _, hs, _⟩
      rw [hno x hx] at hs; cases hs
  · have hmem : ∀ x, x ∈ m :: r ↔ x ∈ ms ∧ x.hasSteps = true := by
      intro x; rw [← hfl, List.mem_filter]
    have hm := (hmem m).mp (by simp)
    rcases hc with ⟨hall, he⟩ | ⟨hnall, he⟩
    · rw [he]
      constructor
      · intro h; cases h
      · rintro ⟨_, x, hx, y, hy, hxs, hys, hne⟩
        exfalso; apply hne
        rw [hall x ((hmem x).mpr ⟨hx, hxs⟩), hall y ((hmem y).mpr ⟨hy, hys⟩)]
    · rw [he]
      constructor
      · intro h
        injection h with h
        refine ⟨h.symm, ?_⟩
        by_contra hcl
        apply hnall
        intro x hx
        obtain ⟨hx1, hx2⟩ := (hmem x).mp hx
        by_contra hne
        exact hcl ⟨x, hx1, m, hm.1, hx2, hm.2, hne⟩
      · rintro ⟨rfl, _⟩; rfl

theorem a18c_closedOfMembers_isOk_iff (ms : List (Stairs P)) :
    (∃ cl, closedOfMembers ms = .ok cl) ↔ ¬ a18c_Clash ms := by
  constructor
  · rintro ⟨cl, h⟩ hcl
    have := (a18c_closedOfMembers_error_iff ms .closedMismatch).mpr ⟨rfl, hcl⟩
    rw [h] at this; cases this
  · intro h
    cases hc : closedOfMembers ms with
    | ok cl => exact ⟨cl, rfl⟩
    | error e => exact absurd ((a18c_closedOfMembers_error_iff ms e).mp hc).2 h

/-- the closed side (or the error) is a function of the list of `(has steps?, closed side)` pairs -/
theorem a18c_closedOfMembers_congr {Q : Type} [LinearOrder Q] (ms : List (Stairs P)) (ms' : List (Stairs Q))
    (h : ms.map (fun m => (m.hasSteps, m.closed)) = ms'.map (fun m => (m.hasSteps, m.closed))) :
    closedOfMembers ms = closedOfMembers ms' := by
  have hall : ∀ (R : Bool × Side → Prop), (∀ m ∈ ms, R (m.hasSteps, m.closed)) ↔
      (∀ m ∈ ms', R (m.hasSteps, m.closed)) := by
    intro R
    have e1 : (∀ m ∈ ms, R (m.hasSteps, m.closed)) ↔ ∀ k ∈ ms.map (fun m => (m.hasSteps, m.closed)), R k := by
      simp [List.mem_map]
    have e2 : (∀ m ∈ ms', R (m.hasSteps, m.closed)) ↔ ∀ k ∈ ms'.map (fun m => (m.hasSteps, m.closed)), R k := by
      simp [List.mem_map]
    rw [e1, e2, h]
  have hhead : a18c_headClosed ms = a18c_headClosed ms' := by
    cases ms with
    | nil =>
      cases ms' with
      | nil => rfl
      | cons b r' => simp at h
    | cons a r =>
      cases ms' with
      | nil => simp at h
      | cons b r' =>
        simp only [List.map_cons, List.cons.injEq, Prod.mk.injEq] at h
        exact h.1.2
  have hok : ∀ cl, closedOfMembers ms = .ok cl ↔ closedOfMembers ms' = .ok cl := by
    intro cl
    rw [a18c_closedOfMembers_ok_iff, a18c_closedOfMembers_ok_iff, hhead,
      hall (fun k => k.1 = true → k.2 = cl), hall (fun k => k.1 = false)]
  cases hc : closedOfMembers ms with
  | ok cl => exact ((hok cl).mp hc).symm
  | error e =>
    cases hc' : closedOfMembers ms' with
    | ok cl' => rw [(hok cl').mpr hc'] at hc; cases hc
    | error e' =>
      rw [((a18c_closedOfMembers_error_iff ms e).mp hc).1, ((a18c_closedOfMembers_error_iff ms' e').mp hc').1]

/-- members transformed by something that keeps each member's closed side: with a common closed side the side
of the collection is unchanged -/
theorem a18c_closedOfMembers_map_same (ms : List (Stairs P)) (t : Stairs P → Stairs P)
    (ht : ∀ m ∈ ms, (t m).closed = m.closed) (cl : Side) (hcl : ∀ m ∈ ms, m.closed = cl) :
    closedOfMembers (ms.map t) = closedOfMembers ms := by
  cases ms with
  | nil => rfl
  | cons a r =>
    rw [closedOfMembers_same (a :: r) cl (by simp) hcl,
      closedOfMembers_same ((a :: r).map t) cl (by simp) (by
        intro m hm
        obtain ⟨m₀, hm₀, rfl⟩ := List.mem_map.mp hm
        rw [ht m₀ hm₀, hcl m₀ hm₀])]

/-! ### value maps and `hasSteps` -/

theorem a18c_minimal_map {V W : Type} [DecidableEq V] [DecidableEq W] (u : V → W)
    (hu : Function.Injective u) (a : V) (s : List (P × V)) (h : Minimal a s) :
    Minimal (u a) (s.map fun pv => (pv.1, u pv.2)) := by
  induction s generalizing a with
  | nil => trivial
  | cons pv r ih =>
    obtain ⟨p, v⟩ := pv
    exact ⟨fun e => h.1 (hu e), ih v h.2⟩

/-- an injective value map keeps the rows of a canonical member (no step becomes redundant) -/
theorem a18c_map_steps_of_injective (u : Val → Val) (hu : Function.Injective u) (f : Stairs P)
    (hf : f.IsMinimal) : (map u f).steps = f.steps.map fun pv => (pv.1, u pv.2) := by
  unfold map canon
  simp only
  exact removeRedundant_of_minimal _ _ (a18c_minimal_map u hu f.init f.steps hf)

theorem a18c_hasSteps_map_of_injective (u : Val → Val) (hu : Function.Injective u) (f : Stairs P)
    (hf : f.IsMinimal) : (map u f).hasSteps = f.hasSteps := by
  unfold hasSteps
  rw [a18c_map_steps_of_injective u hu f hf]
  cases f.steps <;> rfl

/-- canonical members under an injective value map: same closed side / same error -/
theorem a18c_closedOfMembers_map_injective (u : Val → Val) (hu : Function.Injective u) (ms : List (Stairs P))
    (hms : ∀ m ∈ ms, m.IsMinimal) : closedOfMembers (ms.map (map u)) = closedOfMembers ms := by
  apply a18c_closedOfMembers_congr
  rw [List.map_map]
  apply List.map_congr_left
  intro m hm
  simp only [Function.comp_def, closed_map, a18c_hasSteps_map_of_injective u hu m (hms m hm)]

/-- the side condition used by the object-level laws about value-mapped members -/
theorem a18c_side_map (u : Val → Val) (ms : List (Stairs P))
    (h : (Function.Injective u ∧ ∀ m ∈ ms, m.IsMinimal) ∨ ∃ cl, ∀ m ∈ ms, m.closed = cl) :
    closedOfMembers (ms.map (map u)) = closedOfMembers ms := by
  rcases h with ⟨hu, hm⟩ | ⟨cl, hcl⟩
  · exact a18c_closedOfMembers_map_injective u hu ms hm
  · exact a18c_closedOfMembers_map_same ms (map u) (fun _ _ => rfl) cl hcl

theorem a18c_neg_injective : Function.Injective UnOp.neg.eval := by
  intro a b h
  cases a <;> cases b <;> simp_all [UnOp.eval]
theorem a18c_addConst_injective (k : Rat) : Function.Injective (fun v : Val => vadd v (some k)) := by
  intro a b h
  cases a <;> cases b <;> simp_all [vadd, vlift2]
theorem a18c_scale_injective (k : Rat) (hk : k ≠ 0) : Function.Injective (vmul (some k)) := by
  intro a b h
  cases a <;> cases b <;> simp_all [vmul, vlift2]

/-! ## lifting one-point identities to aggregated objects -/

theorem a18c_den_map_members (u : Val → Val) (ms : List (Stairs P)) (hms : ∀ m ∈ ms, m.WF) (st : Bool) (x : P) :
    (ms.map (map u)).map (fun m => Den m st x) = (ms.map fun m => Den m st x).map u := by
  rw [List.map_map, List.map_map]
  apply List.map_congr_left
  intro m hm
  exact den_map u m (hms m hm) st x

theorem a18c_wf_map_members (u : Val → Val) (ms : List (Stairs P)) (hms : ∀ m ∈ ms, m.WF) :
    ∀ m ∈ ms.map (map u), m.WF := by
  intro m hm
  obtain ⟨m₀, hm₀, rfl⟩ := List.mem_map.mp hm
  exact wf_map u m₀ (hms m₀ hm₀)

/-- reductions that agree on every value list of the right length give the same aggregate (same rows, same
closed side, same error) – no hypothesis on the members -/
theorem a18c_aggregate_congr_eval (F G : AggFn) (ms : List (Stairs P))
    (h : ∀ vs : List Val, vs.length = ms.length → F.eval vs = G.eval vs) : aggregate F ms = aggregate G ms := by
  rw [aggregate_eq, aggregate_eq]
  congr 1
  funext cl
  unfold aggRaw
  have hrow : ∀ p : P, F.eval (ms.map fun m => lim false m.init m.steps p)
      = G.eval (ms.map fun m => lim false m.init m.steps p) := fun p => h _ (by simp)
  simp only [hrow, h (ms.map (·.init)) (by simp)]

/-- **characterisation**: a canonical object with the collection's closed side and the pointwise-reduced right
limits IS the aggregate -/
theorem a18c_aggregate_eq_of_den [NoMinOrder P] [Nonempty P] (F : AggFn) (ms : List (Stairs P)) (cl : Side)
    (k : Stairs P) (hms : ∀ m ∈ ms, m.WF) (hc : closedOfMembers ms = .ok cl) (hk : k.Canonical)
    (hkc : k.closed = cl) (hden : ∀ x, Den k false x = F.eval (ms.map fun m => Den m false x)) :
    aggregate F ms = .ok k := by
  rw [aggregate_eq, hc]
  show Except.ok _ = _
  congr 1
  have hwf := wf_aggRaw F ms cl hms
  refine canonical_ext _ _ (canonical_canon _ hwf) hk hkc.symm (fun x => ?_)
  rw [den_canon _ hwf, den_aggRaw F ms cl hms, hden]

/-- **transfer**: if the collections `ms`, `ms'` have the same closed side / error and at every point
`w (G (values of ms')) = F (values of ms)`, then `aggregate F ms` is `w` applied to `aggregate G ms'` – the
identical object, the same error -/
theorem a18c_aggregate_transfer [NoMinOrder P] [Nonempty P] (F G : AggFn) (w : Val → Val)
    (ms ms' : List (Stairs P)) (hms : ∀ m ∈ ms, m.WF) (hms' : ∀ m ∈ ms', m.WF)
    (hside : closedOfMembers ms' = closedOfMembers ms)
    (hev : ∀ x, w (G.eval (ms'.map fun m => Den m false x)) = F.eval (ms.map fun m => Den m false x)) :
    aggregate F ms = (aggregate G ms').map (map w) := by
  cases hc : closedOfMembers ms with
  | error e => rw [aggregate_eq, aggregate_eq, hside, hc]; rfl
  | ok cl =>
    rw [aggregate_eq G, hside, hc]
    show _ = Except.ok _
    have hwf := wf_aggRaw G ms' cl hms'
    apply a18c_aggregate_eq_of_den F ms cl _ hms hc (canonical_map w _ (wf_canon _ hwf)) rfl
    intro x
    rw [den_map w _ (wf_canon _ hwf), den_canon _ hwf, den_aggRaw G ms' cl hms', hev]

/-- two collections with the same closed side / error whose reductions agree at every point aggregate to the
identical object -/
theorem a18c_aggregate_eq_aggregate [NoMinOrder P] [Nonempty P] (F G : AggFn)
    (ms ms' : List (Stairs P)) (hms : ∀ m ∈ ms, m.WF) (hms' : ∀ m ∈ ms', m.WF)
    (hside : closedOfMembers ms' = closedOfMembers ms)
    (hev : ∀ x, G.eval (ms'.map fun m => Den m false x) = F.eval (ms.map fun m => Den m false x)) :
    aggregate F ms = aggregate G ms' := by
  cases hc : closedOfMembers ms with
  | error e => rw [aggregate_eq, aggregate_eq, hside, hc]; rfl
  | ok cl =>
    rw [aggregate_eq G, hside, hc]
    show _ = Except.ok _
    have hwf := wf_aggRaw G ms' cl hms'
    apply a18c_aggregate_eq_of_den F ms cl _ hms hc (canonical_canon _ hwf) rfl
    intro x
    rw [den_canon _ hwf, den_aggRaw G ms' cl hms', hev]

/-! ### scalar operands and windows -/

/-- a two-operand operation with a scalar on the right is a value map -/
theorem a18c_combine_const_right (op : Val → Val → Val) (f : Stairs P) (hf : f.WF) (c : Val) (cl : Side) :
    combine op f (const c cl) f.closed = map (fun v => op v c) f := by
  unfold combine map combineSteps
  simp only [const, List.map_nil, a18b_unionIdx_nil_right, lim_nil]
  congr 2
  have := congrArg (List.map fun pv : P × Val => (pv.1, op pv.2 c)) (a18b_resample_self f.init f.steps hf)
  simpa only [List.map_map, Function.comp_def] using this

/-- … and with a scalar on the left -/
theorem a18c_combine_const_left (op : Val → Val → Val) (f : Stairs P) (hf : f.WF) (c : Val) (cl : Side) :
    combine op (const c cl) f f.closed = map (fun v => op c v) f := by
  unfold combine map combineSteps
  have hidx : unionIdx ((const c cl : Stairs P).steps.map Prod.fst) (f.steps.map Prod.fst)
      = f.steps.map Prod.fst := by simp [const, unionIdx]
  rw [hidx]
  simp only [const, lim_nil]
  congr 2
  have := congrArg (List.map fun pv : P × Val => (pv.1, op c pv.2)) (a18b_resample_self f.init f.steps hf)
  simpa only [List.map_map, Function.comp_def] using this

/-- the unchecked `clip`: `f` inside the window, undefined outside -/
def a18c_clipTo (lo hi : Option P) (f : Stairs P) : Stairs P :=
  combine whereOp f (indicator lo hi f.closed) f.closed

theorem a18c_den_clipTo (lo hi : Option P) (hb : boundsOk lo hi = true) (f : Stairs P) (hf : f.WF)
    (st : Bool) (x : P) :
    Den (a18c_clipTo lo hi f) st x = if inWindow st lo hi x then Den f st x else none :=
  den_clip f lo hi hf hb _ (clip_ok f lo hi hb) st x

theorem a18c_wf_clipTo (lo hi : Option P) (hb : boundsOk lo hi = true) (f : Stairs P) (hf : f.WF) :
    (a18c_clipTo lo hi f).WF := wf_combine _ _ _ _ hf (wf_indicator lo hi f.closed hb)

end Stairs
end SC
