import SCModel.Lemmas.Pointwise
import Mathlib.Tactic.Linarith
import Mathlib.Tactic.Ring
import Mathlib.Tactic.FieldSimp
import Mathlib.Algebra.Order.Field.Rat
/-!
# SCModel.Lemmas.Algebra4b — value-level (one point) algebra of the relational, logical, arithmetic and
masking operators, and the plumbing that lifts a one-point identity to an equality of canonical objects

Everything here is about `Val = Option Rat` (`none` = undefined).  The lemmas are stated for *all* values,
i.e. they say what happens on undefined regions too.  `Props/C04b` lifts them to `Stairs`.
-/
set_option linter.unusedSectionVars false
set_option linter.unusedSimpArgs false
namespace SC

/-- 0 where the argument is defined, undefined elsewhere -/
def g4b_vzero (a : Val) : Val := a.map fun _ => (0 : Rat)
/-- 1 where the argument is defined, undefined elsewhere -/
def g4b_vone (a : Val) : Val := a.map fun _ => (1 : Rat)

local notation "vzero" => g4b_vzero
local notation "vone" => g4b_vone
local notation "vinv" => UnOp.eval UnOp.invert
local notation "vmb" => UnOp.eval UnOp.makeBoolean
local notation "vneg" => UnOp.eval UnOp.neg
local notation "visna" => UnOp.eval UnOp.isna
local notation "vnotna" => UnOp.eval UnOp.notna

/-- unfold every one-point operator -/
macro "g4b_unfold" : tactic => `(tactic|
  simp [vrel, vlogic, UnOp.eval, Rel.eval, Logic.eval, b2r, truth, vadd, vsub, vmul, vdiv, vlift2,
        maskOp, whereOp, fillOp, g4b_vzero, g4b_vone])

/-! ## 1. relational -/

theorem g4b_v_ne_invert_eq (a b : Val) : vrel .ne a b = vinv (vrel .eq a b) := by
  cases a <;> cases b <;> try g4b_unfold
theorem g4b_v_eq_invert_ne (a b : Val) : vrel .eq a b = vinv (vrel .ne a b) := by
  cases a <;> cases b <;> try g4b_unfold
theorem g4b_v_ge_invert_lt (a b : Val) : vrel .ge a b = vinv (vrel .lt a b) := by
  cases a <;> cases b <;> try g4b_unfold
theorem g4b_v_lt_invert_ge (a b : Val) : vrel .lt a b = vinv (vrel .ge a b) := by
  cases a <;> cases b <;> try g4b_unfold
theorem g4b_v_gt_invert_le (a b : Val) : vrel .gt a b = vinv (vrel .le a b) := by
  cases a <;> cases b <;> try g4b_unfold
theorem g4b_v_le_invert_gt (a b : Val) : vrel .le a b = vinv (vrel .gt a b) := by
  cases a <;> cases b <;> try g4b_unfold

theorem g4b_v_le_lt_or_eq (a b : Val) : vrel .le a b = vlogic .or (vrel .lt a b) (vrel .eq a b) := by
  cases a <;> cases b <;> try g4b_unfold
  rename_i x y
  rcases lt_trichotomy x y with h | h | h
  · simp [h, h.le, h.ne]
  · simp [h]
  · simp [not_le.mpr h, not_lt.mpr h.le, h.ne']
theorem g4b_v_ge_gt_or_eq (a b : Val) : vrel .ge a b = vlogic .or (vrel .gt a b) (vrel .eq a b) := by
  cases a <;> cases b <;> try g4b_unfold
  rename_i x y
  rcases lt_trichotomy x y with h | h | h
  · simp [not_le.mpr h, not_lt.mpr h.le, h.ne]
  · simp [h]
  · simp [h, h.le, h.ne']
theorem g4b_v_ne_lt_or_gt (a b : Val) : vrel .ne a b = vlogic .or (vrel .lt a b) (vrel .gt a b) := by
  cases a <;> cases b <;> try g4b_unfold

theorem g4b_v_ge_swap (a b : Val) : vrel .ge a b = vrel .le b a := by
  cases a <;> cases b <;> g4b_unfold
theorem g4b_v_gt_swap (a b : Val) : vrel .gt a b = vrel .lt b a := by
  cases a <;> cases b <;> g4b_unfold
theorem g4b_v_eq_comm (a b : Val) : vrel .eq a b = vrel .eq b a := by
  cases a <;> cases b <;> try g4b_unfold
  rename_i x y; by_cases h : x = y <;> simp [h, eq_comm]
theorem g4b_v_ne_comm (a b : Val) : vrel .ne a b = vrel .ne b a := by
  rw [g4b_v_ne_invert_eq, g4b_v_ne_invert_eq, g4b_v_eq_comm]

/-- `<` and `>` are never both true: their conjunction is 0 on the common domain -/
theorem g4b_v_lt_and_gt (a b : Val) : vlogic .and (vrel .lt a b) (vrel .gt a b) = vzero (vadd a b) := by
  cases a <;> cases b <;> try g4b_unfold
  rename_i x y
  by_cases h : x < y <;> simp [h, not_lt.mpr, le_of_lt]

/-- trichotomy: exactly one of `<`, `=`, `>` holds wherever both are defined -/
theorem g4b_v_trichotomy (a b : Val) :
    vadd (vadd (vrel .lt a b) (vrel .eq a b)) (vrel .gt a b) = vone (vadd a b) := by
  cases a <;> cases b <;> try g4b_unfold
  rename_i x y
  rcases lt_trichotomy x y with h | h | h
  · simp [h, h.ne, not_lt.mpr h.le]
  · simp [h]
  · simp [h, h.ne', not_lt.mpr h.le]

theorem g4b_v_lt_self (a : Val) : vrel .lt a a = vzero a := by cases a <;> g4b_unfold
theorem g4b_v_gt_self (a : Val) : vrel .gt a a = vzero a := by cases a <;> g4b_unfold
theorem g4b_v_ne_self (a : Val) : vrel .ne a a = vzero a := by cases a <;> g4b_unfold
theorem g4b_v_eq_self (a : Val) : vrel .eq a a = vone a := by cases a <;> g4b_unfold
theorem g4b_v_le_self (a : Val) : vrel .le a a = vone a := by cases a <;> g4b_unfold
theorem g4b_v_ge_self (a : Val) : vrel .ge a a = vone a := by cases a <;> g4b_unfold

/-- the transitive relations -/
def g4b_Trans (r : Rel) : Prop := r = .lt ∨ r = .le ∨ r = .gt ∨ r = .ge ∨ r = .eq

theorem g4b_eval_trans (r : Rel) (hr : g4b_Trans r) (x y z : Rat)
    (h1 : r.eval x y = true) (h2 : r.eval y z = true) : r.eval x z = true := by
  rcases hr with rfl | rfl | rfl | rfl | rfl <;> simp only [Rel.eval, decide_eq_true_eq] at * <;> linarith

/-- transitivity as an identity: `(a r b ∧ b r c) ∧ (a r c) = (a r b ∧ b r c)` (all three undefined together) -/
theorem g4b_v_rel_trans (r : Rel) (hr : g4b_Trans r) (a b c : Val) :
    vlogic .and (vlogic .and (vrel r a b) (vrel r b c)) (vrel r a c)
      = vlogic .and (vrel r a b) (vrel r b c) := by
  cases a <;> cases b <;> cases c <;> try (simp [vrel, vlogic]; done)
  rename_i x y z
  have := g4b_eval_trans r hr x y z
  cases h1 : r.eval x y <;> cases h2 : r.eval y z <;> cases h3 : r.eval x z <;>
    simp_all [vrel, vlogic, Logic.eval, b2r, truth]

/-- transitivity of the 1-set -/
theorem g4b_v_rel_trans_one (r : Rel) (hr : g4b_Trans r) (a b c : Val)
    (h1 : vrel r a b = some 1) (h2 : vrel r b c = some 1) : vrel r a c = some 1 := by
  cases a <;> cases b <;> cases c <;> simp [vrel] at h1 h2 ⊢
  rename_i x y z
  have := g4b_eval_trans r hr x y z
  cases e1 : r.eval x y <;> cases e2 : r.eval y z <;> simp_all [b2r]

theorem g4b_v_le_antisymm (a b : Val) : vlogic .and (vrel .le a b) (vrel .le b a) = vrel .eq a b := by
  cases a <;> cases b <;> try g4b_unfold
  rename_i x y
  rcases lt_trichotomy x y with h | h | h
  · simp [h.le, not_le.mpr h, h.ne]
  · simp [h]
  · simp [h.le, not_le.mpr h, h.ne']

theorem g4b_v_le_total (a b : Val) : vlogic .or (vrel .le a b) (vrel .le b a) = vone (vadd a b) := by
  cases a <;> cases b <;> try g4b_unfold
  rename_i x y
  rcases le_total x y with h | h <;> simp [h]

/-- a relational result is already boolean -/
theorem g4b_v_mb_rel (r : Rel) (a b : Val) : vmb (vrel r a b) = vrel r a b := by
  cases a <;> cases b <;> simp [vrel, UnOp.eval]
  rename_i x y; cases r.eval x y <;> simp [b2r, truth]
theorem g4b_v_mb_logic (l : Logic) (a b : Val) : vmb (vlogic l a b) = vlogic l a b := by
  cases a <;> cases b <;> simp [vlogic, UnOp.eval]
  rename_i x y; cases l.eval (truth x) (truth y) <;> simp [b2r, truth]

/-! ## 2. logical -/

theorem g4b_v_and_self (a : Val) : vlogic .and a a = vmb a := by cases a <;> g4b_unfold
theorem g4b_v_or_self (a : Val) : vlogic .or a a = vmb a := by cases a <;> g4b_unfold
theorem g4b_v_xor_self (a : Val) : vlogic .xor a a = vzero a := by cases a <;> g4b_unfold

/-- absorption holds only where the *other* operand is defined -/
theorem g4b_v_absorb_and_or (a b : Val) : vlogic .and a (vlogic .or a b) = vlogic .and a (vone b) := by
  cases a <;> cases b <;> try g4b_unfold
  rename_i x y; by_cases hx : x = 0 <;> by_cases hy : y = 0 <;> simp [hx, hy]
theorem g4b_v_absorb_or_and (a b : Val) : vlogic .or a (vlogic .and a b) = vlogic .and a (vone b) := by
  cases a <;> cases b <;> try g4b_unfold
  rename_i x y; by_cases hx : x = 0 <;> by_cases hy : y = 0 <;> simp [hx, hy]
theorem g4b_v_and_vone (a b : Val) (hb : b ≠ none) : vlogic .and a (vone b) = vmb a := by
  cases a <;> cases b <;> first | exact absurd rfl hb | g4b_unfold

theorem g4b_v_xor_def (a b : Val) :
    vlogic .xor a b = vlogic .and (vlogic .or a b) (vinv (vlogic .and a b)) := by
  cases a <;> cases b <;> try g4b_unfold
  rename_i x y; by_cases hx : x = 0 <;> by_cases hy : y = 0 <;> simp [hx, hy]

theorem g4b_v_mb_idem (a : Val) : vmb (vmb a) = vmb a := by
  cases a <;> try g4b_unfold
theorem g4b_v_invert_mb (a : Val) : vinv (vmb a) = vinv a := by
  cases a <;> try g4b_unfold
theorem g4b_v_mb_invert (a : Val) : vmb (vinv a) = vinv a := by
  cases a <;> try g4b_unfold
theorem g4b_v_invert3 (a : Val) : vinv (vinv (vinv a)) = vinv a := by
  cases a <;> try g4b_unfold

theorem g4b_v_and_true (a : Val) (c : Rat) (hc : c ≠ 0) : vlogic .and a (some c) = vmb a := by
  cases a <;> g4b_unfold; simp [hc]
theorem g4b_v_and_false (a : Val) : vlogic .and a (some 0) = vzero a := by cases a <;> g4b_unfold
theorem g4b_v_or_false (a : Val) : vlogic .or a (some 0) = vmb a := by cases a <;> g4b_unfold
theorem g4b_v_or_true (a : Val) (c : Rat) (hc : c ≠ 0) : vlogic .or a (some c) = vone a := by
  cases a <;> g4b_unfold; simp [hc]
theorem g4b_v_xor_false (a : Val) : vlogic .xor a (some 0) = vmb a := by
  cases a <;> try g4b_unfold
theorem g4b_v_xor_true (a : Val) (c : Rat) (hc : c ≠ 0) : vlogic .xor a (some c) = vinv a := by
  cases a <;> try g4b_unfold
  rename_i x; by_cases hx : x = 0 <;> simp [hx, hc]

theorem g4b_v_and_not_self (a : Val) : vlogic .and a (vinv a) = vzero a := by
  cases a <;> try g4b_unfold
theorem g4b_v_or_not_self (a : Val) : vlogic .or a (vinv a) = vone a := by
  cases a <;> try g4b_unfold
theorem g4b_v_xor_not_self (a : Val) : vlogic .xor a (vinv a) = vone a := by
  cases a <;> try g4b_unfold

theorem g4b_v_and_or_distrib (a b c : Val) :
    vlogic .and a (vlogic .or b c) = vlogic .or (vlogic .and a b) (vlogic .and a c) := by
  cases a <;> cases b <;> cases c <;> try g4b_unfold
  rename_i x y z; by_cases hx : x = 0 <;> by_cases hy : y = 0 <;> by_cases hz : z = 0 <;> simp [hx, hy, hz]
theorem g4b_v_or_and_distrib (a b c : Val) :
    vlogic .or a (vlogic .and b c) = vlogic .and (vlogic .or a b) (vlogic .or a c) := by
  cases a <;> cases b <;> cases c <;> try g4b_unfold
  rename_i x y z; by_cases hx : x = 0 <;> by_cases hy : y = 0 <;> by_cases hz : z = 0 <;> simp [hx, hy, hz]

/-- logical operators in terms of relational / arithmetic ones -/
theorem g4b_v_mb_ne_zero (a : Val) : vmb a = vrel .ne a (some 0) := by cases a <;> g4b_unfold
theorem g4b_v_invert_eq_zero (a : Val) : vinv a = vrel .eq a (some 0) := by cases a <;> g4b_unfold
theorem g4b_v_and_mul (a b : Val) : vlogic .and a b = vmul (vmb a) (vmb b) := by
  cases a <;> cases b <;> try g4b_unfold
  rename_i x y; by_cases hx : x = 0 <;> by_cases hy : y = 0 <;> simp [hx, hy]
theorem g4b_v_invert_sub (a : Val) : vinv a = vsub (some 1) (vmb a) := by
  cases a <;> try g4b_unfold
  rename_i x; by_cases hx : x = 0 <;> simp [hx]
theorem g4b_v_or_arith (a b : Val) : vlogic .or a b = vsub (vadd (vmb a) (vmb b)) (vlogic .and a b) := by
  cases a <;> cases b <;> try g4b_unfold
  rename_i x y; by_cases hx : x = 0 <;> by_cases hy : y = 0 <;> simp [hx, hy]
theorem g4b_v_xor_ne (a b : Val) : vlogic .xor a b = vrel .ne (vmb a) (vmb b) := by
  cases a <;> cases b <;> try g4b_unfold
  rename_i x y; by_cases hx : x = 0 <;> by_cases hy : y = 0 <;> simp [hx, hy]

/-! ## 3. arithmetic -/

theorem g4b_v_add_zero (a : Val) : vadd a (some 0) = a := by cases a <;> g4b_unfold
theorem g4b_v_zero_add (a : Val) : vadd (some 0) a = a := by cases a <;> g4b_unfold
theorem g4b_v_sub_zero (a : Val) : vsub a (some 0) = a := by cases a <;> g4b_unfold
theorem g4b_v_mul_one (a : Val) : vmul a (some 1) = a := by cases a <;> g4b_unfold
theorem g4b_v_one_mul (a : Val) : vmul (some 1) a = a := by cases a <;> g4b_unfold
theorem g4b_v_div_one (a : Val) : vdiv a (some 1) = a := by cases a <;> g4b_unfold
theorem g4b_v_mul_zero (a : Val) : vmul a (some 0) = vzero a := by cases a <;> g4b_unfold
theorem g4b_v_zero_mul (a : Val) : vmul (some 0) a = vzero a := by cases a <;> g4b_unfold
theorem g4b_v_sub_self (a : Val) : vsub a a = vzero a := by cases a <;> g4b_unfold
theorem g4b_v_zero_sub (a : Val) : vsub (some 0) a = vneg a := by cases a <;> g4b_unfold

/-- `a / a` is 1 exactly where `a` is defined and non-zero, undefined where `a` is 0 or undefined -/
theorem g4b_v_div_self (a : Val) : vdiv a a = whereOp (some 1) a := by
  cases a <;> try g4b_unfold
  rename_i x; by_cases hx : x = 0 <;> simp [hx]

theorem g4b_v_neg_neg (a : Val) : vneg (vneg a) = a := by cases a <;> g4b_unfold
theorem g4b_v_sub_eq_add_neg (a b : Val) : vsub a b = vadd a (vneg b) := by
  cases a <;> cases b <;> try g4b_unfold
  rename_i x y; ring
theorem g4b_v_neg_sub (a b : Val) : vneg (vsub a b) = vsub b a := by
  cases a <;> cases b <;> g4b_unfold
theorem g4b_v_neg_add (a b : Val) : vneg (vadd a b) = vadd (vneg a) (vneg b) := by
  cases a <;> cases b <;> try g4b_unfold
  rename_i x y; ring
theorem g4b_v_neg_eq_mul (a : Val) : vneg a = vmul a (some (-1)) := by cases a <;> g4b_unfold
theorem g4b_v_neg_mul (a b : Val) : vmul (vneg a) b = vneg (vmul a b) := by
  cases a <;> cases b <;> g4b_unfold
theorem g4b_v_add_self (a : Val) : vadd a a = vmul (some 2) a := by
  cases a <;> try g4b_unfold
  rename_i x; ring

/-- `(a * b) / b` is `a` exactly where `b` is defined and non-zero: that is `a.where(b)` -/
theorem g4b_v_mul_div_cancel (a b : Val) : vdiv (vmul a b) b = whereOp a b := by
  cases a <;> cases b <;> try g4b_unfold
  · rename_i y; by_cases hy : y = 0 <;> simp [hy]
theorem g4b_v_div_mul_cancel (a b : Val) : vmul (vdiv a b) b = whereOp a b := by
  cases a <;> cases b <;> try g4b_unfold
  · rename_i y; by_cases hy : y = 0 <;> simp [hy]

/-- `(a + b) − b` is `a` exactly where `b` is defined: that is `a.mask(isna b)` -/
theorem g4b_v_add_sub_cancel (a b : Val) : vsub (vadd a b) b = maskOp a (visna b) := by
  cases a <;> cases b <;> g4b_unfold
theorem g4b_v_sub_add_cancel (a b : Val) : vadd (vsub a b) b = maskOp a (visna b) := by
  cases a <;> cases b <;> g4b_unfold
theorem g4b_v_mask_isna_defined (a b : Val) (hb : b ≠ none) : maskOp a (visna b) = a := by
  cases b <;> first | exact absurd rfl hb | g4b_unfold

theorem g4b_v_add_right_cancel (a b c : Val) (hc : c ≠ none) (h : vadd a c = vadd b c) : a = b := by
  cases c with
  | none => exact absurd rfl hc
  | some z => cases a <;> cases b <;> simp [vadd, vlift2] at h ⊢; exact h
theorem g4b_v_mul_right_cancel (a b c : Val) (hc : c ≠ none) (hc0 : c ≠ some 0)
    (h : vmul a c = vmul b c) : a = b := by
  cases c with
  | none => exact absurd rfl hc
  | some z =>
    have hz : z ≠ 0 := fun e => hc0 (by rw [e])
    cases a <;> cases b <;> simp [vmul, vlift2] at h ⊢
    rcases h with h | h
    · exact h
    · exact absurd h hz

/-! ## 4. relational against arithmetic -/

theorem g4b_eval_sub_zero (r : Rel) (x y : Rat) : r.eval x y = r.eval (x - y) 0 := by
  have e1 : x < y ↔ x - y < 0 := by constructor <;> intro h <;> linarith
  have e2 : x ≤ y ↔ x - y ≤ 0 := by constructor <;> intro h <;> linarith
  have e3 : y < x ↔ 0 < x - y := by constructor <;> intro h <;> linarith
  have e4 : y ≤ x ↔ 0 ≤ x - y := by constructor <;> intro h <;> linarith
  have e5 : x = y ↔ x - y = 0 := by constructor <;> intro h <;> linarith
  cases r <;> simp only [Rel.eval, e1, e2, e3, e4, e5]

theorem g4b_v_rel_sub_zero (r : Rel) (a b : Val) : vrel r a b = vrel r (vsub a b) (some 0) := by
  cases a <;> cases b <;> simp [vrel, vsub, vlift2]
  rename_i x y; rw [g4b_eval_sub_zero]

theorem g4b_eval_add_right (r : Rel) (x y z : Rat) : r.eval (x + z) (y + z) = r.eval x y := by
  cases r <;> simp [Rel.eval]

theorem g4b_v_rel_add_right (r : Rel) (a b c : Val) :
    vrel r (vadd a c) (vadd b c) = maskOp (vrel r a b) (visna c) := by
  cases a <;> cases b <;> cases c <;> simp [vrel, vadd, vlift2, maskOp, UnOp.eval, b2r]
  rename_i x y z; rw [g4b_eval_add_right]

theorem g4b_eval_mul_pos (r : Rel) (k x y : Rat) (hk : 0 < k) : r.eval (k * x) (k * y) = r.eval x y := by
  cases r <;> simp [Rel.eval, hk, hk.ne']

theorem g4b_eval_mul_neg (r : Rel) (k x y : Rat) (hk : k < 0) : r.eval (k * x) (k * y) = r.eval y x := by
  cases r <;> simp [Rel.eval, hk, hk.ne, eq_comm]

theorem g4b_v_rel_mul_pos (r : Rel) (k : Rat) (hk : 0 < k) (a b : Val) :
    vrel r (vmul (some k) a) (vmul (some k) b) = vrel r a b := by
  cases a <;> cases b <;> simp [vrel, vmul, vlift2]
  rename_i x y; rw [g4b_eval_mul_pos r k x y hk]

/-- multiplying by a negative scalar swaps the operands of the comparison -/
theorem g4b_v_rel_mul_neg (r : Rel) (k : Rat) (hk : k < 0) (a b : Val) :
    vrel r (vmul (some k) a) (vmul (some k) b) = vrel r b a := by
  cases a <;> cases b <;> simp [vrel, vmul, vlift2]
  rename_i x y; rw [g4b_eval_mul_neg r k x y hk]

/-- scaling by 0 collapses `<` to 0 and `<=` to 1 on the common domain -/
theorem g4b_v_lt_mul_zero (a b : Val) :
    vrel .lt (vmul (some 0) a) (vmul (some 0) b) = vzero (vadd a b) := by
  cases a <;> cases b <;> g4b_unfold
theorem g4b_v_le_mul_zero (a b : Val) :
    vrel .le (vmul (some 0) a) (vmul (some 0) b) = vone (vadd a b) := by
  cases a <;> cases b <;> g4b_unfold

theorem g4b_v_rel_neg (r : Rel) (a b : Val) : vrel r (vneg a) (vneg b) = vrel r b a := by
  cases a <;> cases b <;> simp [vrel, UnOp.eval]
  rename_i x y
  have := g4b_eval_mul_neg r (-1) x y (by norm_num)
  simp only [neg_one_mul] at this
  rw [this]

/-! ## 5. masking -/

theorem g4b_v_where_mask_invert (a m : Val) : whereOp a m = maskOp a (vinv m) := by
  cases m <;> try g4b_unfold

theorem g4b_v_mask_eq_self (a : Val) : maskOp a (vrel .eq a a) = none := by cases a <;> g4b_unfold
theorem g4b_v_where_eq_self (a : Val) : whereOp a (vrel .eq a a) = a := by cases a <;> g4b_unfold
theorem g4b_v_mask_isna_self (a : Val) : maskOp a (visna a) = a := by cases a <;> g4b_unfold
theorem g4b_v_where_notna_self (a : Val) : whereOp a (vnotna a) = a := by cases a <;> g4b_unfold
theorem g4b_v_where_isna_self (a : Val) : whereOp a (visna a) = none := by cases a <;> g4b_unfold
theorem g4b_v_mask_notna_self (a : Val) : maskOp a (vnotna a) = none := by cases a <;> g4b_unfold

/-- filling the masked function from the original gives the original back — for *every* masker -/
theorem g4b_v_fill_mask (a m : Val) : fillOp (maskOp a m) a = a := by
  unfold maskOp; split <;> cases a <;> simp [fillOp]
theorem g4b_v_fill_where (a m : Val) : fillOp (whereOp a m) a = a := by
  rw [g4b_v_where_mask_invert]; exact g4b_v_fill_mask a _
/-- `mask` and `where` split `a` in two; glued together they give `a` where the masker is defined -/
theorem g4b_v_fill_mask_where (a m : Val) : fillOp (maskOp a m) (whereOp a m) = maskOp a (visna m) := by
  cases m <;> cases a <;> try g4b_unfold
  exact em _
theorem g4b_v_mask_idem (a m : Val) : maskOp (maskOp a m) m = maskOp a m := by
  unfold maskOp; split <;> rfl
theorem g4b_v_where_idem (a m : Val) : whereOp (whereOp a m) m = whereOp a m := by
  cases m <;> try g4b_unfold
  rename_i q; by_cases hq : q = 0 <;> simp [hq]
theorem g4b_v_where_mask (a m : Val) : whereOp (maskOp a m) m = none := by
  cases m <;> try g4b_unfold
  rename_i q; by_cases hq : q = 0 <;> simp [hq]
theorem g4b_v_mask_where (a m : Val) : maskOp (whereOp a m) m = none := by
  cases m <;> try g4b_unfold
  rename_i q; by_cases hq : q = 0 <;> simp [hq]
theorem g4b_v_where_self (a : Val) : whereOp a a = whereOp a (vrel .ne a (some 0)) := by
  cases a <;> try g4b_unfold
theorem g4b_v_mask_self (a : Val) : maskOp a a = whereOp a (vrel .eq a (some 0)) := by
  cases a <;> try g4b_unfold

/-! ## plumbing: from a one-point identity to an equality of canonical objects -/
namespace Stairs
variable {P : Type} [LinearOrder P]

/-- well-formedness of an expression built from `combine`, `unop`, `map`, `canon`, `const` over hypotheses -/
syntax "g4b_wf" : tactic
macro_rules
  | `(tactic| g4b_wf) => `(tactic| first
      | assumption
      | exact wf_const _ _
      | (apply wf_combine <;> g4b_wf)
      | (apply wf_unop; g4b_wf)
      | (apply wf_map; g4b_wf)
      | (apply wf_canon; g4b_wf))

/-- canonicity of the outermost result -/
macro "g4b_can" : tactic => `(tactic| first
      | assumption
      | exact canonical_const _ _
      | (apply canonical_combine <;> g4b_wf)
      | (apply canonical_unop; g4b_wf)
      | (apply canonical_map; g4b_wf)
      | (apply canonical_canon; g4b_wf))

/-- reduce an equality of two canonical results to the one-point identity between their right limits -/
macro "g4b_ext" x:ident : tactic => `(tactic|
  (refine canonical_ext _ _ (by g4b_can) (by g4b_can) (by first | rfl | assumption | (symm; assumption))
      (fun $x => ?_)
   simp (disch := g4b_wf) only [den_combine, den_unop, den_map, den_const, den_canon]))

/-- same reduction for a pointwise statement (any side `st`) -/
macro "g4b_den" : tactic => `(tactic|
   simp (disch := g4b_wf) only [den_combine, den_unop, den_map, den_const, den_canon])

theorem g4b_sideOf_eq (f g : Stairs P) (h : f.closed = g.closed) : sideOf f g = f.closed := by
  unfold sideOf
  split
  · rfl
  · split
    · exact h.symm
    · rfl

/-- for operands with the same closed side every checked two-operand operation succeeds with that side -/
theorem g4b_combineChecked_ok (op : Val → Val → Val) (f g : Stairs P) (h : f.closed = g.closed) :
    combineChecked op f g = .ok (combine op f g f.closed) := by
  rw [combineChecked_total _ _ _ (not_mismatch_of_closed_eq f g h), g4b_sideOf_eq f g h]

theorem g4b_binop_ok (o : BinOp) (f g : Stairs P) (h : f.closed = g.closed) :
    binop o f g = .ok (combine o.eval f g f.closed) := g4b_combineChecked_ok _ f g h
theorem g4b_mask_ok (f g : Stairs P) (h : f.closed = g.closed) :
    mask f g = .ok (combine maskOp f g f.closed) := g4b_combineChecked_ok _ f g h
theorem g4b_where_ok (f g : Stairs P) (h : f.closed = g.closed) :
    where_ f g = .ok (combine whereOp f g f.closed) := g4b_combineChecked_ok _ f g h
theorem g4b_fillna_ok (f g : Stairs P) (h : f.closed = g.closed) :
    fillnaStairs f g = .ok (combine fillOp f g f.closed) := g4b_combineChecked_ok _ f g h

/-- a scalar operand is the step-free constant with the other operand's side -/
theorem g4b_binopO_right (o : BinOp) (f : Stairs P) (c : Val) :
    binopO o (.st f) (.sc c) = some (.ok (combine o.eval f (const c f.closed) f.closed)) := by
  simp only [binopO, sanitize, Option.map_some]
  rw [g4b_binop_ok o f (const c f.closed) rfl]
theorem g4b_binopO_left (o : BinOp) (g : Stairs P) (c : Val) :
    binopO o (.sc c) (.st g) = some (.ok (combine o.eval (const c g.closed) g g.closed)) := by
  simp only [binopO, sanitize, Option.map_some]
  rw [g4b_binop_ok o (const c g.closed) g rfl]; rfl

end Stairs
end SC
