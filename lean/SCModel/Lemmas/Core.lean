import SCModel.Model.Basic
import Mathlib.Order.Defs.LinearOrder
import Mathlib.Tactic.Order
import Mathlib.Tactic.Tauto
/-!
# SCModel.Lemmas.Core — the one-sided limit and the general two-operand path

* `lim_zip`      zipping two samplings taken on a common index commutes with `lim` (any operator)
* `lim_refine`   sampling right limits on a sorted superset of the step points denotes the same function
* `lim_combineSteps`  hence the union / conform / operate path is pointwise, for both limits
* `lim_removeRedundant`, `minimal_removeRedundant`  canonicalisation keeps the function and is minimal
-/
set_option linter.unusedSectionVars false
namespace SC
variable {P V W : Type} [LinearOrder P]

/-- strictly increasing step points -/
def Sorted (s : List (P × V)) : Prop := (s.map Prod.fst).Pairwise (· < ·)

theorem lim_cons (st : Bool) (a : V) (p : P) (v : V) (r : List (P × V)) (x : P) :
    lim st a ((p, v) :: r) x = if reached st p x then lim st v r x else a := rfl

@[simp] theorem lim_nil (st : Bool) (a : V) (x : P) : lim st a ([] : List (P × V)) x = a := rfl

theorem not_reached_of_lt {st : Bool} {p x : P} (h : x < p) : reached st p x = false := by
  cases st <;> simp [reached, h, not_lt_of_gt h]

theorem lt_of_not_reached {st : Bool} {p x q : P} (h : reached st p x = false) (hpq : p < q) : x < q := by
  cases st <;> simp [reached] at h <;> order

theorem reached_self_right (p : P) : reached false p p = true := by simp [reached]

theorem reached_of_lt_right {p q : P} (h : p < q) : reached false p q = true := by
  simp [reached, not_lt_of_gt h]

theorem reached_of_lt {st : Bool} {p x : P} (h : p < x) : reached st p x = true := by
  cases st <;> simp [reached, h, not_lt_of_gt h]

theorem reached_mono {st : Bool} {p q x : P} (hpq : p < q) (h : reached st q x = true) :
    reached st p x = true := by
  cases st <;> simp [reached] at h ⊢ <;> order

theorem reached_left_iff (p x : P) : reached true p x = true ↔ p < x := by simp [reached]
theorem reached_right_iff (p x : P) : reached false p x = true ↔ p ≤ x := by simp [reached]

theorem sorted_tail {p : P} {v : V} {s : List (P × V)} (h : Sorted ((p, v) :: s)) :
    Sorted s ∧ ∀ r ∈ s.map Prod.fst, p < r := by
  unfold Sorted at h ⊢; simp only [List.map_cons, List.pairwise_cons] at h; exact ⟨h.2, h.1⟩

theorem sorted_cons {p : P} {v : V} {s : List (P × V)} (hs : Sorted s)
    (h : ∀ r ∈ s.map Prod.fst, p < r) : Sorted ((p, v) :: s) := by
  unfold Sorted at hs ⊢; simp only [List.map_cons, List.pairwise_cons]; exact ⟨h, hs⟩

theorem sorted_nil : Sorted ([] : List (P × V)) := by simp [Sorted]

/-- left of all step points the limit is the initial value -/
theorem lim_before (st : Bool) (a : V) (s : List (P × V)) (x : P)
    (h : ∀ q ∈ s.map Prod.fst, x < q) : lim st a s x = a := by
  cases s with
  | nil => rfl
  | cons pv r =>
    obtain ⟨p, v⟩ := pv
    rw [lim_cons, not_reached_of_lt (h p (by simp))]; rfl

/-- a list repeating the initial value denotes the constant -/
theorem lim_const (st : Bool) (a : V) (idx : List P) (x : P) :
    lim st a (idx.map fun p => (p, a)) x = a := by
  induction idx with
  | nil => rfl
  | cons p r ih => simp only [List.map_cons, lim_cons, ih, ite_self]

/-- applying `u` to every value commutes with the limit -/
theorem lim_map (st : Bool) (u : V → W) (a : V) (s : List (P × V)) (x : P) :
    lim st (u a) (s.map fun pv => (pv.1, u pv.2)) x = u (lim st a s x) := by
  induction s generalizing a with
  | nil => rfl
  | cons pv r ih =>
    obtain ⟨p, v⟩ := pv
    simp only [List.map_cons, lim_cons]
    split
    · exact ih v
    · rfl

theorem lim_zip {U : Type} (st : Bool) (op : V → W → U) (F : P → V) (G : P → W) (idx : List P) (a : V) (b : W) (x : P) :
    lim st (op a b) (idx.map fun p => (p, op (F p) (G p))) x
      = op (lim st a (idx.map fun p => (p, F p)) x) (lim st b (idx.map fun p => (p, G p)) x) := by
  induction idx generalizing a b with
  | nil => rfl
  | cons p r ih =>
    simp only [List.map_cons, lim_cons]
    cases reached st p x
    · rfl
    · exact ih _ _

/-- the value at a step point of a sorted list is that row's value -/
theorem lim_at_head (a : V) (p : P) (v : V) (s : List (P × V)) (h : Sorted ((p, v) :: s)) :
    lim false a ((p, v) :: s) p = v := by
  rw [lim_cons, reached_self_right]; exact lim_before false v s p (sorted_tail h).2

theorem lim_refine (st : Bool) (idx : List P) (hidx : idx.Pairwise (· < ·)) :
    ∀ (a : V) (s : List (P × V)), Sorted s → (∀ q ∈ s.map Prod.fst, q ∈ idx) → ∀ x,
      lim st a (idx.map fun p => (p, lim false a s p)) x = lim st a s x := by
  induction idx with
  | nil =>
    intro a s _ hsub x
    cases s with
    | nil => rfl
    | cons pv r => exact absurd (hsub pv.1 (by simp)) (by simp)
  | cons p idx' ih =>
    intro a s hs hsub x
    rw [List.pairwise_cons] at hidx
    obtain ⟨hp, hidx'⟩ := hidx
    cases s with
    | nil => simpa [lim] using lim_const st a (p :: idx') x
    | cons qw s' =>
      obtain ⟨q, w⟩ := qw
      have hs' : Sorted s' := (sorted_tail hs).1
      have hqs' : ∀ r ∈ s'.map Prod.fst, q < r := (sorted_tail hs).2
      have hq : q ∈ p :: idx' := hsub q (by simp)
      rcases List.mem_cons.mp hq with hqp | hqi
      · subst hqp
        have hsub' : ∀ r ∈ s'.map Prod.fst, r ∈ idx' := by
          intro r hr
          rcases List.mem_cons.mp (hsub r (by simp only [List.map_cons, List.mem_cons]; exact Or.inr hr)) with h | h
          · exact absurd (hqs' r hr) (by rw [h]; exact lt_irrefl _)
          · exact h
        have hval : lim false a ((q, w) :: s') q = w := lim_at_head a q w s' hs
        have hmap : (idx'.map fun p' => (p', lim false a ((q, w) :: s') p'))
                  = (idx'.map fun p' => (p', lim false w s' p')) := by
          apply List.map_congr_left
          intro p' hp'
          rw [lim_cons, reached_of_lt_right (hp p' hp')]; rfl
        simp only [List.map_cons, hval, hmap]
        rw [lim_cons, lim_cons, ih hidx' w s' hs' hsub' x]
      · have hpq : p < q := hp q hqi
        have hall : ∀ r ∈ ((q, w) :: s').map Prod.fst, p < r := by
          intro r hr
          simp only [List.map_cons, List.mem_cons] at hr
          rcases hr with h | h
          · rw [h]; exact hpq
          · exact lt_trans hpq (hqs' r h)
        have hsub' : ∀ r ∈ ((q, w) :: s').map Prod.fst, r ∈ idx' := by
          intro r hr
          rcases List.mem_cons.mp (hsub r hr) with h | h
          · exact absurd (hall r hr) (by rw [h]; exact lt_irrefl _)
          · exact h
        have hval : lim false a ((q, w) :: s') p = a := lim_before false a _ p hall
        simp only [List.map_cons, hval]
        rw [lim_cons, ih hidx' a _ hs hsub' x]
        cases hc : reached st p x
        · symm
          apply lim_before
          intro r hr
          exact lt_of_not_reached hc (hall r hr)
        · rfl

/-! ## `unionIdx` -/

theorem mem_unionIdx (xs ys : List P) (z : P) : z ∈ unionIdx xs ys ↔ z ∈ xs ∨ z ∈ ys := by
  fun_induction unionIdx xs ys with
  | case1 ys => simp
  | case2 xs h => simp
  | case3 x xs y ys hxy ih => simp only [List.mem_cons, ih]; tauto
  | case4 x xs y ys hxy hyx ih => simp only [List.mem_cons, ih]; tauto
  | case5 x xs y ys hxy hyx ih =>
    have : x = y := le_antisymm (not_lt.mp hyx) (not_lt.mp hxy)
    subst this
    simp only [List.mem_cons, ih]; tauto

theorem pairwise_unionIdx (xs ys : List P) (hx : xs.Pairwise (· < ·)) (hy : ys.Pairwise (· < ·)) :
    (unionIdx xs ys).Pairwise (· < ·) := by
  fun_induction unionIdx xs ys with
  | case1 ys => exact hy
  | case2 xs h => exact hx
  | case3 x xs y ys hxy ih =>
    rw [List.pairwise_cons] at hx
    rw [List.pairwise_cons]
    refine ⟨?_, ih hx.2 hy⟩
    intro z hz
    rcases (mem_unionIdx _ _ _).mp hz with h | h
    · exact hx.1 z h
    · rcases List.mem_cons.mp h with h | h
      · rw [h]; exact hxy
      · exact lt_trans hxy ((List.pairwise_cons.mp hy).1 z h)
  | case4 x xs y ys hxy hyx ih =>
    rw [List.pairwise_cons] at hy
    rw [List.pairwise_cons]
    refine ⟨?_, ih hx hy.2⟩
    intro z hz
    rcases (mem_unionIdx _ _ _).mp hz with h | h
    · rcases List.mem_cons.mp h with h | h
      · rw [h]; exact hyx
      · exact lt_trans hyx ((List.pairwise_cons.mp hx).1 z h)
    · exact hy.1 z h
  | case5 x xs y ys hxy hyx ih =>
    have hxy' : x = y := le_antisymm (not_lt.mp hyx) (not_lt.mp hxy)
    subst hxy'
    rw [List.pairwise_cons] at hx hy
    rw [List.pairwise_cons]
    refine ⟨?_, ih hx.2 hy.2⟩
    intro z hz
    rcases (mem_unionIdx _ _ _).mp hz with h | h
    · exact hx.1 z h
    · exact hy.1 z h

/-! ## the general two-operand path -/

theorem map_fst_combineSteps {U : Type} (op : V → W → U) (a : V) (f : List (P × V)) (b : W) (g : List (P × W)) :
    (combineSteps op a f b g).map Prod.fst = unionIdx (f.map Prod.fst) (g.map Prod.fst) := by
  simp [combineSteps, List.map_map, Function.comp_def]

theorem sorted_combineSteps {U : Type} (op : V → W → U) (a : V) (f : List (P × V)) (b : W) (g : List (P × W))
    (hf : Sorted f) (hg : Sorted g) : Sorted (combineSteps op a f b g) := by
  unfold Sorted; rw [map_fst_combineSteps]; exact pairwise_unionIdx _ _ hf hg

/-- **The union / conform / operate path is pointwise, for both one-sided limits.** -/
theorem lim_combineSteps {U : Type} (st : Bool) (op : V → W → U) (a : V) (f : List (P × V)) (b : W) (g : List (P × W))
    (hf : Sorted f) (hg : Sorted g) (x : P) :
    lim st (op a b) (combineSteps op a f b g) x = op (lim st a f x) (lim st b g x) := by
  unfold combineSteps
  have hidx := pairwise_unionIdx _ _ hf hg
  rw [lim_zip st op (fun p => lim false a f p) (fun p => lim false b g p)]
  rw [lim_refine st _ hidx a f hf (fun q hq => (mem_unionIdx _ _ _).mpr (Or.inl hq)),
      lim_refine st _ hidx b g hg (fun q hq => (mem_unionIdx _ _ _).mpr (Or.inr hq))]

/-! ## canonicalisation -/
section canon
variable [DecidableEq V]

theorem lim_removeRedundant (st : Bool) (a : V) (s : List (P × V)) (hs : Sorted s) (x : P) :
    lim st a (removeRedundant a s) x = lim st a s x := by
  induction s generalizing a with
  | nil => rfl
  | cons pv r ih =>
    obtain ⟨p, v⟩ := pv
    have hr := sorted_tail hs
    simp only [removeRedundant]
    split
    · rename_i h; subst h
      rw [ih _ hr.1, lim_cons]
      cases hc : reached st p x
      · exact lim_before st v r x (fun q hq => lt_of_not_reached hc (hr.2 q hq))
      · rfl
    · rw [lim_cons, lim_cons, ih _ hr.1]

theorem minimal_removeRedundant (a : V) (s : List (P × V)) : Minimal a (removeRedundant a s) := by
  induction s generalizing a with
  | nil => trivial
  | cons pv r ih =>
    obtain ⟨p, v⟩ := pv
    simp only [removeRedundant]
    split
    · exact ih a
    · exact ⟨by assumption, ih v⟩

theorem fst_removeRedundant_sub (a : V) (s : List (P × V)) :
    ∀ q ∈ (removeRedundant a s).map Prod.fst, q ∈ s.map Prod.fst := by
  induction s generalizing a with
  | nil => simp [removeRedundant]
  | cons pv r ih =>
    obtain ⟨p, v⟩ := pv
    intro q hq
    simp only [removeRedundant] at hq
    split at hq
    · exact List.mem_cons_of_mem _ (ih _ q hq)
    · simp only [List.map_cons, List.mem_cons] at hq ⊢
      rcases hq with h | h
      · exact Or.inl h
      · exact Or.inr (ih _ q h)

theorem sorted_removeRedundant (a : V) (s : List (P × V)) (hs : Sorted s) : Sorted (removeRedundant a s) := by
  induction s generalizing a with
  | nil => exact hs
  | cons pv r ih =>
    obtain ⟨p, v⟩ := pv
    have hr := sorted_tail hs
    simp only [removeRedundant]
    split
    · exact ih _ hr.1
    · exact sorted_cons (ih _ hr.1) (fun q hq => hr.2 q (fst_removeRedundant_sub _ _ q hq))

/-- a minimal list is a fixed point of canonicalisation -/
theorem removeRedundant_of_minimal (a : V) (s : List (P × V)) (h : Minimal a s) : removeRedundant a s = s := by
  induction s generalizing a with
  | nil => rfl
  | cons pv r ih =>
    obtain ⟨p, v⟩ := pv
    simp only [removeRedundant, if_neg h.1, ih v h.2]

end canon
end SC
