import SCModel.Lemmas.Pointwise
/-!
# SCModel.Lemmas.Masking — the interval indicator and `clip`
-/
set_option linter.unusedSectionVars false
namespace SC
namespace Stairs
variable {P : Type} [LinearOrder P]

/-- is `x` inside the window from `lo` to `hi` as seen by the `st`-sided limit?
right limits (`st = false`): `lo ≤ x < hi`;  left limits (`st = true`): `lo < x ≤ hi`;
a missing bound does not restrict. -/
def inWindow (st : Bool) (lo hi : Option P) (x : P) : Bool :=
  (match lo with | none => true | some a => reached st a x) &&
  (match hi with | none => true | some b => !reached st b x)

theorem inWindow_right (lo hi : Option P) (x : P) :
    inWindow false lo hi x = true ↔ (∀ a, lo = some a → a ≤ x) ∧ (∀ b, hi = some b → x < b) := by
  cases lo <;> cases hi <;> simp [inWindow, reached]

theorem inWindow_left (lo hi : Option P) (x : P) :
    inWindow true lo hi x = true ↔ (∀ a, lo = some a → a < x) ∧ (∀ b, hi = some b → x ≤ b) := by
  cases lo <;> cases hi <;> simp [inWindow, reached]

theorem wf_indicator (lo hi : Option P) (cl : Side) (h : boundsOk lo hi = true) : (indicator lo hi cl).WF := by
  cases lo <;> cases hi <;> simp_all [indicator, WF, Sorted, boundsOk]

/-- the indicator is 1 inside the window and 0 outside, everywhere defined -/
theorem den_indicator (lo hi : Option P) (cl : Side) (h : boundsOk lo hi = true) (st : Bool) (x : P) :
    Den (indicator lo hi cl) st x = some (if inWindow st lo hi x then 1 else 0) := by
  cases lo with
  | none =>
    cases hi with
    | none => simp [indicator, Den, inWindow]
    | some b =>
      simp only [indicator, Den, inWindow, Option.isNone_none, if_true, List.nil_append, lim_cons, lim_nil, Bool.true_and]
      cases reached st b x <;> simp
  | some a =>
    cases hi with
    | none =>
      simp only [indicator, Den, inWindow, Option.isNone_some, List.append_nil, lim_cons, lim_nil, Bool.and_true]
      cases reached st a x <;> simp
    | some b =>
      have hab : a < b := by simpa [boundsOk] using h
      simp only [indicator, Den, inWindow, Option.isNone_some, List.cons_append, List.nil_append, lim_cons, lim_nil]
      by_cases ha : reached st a x = true
      · by_cases hb : reached st b x = true <;> simp [ha, hb]
      · have hb : ¬ reached st b x = true := fun hb => ha (reached_mono hab hb)
        simp [ha, hb]

/-- **clip**: `f` inside the window, undefined outside; `ValueError` unless `lower < upper` -/
theorem clip_ok (f : Stairs P) (lo hi : Option P) (h : boundsOk lo hi = true) :
    clip f lo hi = .ok (combine whereOp f (indicator lo hi f.closed) f.closed) := by
  simp [clip, h]

theorem clip_error (f : Stairs P) (lo hi : Option P) (h : boundsOk lo hi = false) :
    clip f lo hi = .error .valueError := by
  simp [clip, h]

theorem den_clip (f : Stairs P) (lo hi : Option P) (hf : f.WF) (h : boundsOk lo hi = true) (r : Stairs P)
    (hr : clip f lo hi = .ok r) (st : Bool) (x : P) :
    Den r st x = if inWindow st lo hi x then Den f st x else none := by
  rw [clip_ok f lo hi h] at hr
  injection hr with hr; subst hr
  rw [den_combine _ _ _ _ hf (wf_indicator lo hi f.closed h), den_indicator lo hi f.closed h]
  cases inWindow st lo hi x <;> simp [whereOp]

theorem canonical_clip (f : Stairs P) (lo hi : Option P) (hf : f.WF) (h : boundsOk lo hi = true) (r : Stairs P)
    (hr : clip f lo hi = .ok r) : r.Canonical ∧ r.closed = f.closed := by
  rw [clip_ok f lo hi h] at hr
  injection hr with hr; subst hr
  exact ⟨canonical_combine _ _ _ _ hf (wf_indicator lo hi f.closed h), rfl⟩

theorem wf_layerIndicator (lo hi : Option P) (cl : Side) : (layerIndicator lo hi cl : Stairs P).WF := by
  unfold layerIndicator
  apply wf_canon
  cases lo <;> cases hi <;> simp [WF, Sorted]
  rename_i a b
  by_cases h1 : a < b
  · simp [h1]
  · by_cases h2 : b < a <;> simp [h1, h2]

/-- the indicator that `mask((a,b))` builds by layering is non-zero exactly inside the window (for `a < b`) -/
theorem den_layerIndicator (lo hi : Option P) (cl : Side) (hb : boundsOk lo hi = true) (st : Bool) (x : P) :
    Den (layerIndicator lo hi cl) st x = some (if inWindow st lo hi x then 1 else 0) := by
  have hwf : ∀ (g : Stairs P), g.WF → Den g.canon st x = Den g st x := fun g hg => den_canon g hg st x
  cases lo with
  | none =>
    cases hi with
    | none => simp [layerIndicator, Den, inWindow, canon, removeRedundant]
    | some b =>
      unfold layerIndicator
      rw [hwf _ (by simp [WF, Sorted])]
      simp only [Den, inWindow, lim_cons, lim_nil, Bool.true_and]
      cases reached st b x <;> simp
  | some a =>
    cases hi with
    | none =>
      unfold layerIndicator
      rw [hwf _ (by simp [WF, Sorted])]
      simp only [Den, inWindow, lim_cons, lim_nil, Bool.and_true]
      cases reached st a x <;> simp
    | some b =>
      have hab : a < b := by simpa [boundsOk] using hb
      unfold layerIndicator
      simp only [if_pos hab]
      rw [hwf _ (by simp [WF, Sorted, hab])]
      simp only [Den, inWindow, lim_cons, lim_nil]
      by_cases ha : reached st a x = true
      · by_cases hb' : reached st b x = true <;> simp [ha, hb']
      · have hb' : ¬ reached st b x = true := fun h => ha (reached_mono hab h)
        simp [ha, hb']


end Stairs
end SC
