import SCModel.Lemmas.Forms
import SCModel.Lemmas.Agg18b
import SCModel.Lemmas.Algebra4b
import SCModel.Model.Relabel
/-!
# SCModel.Lemmas.Forms16c — shortcuts on the step-CHANGE ("delta") column

Definitions of the candidate shortcuts (`scaleDeltas`, `negDeltas`, `addConstDeltas`, `rsubDeltas`,
`relabelDeltas` / `shiftDeltas`, each optionally followed by the delta-form clean-up
`DStairs.removeRedundant`), of the predicate "a zero change sits at a genuine step point"
(`zeroAtStep`, `Stairs.zeroDeltaAtStep`) and its delta-free description (`gapReentry`), and the
column-level lemmas behind `Props/C16c`.
-/
set_option linter.unusedSectionVars false
namespace SC

/-! ## definitions -/
section defs
variable {P : Type}

/-- the UN-canonicalised pointwise image of `f` under `v ↦ k·v + c` (same step points) -/
def Stairs.affVals (k c : Rat) (f : Stairs P) : Stairs P :=
  ⟨f.init.map (fun v => k * v + c), f.steps.map (fun pv => (pv.1, pv.2.map (fun v => k * v + c))), f.closed⟩

/-- the generic affine shortcut on the delta form: initial value `↦ k·v + c`, every change `↦ k·d` -/
def affDeltas (k c : Rat) (d : DStairs P) : DStairs P :=
  ⟨d.init.map (fun v => k * v + c), d.deltas.map (fun pd => (pd.1, pd.2.map (fun v => k * v))), d.closed⟩

/-- `k * f` on the delta form: multiply the initial value and every change by `k` -/
def scaleDeltas (k : Rat) (d : DStairs P) : DStairs P :=
  ⟨d.init.map (fun v => k * v), d.deltas.map (fun pd => (pd.1, pd.2.map (fun v => k * v))), d.closed⟩

/-- `-f` on the delta form: negate the initial value and every change -/
def negDeltas (d : DStairs P) : DStairs P :=
  ⟨d.init.map (fun v => -v), d.deltas.map (fun pd => (pd.1, pd.2.map (fun v => -v))), d.closed⟩

/-- `f + c` on the delta form: only the initial value changes -/
def addConstDeltas (c : Rat) (d : DStairs P) : DStairs P :=
  ⟨d.init.map (fun v => v + c), d.deltas, d.closed⟩

/-- `c - f` on the delta form: initial value `c - init`, every change negated -/
def rsubDeltas (c : Rat) (d : DStairs P) : DStairs P :=
  ⟨d.init.map (fun v => c - v), d.deltas.map (fun pd => (pd.1, pd.2.map (fun v => -v))), d.closed⟩

/-- the shortcut followed by `_remove_redundant_step_points` on the delta column (as `opDeltas` does) -/
def affPath (k c : Rat) (d : DStairs P) : DStairs P := (affDeltas k c d).removeRedundant
def scalePath (k : Rat) (d : DStairs P) : DStairs P := (scaleDeltas k d).removeRedundant
def negPath (d : DStairs P) : DStairs P := (negDeltas d).removeRedundant
def addConstPath (c : Rat) (d : DStairs P) : DStairs P := (addConstDeltas c d).removeRedundant
def rsubPath (c : Rat) (d : DStairs P) : DStairs P := (rsubDeltas c d).removeRedundant

/-- re-label the step points of a delta form, changes untouched -/
def relabelDeltas {Q : Type} (φ : P → Q) (d : DStairs P) : DStairs Q :=
  ⟨d.init, d.deltas.map (fun pd => (φ pd.1, pd.2)), d.closed⟩

/-- `shift(δ)` on the delta form -/
def shiftDeltas [Add P] (d : DStairs P) (δ : P) : DStairs P :=
  ⟨d.init, d.deltas.map (fun pd => (pd.1 + δ, pd.2)), d.closed⟩

/-- value rows and change rows side by side: some row carries the change `0` although its value differs
from the value to its left (`prev`) -/
def zeroAtStep (prev : Val) : List (P × Val) → List (P × Val) → Bool
  | (_, v) :: r, (_, d) :: s => (decide (d = some 0) && decide (v ≠ prev)) || zeroAtStep v r s
  | _, _ => false

/-- **a zero change sits at a genuine step point** of `f` -/
def Stairs.zeroDeltaAtStep (f : Stairs P) : Bool := zeroAtStep f.init f.steps (Stairs.stepChanges f)

/-- delta-free description: a defined value follows an undefined piece (`prev = none`) and equals the
last defined value before it (`last`; when nothing was defined before, `0` plays that role – the pandas
patch makes the first defined value its own change) -/
def gapReentry (prev last : Val) : List (P × Val) → Bool
  | [] => false
  | (_, none) :: r => gapReentry none last r
  | (_, some v) :: r => (prev.isNone && decide (last.getD 0 = v)) || gapReentry (some v) (some v) r

/-- `f` re-enters, after an undefined piece, the value it had before that piece -/
def Stairs.hasGapReentry (f : Stairs P) : Bool := gapReentry f.init f.init f.steps

/-- a defined value directly follows an undefined one (`prev` = value to the left) -/
def returnsFromNaFrom (prev : Val) : List (P × Val) → Bool
  | [] => false
  | (_, none) :: r => returnsFromNaFrom none r
  | (_, some v) :: r => prev.isNone || returnsFromNaFrom (some v) r

/-- somewhere `f` becomes defined again after being undefined (towards −∞ or on a piece) -/
def Stairs.returnsFromNa (f : Stairs P) : Bool := returnsFromNaFrom f.init f.steps

/-- the round-trip proviso is decidable -/
instance f16c_decHeadOk (init : Val) (col : List (P × Val)) : Decidable (Stairs.HeadOk init col) := by
  unfold Stairs.HeadOk; infer_instance

end defs

/-! ## bare columns under `v ↦ k·v + c` -/

theorem f16c_diffSkip_aff (k c : Rat) (last : Val) (vals : List Val) :
    (diffSkip last vals).map (Option.map fun v => k * v)
      = diffSkip (last.map fun v => k * v + c) (vals.map (Option.map fun v => k * v + c)) := by
  induction vals generalizing last with
  | nil => rfl
  | cons v r ih =>
    cases v with
    | none => simp [diffSkip, ih]
    | some v =>
      cases last with
      | none => simpa [diffSkip] using ih (some v)
      | some l =>
        have h : k * (v - l) = k * v + c - (k * l + c) := by grind
        simpa [diffSkip, h] using ih (some v)

theorem f16c_deltasFromVals_aff (k c : Rat) (init : Val) (vals : List Val) (h : init ≠ none ∨ c = 0) :
    (deltasFromVals init vals).map (Option.map fun v => k * v)
      = deltasFromVals (init.map fun v => k * v + c) (vals.map (Option.map fun v => k * v + c)) := by
  cases init with
  | some a =>
    rw [deltasFromVals_some, Option.map_some, deltasFromVals_some]
    exact f16c_diffSkip_aff k c (some a) vals
  | none =>
    have hc : c = 0 := h.resolve_left (fun h' => h' rfl)
    subst hc
    cases vals with
    | nil => rfl
    | cons v r =>
      cases v with
      | none =>
        simp only [List.map_cons, Option.map_none, deltasFromVals_none_none]
        rw [f16c_diffSkip_aff k 0 none r]; rfl
      | some v =>
        simp only [List.map_cons, Option.map_none, Option.map_some, deltasFromVals_none_some]
        rw [f16c_diffSkip_aff k 0 (some v) r]
        simp

theorem f16c_cumsumSkip_aff (k c a : Rat) (ds : List Val) :
    cumsumSkip (k * a + c) (ds.map (Option.map fun v => k * v))
      = (cumsumSkip a ds).map (Option.map fun v => k * v + c) := by
  induction ds generalizing a with
  | nil => rfl
  | cons d r ih =>
    cases d with
    | none => simp [cumsumSkip, ih]
    | some d =>
      have h : k * a + c + k * d = k * (a + d) + c := by grind
      simp [cumsumSkip, h, ih]

theorem f16c_valsFromDeltas_aff (k c : Rat) (init : Val) (ds : List Val) (h : init ≠ none ∨ c = 0) :
    valsFromDeltas (init.map fun v => k * v + c) (ds.map (Option.map fun v => k * v))
      = (valsFromDeltas init ds).map (Option.map fun v => k * v + c) := by
  rw [valsFromDeltas_eq, valsFromDeltas_eq]
  cases init with
  | some a => exact f16c_cumsumSkip_aff k c a ds
  | none =>
    have hc : c = 0 := h.resolve_left (fun h' => h' rfl)
    subst hc
    have := f16c_cumsumSkip_aff k 0 0 ds
    have h0 : k * 0 + 0 = (0 : Rat) := by grind
    rw [h0] at this
    exact this

/-! ## rows -/
section rows
variable {P Q : Type}

theorem f16c_zip_map_snd (l : List P) (m : List Val) (u : Val → Val) :
    (l.zip m).map (fun pd => (pd.1, u pd.2)) = l.zip (m.map u) := by
  induction l generalizing m with
  | nil => rfl
  | cons p r ih => cases m with
    | nil => rfl
    | cons d s => simp [ih]

theorem f16c_zip_map_fst (l : List P) (m : List Val) (φ : P → Q) :
    (l.zip m).map (fun pd => (φ pd.1, pd.2)) = (l.map φ).zip m := by
  induction l generalizing m with
  | nil => rfl
  | cons p r ih => cases m with
    | nil => rfl
    | cons d s => simp [ih]

/-- re-columning only looks at the data column … -/
theorem f16c_recolumn_map_snd (s : List (P × Val)) (u : Val → Val) (g : List Val → List Val) :
    recolumn (s.map fun pv => (pv.1, u pv.2)) g = (s.map Prod.fst).zip (g ((s.map Prod.snd).map u)) := by
  simp [recolumn, List.map_map, Function.comp_def]

/-- … and keeps the index whatever it is -/
theorem f16c_recolumn_map_fst (s : List (P × Val)) (φ : P → Q) (g : List Val → List Val) :
    recolumn (s.map fun pv => (φ pv.1, pv.2)) g = (recolumn s g).map fun pd => (φ pd.1, pd.2) := by
  rw [recolumn, recolumn, f16c_zip_map_fst]
  simp [List.map_map, Function.comp_def]

theorem f16c_recolumn_aff (k c : Rat) (init : Val) (s : List (P × Val)) (h : init ≠ none ∨ c = 0) :
    recolumn (s.map fun pv => (pv.1, pv.2.map fun v => k * v + c)) (deltasFromVals (init.map fun v => k * v + c))
      = (recolumn s (deltasFromVals init)).map fun pd => (pd.1, pd.2.map fun v => k * v) := by
  rw [f16c_recolumn_map_snd, recolumn, f16c_zip_map_snd, f16c_deltasFromVals_aff k c init _ h]

theorem f16c_recolumn_aff_vals (k c : Rat) (init : Val) (ds : List (P × Val)) (h : init ≠ none ∨ c = 0) :
    recolumn (ds.map fun pd => (pd.1, pd.2.map fun v => k * v)) (valsFromDeltas (init.map fun v => k * v + c))
      = (recolumn ds (valsFromDeltas init)).map fun pv => (pv.1, pv.2.map fun v => k * v + c) := by
  rw [f16c_recolumn_map_snd, recolumn, f16c_zip_map_snd, f16c_valsFromDeltas_aff k c init _ h]

theorem f16c_removeRedundantDeltasFrom_relabel (φ : P → Q) (b : Bool) (ds : List (P × Val)) :
    removeRedundantDeltasFrom b (ds.map fun pd => (φ pd.1, pd.2))
      = (removeRedundantDeltasFrom b ds).map fun pd => (φ pd.1, pd.2) := by
  induction ds generalizing b with
  | nil => rfl
  | cons pd r ih =>
    obtain ⟨p, d⟩ := pd
    cases d with
    | none =>
      simp only [List.map_cons, removeRedundantDeltasFrom]
      split <;> simp [ih]
    | some d =>
      simp only [List.map_cons, removeRedundantDeltasFrom]
      split <;> simp [ih]

end rows

/-! ## redundancy removal on the delta column vs. on the value column -/
section removal
variable {P : Type} [LinearOrder P]

theorem f16c_fst_removeFrom_cumsum (b : Bool) (D : List (P × Val)) (acc : Rat) :
    ∀ q ∈ (recolumn (removeRedundantDeltasFrom b D) (cumsumSkip acc)).map Prod.fst, q ∈ D.map Prod.fst := by
  intro q hq
  rw [map_fst_recolumn_cumsumSkip] at hq
  exact ((removeRedundantDeltasFrom_sublist b D).map Prod.fst).subset hq

theorem f16c_map_fst_recolumn_diffSkip (s : List (P × Val)) (last : Val) :
    (recolumn s (diffSkip last)).map Prod.fst = s.map Prod.fst :=
  map_fst_recolumn s _ (by rw [diffSkip_length, List.length_map])

/-- **the regular state** (`l` = last defined value, `prev` = value to the left, which is `l` or undefined):
the delta-column removal followed by the running sum reproduces the value-column removal exactly when no
zero change sits at a genuine step point -/
theorem f16c_removal_iff (s : List (P × Val)) (hs : Sorted s) (l : Rat) (prev : Val)
    (hp : prev = none ∨ prev = some l) :
    recolumn (removeRedundantDeltasFrom prev.isNone (recolumn s (diffSkip (some l)))) (cumsumSkip l)
        = removeRedundant prev s
      ↔ zeroAtStep prev s (recolumn s (diffSkip (some l))) = false := by
  induction s generalizing l prev with
  | nil => simp [recolumn_nil, removeRedundantDeltasFrom, removeRedundant, zeroAtStep]
  | cons pv r ih =>
    obtain ⟨p, v⟩ := pv
    have hr := sorted_tail hs
    cases v with
    | none =>
      rw [recolumn_diffSkip_cons_none]
      rcases hp with rfl | rfl
      · simpa [zeroAtStep, removeRedundantDeltasFrom, removeRedundant] using ih hr.1 l none (Or.inl rfl)
      · simpa [zeroAtStep, removeRedundantDeltasFrom, removeRedundant, recolumn_cumsumSkip_cons_none]
          using ih hr.1 l none (Or.inl rfl)
    | some v =>
      rw [recolumn_diffSkip_cons_some]
      by_cases hv : v = l
      · subst hv
        have h0 : v - v = 0 := by grind
        rcases hp with rfl | rfl
        · -- zero change at a genuine step point: the delta path drops the row, the value path keeps it
          have hne : recolumn (removeRedundantDeltasFrom false (recolumn r (diffSkip (some v)))) (cumsumSkip v)
              ≠ (p, some v) :: removeRedundant (some v) r := by
            intro h
            have hmem := f16c_fst_removeFrom_cumsum false (recolumn r (diffSkip (some v))) v p
              (by rw [h]; simp)
            rw [f16c_map_fst_recolumn_diffSkip] at hmem
            exact lt_irrefl _ (hr.2 p hmem)
          simpa [zeroAtStep, removeRedundantDeltasFrom, removeRedundant, h0] using hne
        · simpa [zeroAtStep, removeRedundantDeltasFrom, removeRedundant, h0]
            using ih hr.1 v (some v) (Or.inr rfl)
      · have h0 : v - l ≠ 0 := by grind
        have h1 : l + (v - l) = v := by grind
        have hne : some v ≠ prev := by
          rcases hp with rfl | rfl
          · simp
          · simpa using hv
        have := ih hr.1 v (some v) (Or.inr rfl)
        simp only [Option.isNone_some] at this
        simp only [Option.map_some, zeroAtStep, removeRedundantDeltasFrom, removeRedundant, if_neg h0, if_neg hne,
          recolumn_cumsumSkip_cons_some, h1, List.cons.injEq, true_and]
        simpa [h0] using this

theorem f16c_reached_of_ne {V : Type} (a : V) (p : P) (L r : List (P × V)) (hr : ∀ q ∈ r.map Prod.fst, p < q)
    (hL : ∀ q ∈ L.map Prod.fst, q ∈ r.map Prod.fst) (x : P) (h : lim false a L x ≠ lim false a r x) :
    reached false p x = true := by
  by_contra hc
  have hc' : reached false p x = false := by simpa using hc
  have hx : ∀ q ∈ r.map Prod.fst, x < q := fun q hq => lt_of_not_reached hc' (hr q hq)
  exact h (by rw [lim_before false a L x (fun q hq => hx q (hL q hq)), lim_before false a r x hx])

/-- … and when a zero change does sit at a genuine step point the two paths denote DIFFERENT functions
(not merely different rows) -/
theorem f16c_removal_den_ne (s : List (P × Val)) (hs : Sorted s) (l : Rat) (prev : Val)
    (hp : prev = none ∨ prev = some l)
    (hz : zeroAtStep prev s (recolumn s (diffSkip (some l))) = true) :
    ∃ x, lim false prev
        (recolumn (removeRedundantDeltasFrom prev.isNone (recolumn s (diffSkip (some l)))) (cumsumSkip l)) x
      ≠ lim false prev s x := by
  induction s generalizing l prev with
  | nil => simp [zeroAtStep] at hz
  | cons pv r ih =>
    obtain ⟨p, v⟩ := pv
    have hr := sorted_tail hs
    have hL : ∀ (b : Bool) (l' acc : Rat),
        ∀ q ∈ (recolumn (removeRedundantDeltasFrom b (recolumn r (diffSkip (some l')))) (cumsumSkip acc)).map Prod.fst,
          q ∈ r.map Prod.fst := by
      intro b l' acc q hq
      have := f16c_fst_removeFrom_cumsum b _ acc q hq
      rwa [f16c_map_fst_recolumn_diffSkip] at this
    cases v with
    | none =>
      rw [recolumn_diffSkip_cons_none] at hz ⊢
      have hz' : zeroAtStep none r (recolumn r (diffSkip (some l))) = true := by simpa [zeroAtStep] using hz
      obtain ⟨x, hx⟩ := ih hr.1 l none (Or.inl rfl) hz'
      have hreach := f16c_reached_of_ne none p _ r hr.2 (hL true l l) x hx
      refine ⟨x, ?_⟩
      rcases hp with rfl | rfl
      · simpa [removeRedundantDeltasFrom, lim_cons, hreach] using hx
      · simpa [removeRedundantDeltasFrom, recolumn_cumsumSkip_cons_none, lim_cons, hreach] using hx
    | some v =>
      rw [recolumn_diffSkip_cons_some] at hz ⊢
      by_cases hv : v = l
      · subst hv
        have h0 : v - v = 0 := by grind
        rcases hp with rfl | rfl
        · refine ⟨p, ?_⟩
          rw [lim_at_head none p (some v) r hs]
          simp only [Option.map_some, removeRedundantDeltasFrom, h0, if_true]
          rw [lim_before false none _ p (fun q hq => hr.2 q (hL false v v q hq))]
          simp
        · have hz' : zeroAtStep (some v) r (recolumn r (diffSkip (some v))) = true := by
            simpa [zeroAtStep, h0] using hz
          obtain ⟨x, hx⟩ := ih hr.1 v (some v) (Or.inr rfl) hz'
          have hreach := f16c_reached_of_ne (some v) p _ r hr.2 (hL false v v) x hx
          refine ⟨x, ?_⟩
          simpa [removeRedundantDeltasFrom, h0, lim_cons, hreach] using hx
      · have h0 : v - l ≠ 0 := by grind
        have h1 : l + (v - l) = v := by grind
        have hz' : zeroAtStep (some v) r (recolumn r (diffSkip (some v))) = true := by
          simpa [zeroAtStep, h0] using hz
        obtain ⟨x, hx⟩ := ih hr.1 v (some v) (Or.inr rfl) hz'
        have hreach := f16c_reached_of_ne (some v) p _ r hr.2 (hL false v v) x hx
        refine ⟨x, ?_⟩
        simpa [removeRedundantDeltasFrom, h0, recolumn_cumsumSkip_cons_some, h1, lim_cons, hreach] using hx

/-- a NaN-free column never has a zero change at a genuine step point -/
theorem f16c_zeroAtStep_allDef (s : List (P × Val)) (hs : AllDef s) (l : Rat) :
    zeroAtStep (some l) s (recolumn s (diffSkip (some l))) = false := by
  induction s generalizing l with
  | nil => simp [zeroAtStep]
  | cons pv r ih =>
    obtain ⟨p, v⟩ := pv
    rw [allDef_cons] at hs
    cases v with
    | none => exact absurd rfl hs.1
    | some v =>
      rw [recolumn_diffSkip_cons_some]
      simp only [zeroAtStep, ih hs.2 v, Bool.or_false, Option.map_some, Bool.and_eq_false_iff,
        decide_eq_false_iff_not, Option.some.injEq, ne_eq, Decidable.not_not]
      by_cases h : v = l
      · exact Or.inr h
      · exact Or.inl (by grind)

/-- the delta-free description of "zero change at a genuine step point" (regular state) -/
theorem f16c_zeroAtStep_eq_gapReentry (s : List (P × Val)) (l : Rat) (prev : Val)
    (hp : prev = none ∨ prev = some l) :
    zeroAtStep prev s (recolumn s (diffSkip (some l))) = gapReentry prev (some l) s := by
  induction s generalizing l prev with
  | nil => simp [zeroAtStep, gapReentry]
  | cons pv r ih =>
    obtain ⟨p, v⟩ := pv
    cases v with
    | none =>
      rw [recolumn_diffSkip_cons_none]
      simp only [zeroAtStep, gapReentry]
      rw [ih l none (Or.inl rfl)]; simp
    | some v =>
      rw [recolumn_diffSkip_cons_some]
      simp only [zeroAtStep, gapReentry, Option.map_some, Option.getD_some]
      rw [ih v (some v) (Or.inr rfl)]
      congr 1
      rcases hp with rfl | rfl
      · have : (v - l = 0) ↔ (l = v) := by constructor <;> intro h <;> grind
        simp [this]
      · by_cases h : v = l
        · subst h; simp
        · have : ¬ (v - l = 0) := by grind
          simp [this]

/-- nothing defined yet: `0` plays the role of the last defined value -/
theorem f16c_gapReentry_none (s : List (P × Val)) : gapReentry none none s = gapReentry none (some 0) s := by
  induction s with
  | nil => rfl
  | cons pv r ih =>
    obtain ⟨p, v⟩ := pv
    cases v with
    | none => simpa [gapReentry] using ih
    | some v => simp [gapReentry]

open Stairs in
/-- under the round-trip proviso (`HeadOk`: not "NaN first row after a NaN initial value") the whole change
column is in the regular state from the first row on, with `l = base` and `prev = initial value` -/
theorem f16c_state (f : Stairs P) (h : HeadOk f.init f.steps) :
    ∃ (l : Rat) (prev : Val), (prev = none ∨ prev = some l) ∧ f.init = prev ∧ baseOf f.init = l ∧
      stepChanges f = recolumn f.steps (diffSkip (some l)) ∧
      removeRedundantDeltas (stepChanges f) = removeRedundantDeltasFrom prev.isNone (stepChanges f) := by
  cases hi : f.init with
  | some a => exact ⟨a, some a, Or.inr rfl, rfl, rfl, stepChanges_eq f a hi, rfl⟩
  | none =>
    refine ⟨0, none, Or.inl rfl, rfl, rfl, ?_, ?_⟩
    · unfold stepChanges
      rw [hi]
      cases hs : f.steps with
      | nil => rfl
      | cons pv r =>
        obtain ⟨p, v⟩ := pv
        cases v with
        | none => exact absurd (by rw [hs]; rfl) (h hi)
        | some v =>
          rw [recolumn_diffSkip_cons_some]
          have h0 : v - 0 = v := by grind
          simp [recolumn, deltasFromVals_none_some, h0]
    · unfold stepChanges
      rw [hi]
      cases hs : f.steps with
      | nil => rfl
      | cons pv r =>
        obtain ⟨p, v⟩ := pv
        cases v with
        | none => exact absurd (by rw [hs]; rfl) (h hi)
        | some v => simp [recolumn, deltasFromVals_none_some, removeRedundantDeltas, removeRedundantDeltasFrom]

end removal

/-! ## the model's scalar operators are `canon` of the pointwise image -/
section modelops
variable {P : Type} [LinearOrder P]
open Stairs

theorem f16c_combine_const_right (op : Val → Val → Val) (f : Stairs P) (hf : f.WF) (cv : Val) (cl' cl : Side) :
    combine op f (const cv cl') cl
      = canon ⟨op f.init cv, f.steps.map (fun pv => (pv.1, op pv.2 cv)), cl⟩ := by
  unfold combine combineSteps
  simp only [const, List.map_nil, a18b_unionIdx_nil_right, lim_nil]
  have := congrArg (List.map fun pv : P × Val => (pv.1, op pv.2 cv)) (a18b_resample_self f.init f.steps hf)
  simp only [List.map_map, Function.comp_def] at this ⊢
  rw [this]

theorem f16c_combine_const_left (op : Val → Val → Val) (f : Stairs P) (hf : f.WF) (cv : Val) (cl' cl : Side) :
    combine op (const cv cl') f cl
      = canon ⟨op cv f.init, f.steps.map (fun pv => (pv.1, op cv pv.2)), cl⟩ := by
  unfold combine combineSteps
  have hidx : unionIdx ((const cv cl' : Stairs P).steps.map Prod.fst) (f.steps.map Prod.fst)
      = f.steps.map Prod.fst := by simp [const, unionIdx]
  rw [hidx]
  simp only [const, lim_nil]
  have := congrArg (List.map fun pv : P × Val => (pv.1, op cv pv.2)) (a18b_resample_self f.init f.steps hf)
  simp only [List.map_map, Function.comp_def] at this ⊢
  rw [this]

theorem f16c_canon_image_congr (u u' : Val → Val) (h : ∀ a, u a = u' a) (f : Stairs P) (cl : Side) :
    canon ⟨u f.init, f.steps.map (fun pv => (pv.1, u pv.2)), cl⟩
      = canon ⟨u' f.init, f.steps.map (fun pv => (pv.1, u' pv.2)), cl⟩ := by
  have : u = u' := funext h
  subst this; rfl

/-! ### the image `affVals k c f` -/

theorem f16c_wf_affVals (k c : Rat) (f : Stairs P) (hf : f.WF) : (affVals k c f).WF :=
  sorted_mapVals _ f.steps hf

theorem f16c_aff_injective (k c : Rat) (hk : k ≠ 0) : Function.Injective (fun v : Rat => k * v + c) := by
  intro a b h
  exact mul_left_cancel₀ hk (add_right_cancel h)

theorem f16c_map_aff_eq_iff (k c : Rat) (hk : k ≠ 0) (v w : Val) :
    v.map (fun v => k * v + c) = w.map (fun v => k * v + c) ↔ v = w :=
  (Option.map_injective (f16c_aff_injective k c hk)).eq_iff

theorem f16c_map_scale_zero_iff (k : Rat) (hk : k ≠ 0) (d : Val) :
    d.map (fun v => k * v) = some 0 ↔ d = some 0 := by
  cases d with
  | none => simp
  | some d => simp [hk]

theorem f16c_minimal_image (k c : Rat) (hk : k ≠ 0) (a : Val) (s : List (P × Val)) :
    Minimal (a.map fun v => k * v + c) (s.map fun pv => (pv.1, pv.2.map fun v => k * v + c)) ↔ Minimal a s := by
  induction s generalizing a with
  | nil => simp [Minimal]
  | cons pv r ih =>
    obtain ⟨p, v⟩ := pv
    simp only [List.map_cons, Minimal, ih, ne_eq, f16c_map_aff_eq_iff k c hk]

theorem f16c_minimal_affVals (k c : Rat) (hk : k ≠ 0) (f : Stairs P) : (affVals k c f).IsMinimal ↔ f.IsMinimal :=
  f16c_minimal_image k c hk f.init f.steps

theorem f16c_canonical_affVals (k c : Rat) (hk : k ≠ 0) (f : Stairs P) (hf : f.Canonical) :
    (affVals k c f).Canonical :=
  ⟨f16c_wf_affVals k c f hf.1, (f16c_minimal_affVals k c hk f).mpr hf.2⟩

theorem f16c_headOk_affVals (k c : Rat) (f : Stairs P) :
    HeadOk (affVals k c f).init (affVals k c f).steps ↔ HeadOk f.init f.steps := by
  unfold HeadOk affVals
  cases f.init with
  | some a => simp
  | none =>
    cases f.steps with
    | nil => simp
    | cons pv r => obtain ⟨p, v⟩ := pv; cases v <;> simp

theorem f16c_noNa_affVals (k c : Rat) (f : Stairs P) : (affVals k c f).noNa = f.noNa := by
  unfold noNa affVals
  cases f.init <;> simp [List.all_map, Function.comp_def]

theorem f16c_affVals_one_zero (f : Stairs P) : affVals 1 0 f = f := by
  unfold affVals
  cases f with
  | mk i s cl => simp

theorem f16c_den_affVals (k c : Rat) (f : Stairs P) (st : Bool) (x : P) :
    Den (affVals k c f) st x = (Den f st x).map fun v => k * v + c :=
  lim_map st (Option.map fun v => k * v + c) f.init f.steps x

/-- a non-zero scaling neither creates nor destroys "zero change at a genuine step point" -/
theorem f16c_zeroAtStep_aff (k c : Rat) (hk : k ≠ 0) (prev : Val) (s D : List (P × Val)) :
    zeroAtStep (prev.map fun v => k * v + c) (s.map fun pv => (pv.1, pv.2.map fun v => k * v + c))
        (D.map fun pd => (pd.1, pd.2.map fun v => k * v))
      = zeroAtStep prev s D := by
  induction s generalizing prev D with
  | nil => simp [zeroAtStep]
  | cons pv r ih =>
    obtain ⟨p, v⟩ := pv
    cases D with
    | nil => simp [zeroAtStep]
    | cons qd E =>
      obtain ⟨q, d⟩ := qd
      simp only [List.map_cons, zeroAtStep, ih, ne_eq, f16c_map_aff_eq_iff k c hk, f16c_map_scale_zero_iff k hk]

/-- every change `some 0` ⇒ the delta-form clean-up removes every row -/
theorem f16c_removeFrom_all_zero (b : Bool) (ds : List (P × Val)) (h : ∀ pd ∈ ds, pd.2 = some 0) :
    removeRedundantDeltasFrom b ds = [] := by
  induction ds generalizing b with
  | nil => rfl
  | cons pd r ih =>
    obtain ⟨p, d⟩ := pd
    have hd : d = some 0 := h (p, d) (by simp)
    subst hd
    simp only [removeRedundantDeltasFrom, if_true]
    exact ih _ (fun pd hpd => h pd (List.mem_cons_of_mem _ hpd))

end modelops

/-! ## misc -/
section misc
variable {P Q : Type} [LinearOrder P]

theorem f16c_allDef_recolumn_cumsumSkip (ds : List (P × Val)) (acc : Rat) (hd : AllDef ds) :
    AllDef (recolumn ds (cumsumSkip acc)) := by
  induction ds generalizing acc with
  | nil => rw [recolumn_nil]; exact allDef_nil
  | cons pd r ih =>
    obtain ⟨p, d⟩ := pd
    rw [allDef_cons] at hd
    cases d with
    | none => exact absurd rfl hd.1
    | some d =>
      rw [recolumn_cumsumSkip_cons_some, allDef_cons]
      exact ⟨by simp, ih _ hd.2⟩

/-- the predicate does not look at the step points -/
theorem f16c_zeroAtStep_relabel (φ : P → Q) (prev : Val) (s D : List (P × Val)) :
    zeroAtStep prev (s.map fun pv => (φ pv.1, pv.2)) (D.map fun pd => (φ pd.1, pd.2)) = zeroAtStep prev s D := by
  induction s generalizing prev D with
  | nil => simp [zeroAtStep]
  | cons pv r ih =>
    obtain ⟨p, v⟩ := pv
    cases D with
    | nil => simp [zeroAtStep]
    | cons qd E => obtain ⟨q, d⟩ := qd; simp only [List.map_cons, zeroAtStep, ih]

end misc

/-! ## `k = 0`: every defined value of the image is the same -/
section zero
variable {P : Type}

theorem f16c_gapReentry_const (c : Rat) (prev last : Val) (hl : last = none → c = 0) (hl' : ∀ a, last = some a → a = c)
    (s : List (P × Val)) :
    gapReentry (prev.map fun v => 0 * v + c) last (s.map fun pv => (pv.1, pv.2.map fun v => 0 * v + c))
      = returnsFromNaFrom prev s := by
  induction s generalizing prev last with
  | nil => rfl
  | cons pv r ih =>
    obtain ⟨p, v⟩ := pv
    cases v with
    | none => simpa [gapReentry, returnsFromNaFrom] using ih none last hl hl'
    | some v =>
      have hget : last.getD 0 = 0 * v + c := by
        cases hlast : last with
        | none => simp [hl hlast]
        | some a => simp [hl' a hlast]
      have := ih (some v) (some (0 * v + c)) (by simp) (by intro a ha; simp at ha; rw [← ha])
      simp only [Option.map_some] at this
      simp only [List.map_cons, Option.map_some, gapReentry, returnsFromNaFrom, hget, decide_true,
        Bool.and_true, this]
      cases prev <;> simp

end zero

end SC
