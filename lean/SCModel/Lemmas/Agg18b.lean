import SCModel.Lemmas.Agg
import Mathlib.Algebra.BigOperators.Group.List.Basic
import Mathlib.Algebra.Order.Field.Rat
import Mathlib.Data.List.Sort
import Mathlib.Tactic.Ring
import Mathlib.Tactic.Linarith
import Mathlib.Tactic.FieldSimp
/-!
# SCModel.Lemmas.Agg18b — order / symmetry laws of the one-point reductions behind `aggregate`

Helper lemmas for `Props/C18b`:
* `a18b_eval_perm`      every reduction is invariant under permuting the member values
* `a18b_eval_single`, `a18b_eval_pair_self`   one member / the same member twice
* `a18b_eval_sum_append`, `a18b_eval_min_append`, `a18b_eval_max_append`   reductions over an append
* `a18b_eval_bounds`    min ≤ mean ≤ max and min ≤ median ≤ max at one point
* `a18b_unionAll_perm`, `a18b_closedOfMembers_perm`   the index and the closed side under permutation
* `a18b_resample_self`  sampling a sorted row list on its own points gives the list back
-/
set_option linter.unusedSectionVars false
namespace SC
namespace Stairs

/-! ## `allDefined` under permutation -/

theorem a18b_allDefined_filterMap (vs : List Val) (xs : List Rat) (h : allDefined vs = some xs) :
    xs = vs.filterMap id := by
  rw [(allDefined_eq_some_iff vs xs).mp h]
  induction xs with
  | nil => rfl
  | cons x r ih => simp

theorem a18b_allDefined_perm_none (vs ws : List Val) (hp : vs.Perm ws) (h : allDefined vs = none) :
    allDefined ws = none := by
  rw [allDefined_eq_none_iff] at h ⊢
  exact hp.subset h

theorem a18b_allDefined_perm_some (vs ws : List Val) (hp : vs.Perm ws) (xs : List Rat)
    (h : allDefined vs = some xs) : ∃ ys, allDefined ws = some ys ∧ xs.Perm ys := by
  cases hw : allDefined ws with
  | none =>
    have := a18b_allDefined_perm_none ws vs hp.symm hw
    rw [h] at this; cases this
  | some ys =>
    refine ⟨ys, rfl, ?_⟩
    rw [a18b_allDefined_filterMap vs xs h, a18b_allDefined_filterMap ws ys hw]
    exact hp.filterMap id

theorem a18b_allDefined_append (vs ws : List Val) :
    allDefined (vs ++ ws) =
      match allDefined vs, allDefined ws with
      | some xs, some ys => some (xs ++ ys)
      | _, _ => none := by
  induction vs with
  | nil =>
    simp only [List.nil_append, allDefined]
    cases allDefined ws <;> rfl
  | cons v r ih =>
    cases v with
    | none => simp [allDefined]
    | some q =>
      simp only [List.cons_append, allDefined, ih]
      cases allDefined r <;> cases allDefined ws <;> rfl

/-! ## sorting -/

theorem a18b_insertSorted_perm (v : Rat) (l : List Rat) : (insertSorted v l).Perm (v :: l) := by
  induction l with
  | nil => exact List.Perm.refl _
  | cons w r ih =>
    simp only [insertSorted]
    split
    · exact List.Perm.refl _
    · exact (List.Perm.cons w ih).trans (List.Perm.swap v w r)

theorem a18b_insertSorted_sorted (v : Rat) (l : List Rat) (h : l.Pairwise (· ≤ ·)) :
    (insertSorted v l).Pairwise (· ≤ ·) := by
  induction l with
  | nil => simp [insertSorted]
  | cons w r ih =>
    rw [List.pairwise_cons] at h
    simp only [insertSorted]
    split
    · rename_i hvw
      rw [List.pairwise_cons]
      refine ⟨?_, List.pairwise_cons.mpr h⟩
      intro y hy
      rcases List.mem_cons.mp hy with h' | h'
      · rw [h']; exact hvw
      · exact le_trans hvw (h.1 y h')
    · rename_i hvw
      rw [List.pairwise_cons]
      refine ⟨?_, ih h.2⟩
      intro y hy
      rcases List.mem_cons.mp ((a18b_insertSorted_perm v r).subset hy) with h' | h'
      · rw [h']; exact le_of_lt (not_le.mp hvw)
      · exact h.1 y h'

theorem a18b_foldl_insertSorted (l acc : List Rat) (hacc : acc.Pairwise (· ≤ ·)) :
    (l.foldl (fun acc v => insertSorted v acc) acc).Perm (l ++ acc) ∧
    (l.foldl (fun acc v => insertSorted v acc) acc).Pairwise (· ≤ ·) := by
  induction l generalizing acc with
  | nil => exact ⟨List.Perm.refl _, hacc⟩
  | cons v r ih =>
    obtain ⟨h1, h2⟩ := ih (insertSorted v acc) (a18b_insertSorted_sorted v acc hacc)
    refine ⟨h1.trans ?_, h2⟩
    refine ((List.perm_append_left_iff r).mpr (a18b_insertSorted_perm v acc)).trans ?_
    simp

/-- `sortRat` is a sorted rearrangement -/
theorem a18b_sortRat_spec (l : List Rat) : (sortRat l).Perm l ∧ (sortRat l).Pairwise (· ≤ ·) := by
  have := a18b_foldl_insertSorted l [] List.Pairwise.nil
  simpa [sortRat] using this

/-- … hence depends only on the multiset of values -/
theorem a18b_sortRat_perm (xs ys : List Rat) (hp : xs.Perm ys) : sortRat xs = sortRat ys := by
  obtain ⟨p1, s1⟩ := a18b_sortRat_spec xs
  obtain ⟨p2, s2⟩ := a18b_sortRat_spec ys
  exact List.Perm.eq_of_pairwise (fun a b _ _ hab hba => le_antisymm hab hba) s1 s2
    (p1.trans (hp.trans p2.symm))

theorem a18b_medianOf_perm (xs ys : List Rat) (hp : xs.Perm ys) : medianOf xs = medianOf ys := by
  unfold medianOf; rw [a18b_sortRat_perm xs ys hp]

/-! ## least / greatest element -/

theorem a18b_listMin_iff (xs : List Rat) (m : Rat) :
    listMin xs = some m ↔ m ∈ xs ∧ ∀ y ∈ xs, m ≤ y := by
  constructor
  · exact listMin_spec xs m
  · intro ⟨hm, hle⟩
    have hne : xs ≠ [] := by intro h; rw [h] at hm; cases hm
    cases hx : listMin xs with
    | none => have := listMin_isSome xs hne; rw [hx] at this; cases this
    | some m' =>
      obtain ⟨hm', hle'⟩ := listMin_spec xs m' hx
      rw [le_antisymm (hle' m hm) (hle m' hm')]

theorem a18b_listMax_iff (xs : List Rat) (m : Rat) :
    listMax xs = some m ↔ m ∈ xs ∧ ∀ y ∈ xs, y ≤ m := by
  constructor
  · exact listMax_spec xs m
  · intro ⟨hm, hle⟩
    have hne : xs ≠ [] := by intro h; rw [h] at hm; cases hm
    cases hx : listMax xs with
    | none => have := listMax_isSome xs hne; rw [hx] at this; cases this
    | some m' =>
      obtain ⟨hm', hle'⟩ := listMax_spec xs m' hx
      rw [le_antisymm (hle m' hm') (hle' m hm)]

theorem a18b_listMin_perm (xs ys : List Rat) (hp : xs.Perm ys) : listMin xs = listMin ys := by
  cases hx : listMin xs with
  | none =>
    cases xs with
    | nil => rw [List.nil_perm.mp hp]; rfl
    | cons a r => cases hx
  | some m =>
    symm
    rw [a18b_listMin_iff] at hx ⊢
    exact ⟨hp.subset hx.1, fun y hy => hx.2 y (hp.symm.subset hy)⟩

theorem a18b_listMax_perm (xs ys : List Rat) (hp : xs.Perm ys) : listMax xs = listMax ys := by
  cases hx : listMax xs with
  | none =>
    cases xs with
    | nil => rw [List.nil_perm.mp hp]; rfl
    | cons a r => cases hx
  | some m =>
    symm
    rw [a18b_listMax_iff] at hx ⊢
    exact ⟨hp.subset hx.1, fun y hy => hx.2 y (hp.symm.subset hy)⟩

/-! ## every reduction is a function of the multiset of member values -/

theorem a18b_eval_perm (F : AggFn) (vs ws : List Val) (hp : vs.Perm ws) : F.eval vs = F.eval ws := by
  unfold AggFn.eval
  cases hv : allDefined vs with
  | none => rw [a18b_allDefined_perm_none vs ws hp hv]
  | some xs =>
    obtain ⟨ys, hw, hxy⟩ := a18b_allDefined_perm_some vs ws hp xs hv
    rw [hw]
    cases F
    · simp only [hxy.sum_eq]
    · simp only [hxy.sum_eq, hxy.length_eq]
    · exact a18b_medianOf_perm xs ys hxy
    · exact a18b_listMin_perm xs ys hxy
    · exact a18b_listMax_perm xs ys hxy
    · simp only [hxy.any_eq]
    · simp only [hxy.all_eq]

/-! ## one member, the same member twice -/

/-- the five numeric reductions of a single value return it -/
theorem a18b_eval_single (F : AggFn) (hF : F ≠ .logicalOr ∧ F ≠ .logicalAnd) (v : Val) : F.eval [v] = v := by
  cases v with
  | none => exact eval_none_of_mem F _ (by simp)
  | some q =>
    cases F
    · simp [AggFn.eval, allDefined]
    · simp [AggFn.eval, allDefined]
    · simp [AggFn.eval, allDefined, medianOf, sortRat, insertSorted]
    · rfl
    · rfl
    · exact absurd rfl hF.1
    · exact absurd rfl hF.2

/-- the logical reductions of a single value return its truth value -/
theorem a18b_eval_single_logical (F : AggFn) (hF : F = .logicalOr ∨ F = .logicalAnd) (v : Val) :
    F.eval [v] = UnOp.makeBoolean.eval v := by
  cases v with
  | none => exact eval_none_of_mem F _ (by simp)
  | some q =>
    rcases hF with h | h <;> subst h <;> simp [AggFn.eval, allDefined, UnOp.eval]

/-- mean / median / min / max of the same value twice return it -/
theorem a18b_eval_pair_self (F : AggFn) (hF : F = .mean ∨ F = .median ∨ F = .min ∨ F = .max) (v : Val) :
    F.eval [v, v] = v := by
  cases v with
  | none => exact eval_none_of_mem F _ (by simp)
  | some q =>
    rcases hF with h | h | h | h <;> subst h
    · simp only [AggFn.eval, allDefined, Option.map_some]
      simp only [List.length_cons, List.length_nil, List.sum_cons, List.sum_nil]
      norm_num
    · simp only [AggFn.eval, allDefined, Option.map_some, medianOf, sortRat, List.foldl_cons,
        List.foldl_nil, insertSorted, le_refl, if_true]
      simp only [List.length_cons, List.length_nil]
      norm_num
    · simp [AggFn.eval, allDefined, listMin]
    · simp [AggFn.eval, allDefined, listMax]

/-- the sum of the same value twice is `v + v` -/
theorem a18b_eval_sum_pair (v w : Val) : AggFn.sum.eval [v, w] = vadd v w := by
  rw [eval_sum_cons, eval_sum_cons]
  have : AggFn.sum.eval [] = some 0 := eval_nil.1
  rw [this, vadd_zero]

/-! ## reductions over an append -/

theorem a18b_eval_sum_append (vs ws : List Val) :
    AggFn.sum.eval (vs ++ ws) = vadd (AggFn.sum.eval vs) (AggFn.sum.eval ws) := by
  induction vs with
  | nil => rw [List.nil_append, eval_nil.1, zero_vadd]
  | cons v r ih => rw [List.cons_append, eval_sum_cons, eval_sum_cons, ih, vadd_assoc']

/-- binary pointwise minimum / maximum of two values (undefined if either is) -/
def a18b_vmin : Val → Val → Val := vlift2 min
def a18b_vmax : Val → Val → Val := vlift2 max

theorem a18b_listMin_append (xs ys : List Rat) (a b : Rat) (ha : listMin xs = some a) (hb : listMin ys = some b) :
    listMin (xs ++ ys) = some (min a b) := by
  rw [a18b_listMin_iff] at ha hb ⊢
  refine ⟨?_, ?_⟩
  · rcases min_choice a b with h | h <;> rw [h]
    · exact List.mem_append_left _ ha.1
    · exact List.mem_append_right _ hb.1
  · intro y hy
    rcases List.mem_append.mp hy with h | h
    · exact le_trans (min_le_left _ _) (ha.2 y h)
    · exact le_trans (min_le_right _ _) (hb.2 y h)

theorem a18b_listMax_append (xs ys : List Rat) (a b : Rat) (ha : listMax xs = some a) (hb : listMax ys = some b) :
    listMax (xs ++ ys) = some (max a b) := by
  rw [a18b_listMax_iff] at ha hb ⊢
  refine ⟨?_, ?_⟩
  · rcases max_choice a b with h | h <;> rw [h]
    · exact List.mem_append_left _ ha.1
    · exact List.mem_append_right _ hb.1
  · intro y hy
    rcases List.mem_append.mp hy with h | h
    · exact le_trans (ha.2 y h) (le_max_left _ _)
    · exact le_trans (hb.2 y h) (le_max_right _ _)

theorem a18b_eval_min_append (vs ws : List Val) (hv : vs ≠ []) (hw : ws ≠ []) :
    AggFn.min.eval (vs ++ ws) = a18b_vmin (AggFn.min.eval vs) (AggFn.min.eval ws) := by
  unfold AggFn.eval
  rw [a18b_allDefined_append]
  cases hvs : allDefined vs with
  | none => rfl
  | some xs =>
    cases hws : allDefined ws with
    | none => simp [a18b_vmin, vlift2]
    | some ys =>
      have hx : xs ≠ [] := by
        intro h; subst h; exact hv (by simpa using (allDefined_eq_some_iff vs []).mp hvs)
      have hy : ys ≠ [] := by
        intro h; subst h; exact hw (by simpa using (allDefined_eq_some_iff ws []).mp hws)
      cases ha : listMin xs with
      | none => have := listMin_isSome xs hx; rw [ha] at this; cases this
      | some a =>
        cases hb : listMin ys with
        | none => have := listMin_isSome ys hy; rw [hb] at this; cases this
        | some b =>
          simp only [a18b_vmin, vlift2, ha, hb]
          exact a18b_listMin_append xs ys a b ha hb

theorem a18b_eval_max_append (vs ws : List Val) (hv : vs ≠ []) (hw : ws ≠ []) :
    AggFn.max.eval (vs ++ ws) = a18b_vmax (AggFn.max.eval vs) (AggFn.max.eval ws) := by
  unfold AggFn.eval
  rw [a18b_allDefined_append]
  cases hvs : allDefined vs with
  | none => rfl
  | some xs =>
    cases hws : allDefined ws with
    | none => simp [a18b_vmax, vlift2]
    | some ys =>
      have hx : xs ≠ [] := by
        intro h; subst h; exact hv (by simpa using (allDefined_eq_some_iff vs []).mp hvs)
      have hy : ys ≠ [] := by
        intro h; subst h; exact hw (by simpa using (allDefined_eq_some_iff ws []).mp hws)
      cases ha : listMax xs with
      | none => have := listMax_isSome xs hx; rw [ha] at this; cases this
      | some a =>
        cases hb : listMax ys with
        | none => have := listMax_isSome ys hy; rw [hb] at this; cases this
        | some b =>
          simp only [a18b_vmax, vlift2, ha, hb]
          exact a18b_listMax_append xs ys a b ha hb

/-- the min / max of two values is their binary min / max -/
theorem a18b_eval_min_pair (v w : Val) : AggFn.min.eval [v, w] = a18b_vmin v w := by
  have := a18b_eval_min_append [v] [w] (by simp) (by simp)
  rw [a18b_eval_single .min (by decide), a18b_eval_single .min (by decide)] at this
  exact this
theorem a18b_eval_max_pair (v w : Val) : AggFn.max.eval [v, w] = a18b_vmax v w := by
  have := a18b_eval_max_append [v] [w] (by simp) (by simp)
  rw [a18b_eval_single .max (by decide), a18b_eval_single .max (by decide)] at this
  exact this

/-! ## bounds at one point -/

theorem a18b_sum_ge (xs : List Rat) (a : Rat) (h : ∀ y ∈ xs, a ≤ y) : (xs.length : Rat) * a ≤ xs.sum := by
  induction xs with
  | nil => simp
  | cons x r ih =>
    have h1 := h x (by simp)
    have h2 := ih fun y hy => h y (List.mem_cons_of_mem _ hy)
    simp only [List.length_cons, List.sum_cons, Nat.cast_add, Nat.cast_one]
    linarith

theorem a18b_sum_le (xs : List Rat) (c : Rat) (h : ∀ y ∈ xs, y ≤ c) : xs.sum ≤ (xs.length : Rat) * c := by
  induction xs with
  | nil => simp
  | cons x r ih =>
    have h1 := h x (by simp)
    have h2 := ih fun y hy => h y (List.mem_cons_of_mem _ hy)
    simp only [List.length_cons, List.sum_cons, Nat.cast_add, Nat.cast_one]
    linarith

/-- the arithmetic mean lies between any lower and upper bound of the values -/
theorem a18b_mean_between (xs : List Rat) (hne : xs ≠ []) (a c : Rat) (ha : ∀ y ∈ xs, a ≤ y)
    (hc : ∀ y ∈ xs, y ≤ c) : a ≤ xs.sum / (xs.length : Rat) ∧ xs.sum / (xs.length : Rat) ≤ c := by
  have hlen : (0 : Rat) < (xs.length : Rat) := by
    have : 0 < xs.length := List.length_pos_iff.mpr hne
    exact_mod_cast this
  constructor
  · rw [le_div_iff₀ hlen]; have := a18b_sum_ge xs a ha; linarith
  · rw [div_le_iff₀ hlen]; have := a18b_sum_le xs c hc; linarith

/-- the median lies between any lower and upper bound of the values -/
theorem a18b_median_between (xs : List Rat) (a c m : Rat) (ha : ∀ y ∈ xs, a ≤ y)
    (hc : ∀ y ∈ xs, y ≤ c) (hm : medianOf xs = some m) : a ≤ m ∧ m ≤ c := by
  have hp := (a18b_sortRat_spec xs).1
  unfold medianOf at hm
  simp only at hm
  generalize sortRat xs = s at hm hp
  have hmem : ∀ (k : Nat) (z : Rat), s[k]? = some z → a ≤ z ∧ z ≤ c := by
    intro k z hz
    have hz' : z ∈ xs := hp.subset (List.mem_of_getElem? hz)
    exact ⟨ha z hz', hc z hz'⟩
  split at hm
  · cases hm
  · split at hm
    · exact hmem _ m hm
    · split at hm
      · rename_i x y hx hy
        injection hm with hm
        obtain ⟨h1, h2⟩ := hmem _ x hx
        obtain ⟨h3, h4⟩ := hmem _ y hy
        subst hm
        constructor <;> linarith
      · cases hm

/-- **min ≤ mean ≤ max, min ≤ median ≤ max** at one point; the four are defined together -/
theorem a18b_eval_bounds (vs : List Val) :
    (AggFn.min.eval vs = none ↔ AggFn.mean.eval vs = none) ∧
    (AggFn.max.eval vs = none ↔ AggFn.mean.eval vs = none) ∧
    (AggFn.median.eval vs = none ↔ AggFn.mean.eval vs = none) ∧
    (∀ a b c, AggFn.min.eval vs = some a → AggFn.mean.eval vs = some b → AggFn.max.eval vs = some c →
      a ≤ b ∧ b ≤ c) ∧
    (∀ a m c, AggFn.min.eval vs = some a → AggFn.median.eval vs = some m → AggFn.max.eval vs = some c →
      a ≤ m ∧ m ≤ c) := by
  by_cases hne : vs = []
  · subst hne
    obtain ⟨_, h2, h3, h4, h5, _, _⟩ := eval_nil
    rw [h2, h3, h4, h5]
    simp
  · refine ⟨by rw [eval_none_iff _ _ hne, eval_none_iff _ _ hne],
      by rw [eval_none_iff _ _ hne, eval_none_iff _ _ hne],
      by rw [eval_none_iff _ _ hne, eval_none_iff _ _ hne], ?_, ?_⟩
    · intro a b c ha hb hc
      unfold AggFn.eval at ha hb hc
      cases hv : allDefined vs with
      | none => rw [hv] at ha; cases ha
      | some xs =>
        rw [hv] at ha hb hc
        simp only at ha hb hc
        have hx : xs ≠ [] := by
          intro h; subst h; exact hne (by simpa using (allDefined_eq_some_iff vs []).mp hv)
        have hlen : xs.length ≠ 0 := fun h => hx (List.length_eq_zero_iff.mp h)
        rw [if_neg hlen] at hb
        injection hb with hb
        subst hb
        exact a18b_mean_between xs hx a c (listMin_spec xs a ha).2 (listMax_spec xs c hc).2
    · intro a m c ha hm hc
      unfold AggFn.eval at ha hm hc
      cases hv : allDefined vs with
      | none => rw [hv] at ha; cases ha
      | some xs =>
        rw [hv] at ha hm hc
        exact a18b_median_between xs a c m (listMin_spec xs a ha).2 (listMax_spec xs c hc).2 hm

/-! ## the index under permutation -/

variable {P : Type} [LinearOrder P]

/-- strictly increasing lists with the same elements are equal -/
theorem a18b_sorted_ext (l₁ l₂ : List P) (h₁ : l₁.Pairwise (· < ·)) (h₂ : l₂.Pairwise (· < ·))
    (h : ∀ z, z ∈ l₁ ↔ z ∈ l₂) : l₁ = l₂ := by
  have n₁ : l₁.Nodup := h₁.imp fun hab => ne_of_lt hab
  have n₂ : l₂.Nodup := h₂.imp fun hab => ne_of_lt hab
  exact List.Perm.eq_of_pairwise (fun a b _ _ hab hba => absurd hba (lt_asymm hab)) h₁ h₂
    ((List.perm_ext_iff_of_nodup n₁ n₂).mpr h)

theorem a18b_unionAll_perm (ls ls' : List (List P)) (hp : ls.Perm ls') (h : ∀ l ∈ ls, l.Pairwise (· < ·)) :
    unionAll ls = unionAll ls' := by
  apply a18b_sorted_ext _ _ (pairwise_unionAll ls h)
    (pairwise_unionAll ls' fun l hl => h l (hp.symm.subset hl))
  intro z
  rw [mem_unionAll, mem_unionAll]
  constructor
  · rintro ⟨l, hl, hz⟩; exact ⟨l, hp.subset hl, hz⟩
  · rintro ⟨l, hl, hz⟩; exact ⟨l, hp.symm.subset hl, hz⟩

theorem a18b_unionIdx_nil_right (xs : List P) : unionIdx xs [] = xs := by
  cases xs <;> simp [unionIdx]

theorem a18b_unionIdx_self (xs : List P) : unionIdx xs xs = xs := by
  induction xs with
  | nil => simp [unionIdx]
  | cons x r ih => rw [unionIdx]; simp [ih]

theorem a18b_unionAll_append (ls ls' : List (List P)) (h : ∀ l ∈ ls, l.Pairwise (· < ·))
    (h' : ∀ l ∈ ls', l.Pairwise (· < ·)) :
    unionAll (ls ++ ls') = unionIdx (unionAll ls) (unionAll ls') := by
  apply a18b_sorted_ext
  · exact pairwise_unionAll _ fun l hl => (List.mem_append.mp hl).elim (h l) (h' l)
  · exact pairwise_unionIdx _ _ (pairwise_unionAll ls h) (pairwise_unionAll ls' h')
  · intro z
    rw [mem_unionIdx, mem_unionAll, mem_unionAll, mem_unionAll]
    constructor
    · rintro ⟨l, hl, hz⟩
      rcases List.mem_append.mp hl with h1 | h1
      · exact Or.inl ⟨l, h1, hz⟩
      · exact Or.inr ⟨l, h1, hz⟩
    · rintro (⟨l, hl, hz⟩ | ⟨l, hl, hz⟩)
      · exact ⟨l, List.mem_append_left _ hl, hz⟩
      · exact ⟨l, List.mem_append_right _ hl, hz⟩

/-- sampling the right limits of a sorted row list on its own points gives the list back -/
theorem a18b_resample_self {V : Type} (a : V) (s : List (P × V)) (hs : Sorted s) :
    (s.map Prod.fst).map (fun p => (p, lim false a s p)) = s := by
  induction s generalizing a with
  | nil => rfl
  | cons pv r ih =>
    obtain ⟨p, v⟩ := pv
    have hr := sorted_tail hs
    simp only [List.map_cons, List.cons.injEq]
    refine ⟨by rw [lim_at_head a p v r hs], ?_⟩
    have hmap : List.map (fun p' => (p', lim false a ((p, v) :: r) p')) (r.map Prod.fst)
        = List.map (fun p' => (p', lim false v r p')) (r.map Prod.fst) := by
      apply List.map_congr_left
      intro q hq
      rw [lim_cons, reached_of_lt_right (hr.2 q hq)]; rfl
    rw [hmap, ih v hr.1]

/-! ## the closed side under permutation -/

theorem a18b_closedOfMembers_cases (ms : List (Stairs P)) :
    (ms.filter (·.hasSteps) = [] ∧
        closedOfMembers ms = .ok (match ms with | [] => .left | m :: _ => m.closed)) ∨
    (∃ m r, ms.filter (·.hasSteps) = m :: r ∧
        ((∀ x ∈ m :: r, x.closed = m.closed) ∧ closedOfMembers ms = .ok m.closed ∨
         (¬ ∀ x ∈ m :: r, x.closed = m.closed) ∧ closedOfMembers ms = .error .closedMismatch)) := by
  unfold closedOfMembers
  cases hfl : ms.filter (·.hasSteps) with
  | nil => exact Or.inl ⟨rfl, rfl⟩
  | cons m r =>
    right
    refine ⟨m, r, rfl, ?_⟩
    by_cases hall : (r.all fun x => x.closed == m.closed) = true
    · left
      refine ⟨?_, by simp only [hall, if_true]⟩
      intro x hx
      rcases List.mem_cons.mp hx with h | h
      · rw [h]
      · simpa using List.all_eq_true.mp hall x h
    · right
      refine ⟨?_, by simp only [hall]; rfl⟩
      intro hcl
      apply hall
      rw [List.all_eq_true]
      intro x hx
      simpa using hcl x (List.mem_cons_of_mem _ hx)

/-- with a member that has steps, the closed side (or the mismatch error) does not depend on the order -/
theorem a18b_closedOfMembers_perm_steps (ms ms' : List (Stairs P)) (hp : ms.Perm ms')
    (hs : ∃ m ∈ ms, m.hasSteps = true) : closedOfMembers ms = closedOfMembers ms' := by
  have hpf : (ms.filter (·.hasSteps)).Perm (ms'.filter (·.hasSteps)) := hp.filter _
  obtain ⟨m₀, hm₀, hst₀⟩ := hs
  have hm₀f : m₀ ∈ ms.filter (·.hasSteps) := List.mem_filter.mpr ⟨hm₀, hst₀⟩
  rcases a18b_closedOfMembers_cases ms with ⟨h, _⟩ | ⟨m, r, hfl, hc⟩
  · rw [h] at hm₀f; cases hm₀f
  rcases a18b_closedOfMembers_cases ms' with ⟨h', _⟩ | ⟨m', r', hfl', hc'⟩
  · rw [h'] at hpf; rw [List.perm_nil.mp hpf] at hm₀f; cases hm₀f
  rw [hfl, hfl'] at hpf
  have hm'in : m' ∈ m :: r := hpf.symm.subset (by simp)
  have hmin : m ∈ m' :: r' := hpf.subset (by simp)
  rcases hc with ⟨hall, he⟩ | ⟨hnall, he⟩ <;> rcases hc' with ⟨hall', he'⟩ | ⟨hnall', he'⟩
  · rw [he, he', hall m' hm'in]
  · exfalso; apply hnall'
    intro x hx
    rw [hall x (hpf.symm.subset hx), hall m' hm'in]
  · exfalso; apply hnall
    intro x hx
    rw [hall' x (hpf.subset hx), hall' m hmin]
  · rw [he, he']

/-- step-free members sharing one closed side -/
theorem a18b_closedOfMembers_perm_same (ms ms' : List (Stairs P)) (hp : ms.Perm ms')
    (hs : ∀ m ∈ ms, ∀ m' ∈ ms, m.closed = m'.closed) : closedOfMembers ms = closedOfMembers ms' := by
  cases ms with
  | nil => rw [List.nil_perm.mp hp]
  | cons a r =>
    have hne' : ms' ≠ [] := by
      intro h; rw [h] at hp; exact List.cons_ne_nil _ _ (List.perm_nil.mp hp)
    rw [closedOfMembers_same (a :: r) a.closed (by simp) (fun m hm => hs m hm a (by simp)),
        closedOfMembers_same ms' a.closed hne'
          (fun m hm => hs m (hp.symm.subset hm) a (by simp))]

end Stairs
end SC
