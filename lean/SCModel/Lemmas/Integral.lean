import SCModel.Lemmas.Stats
import SCModel.Lemmas.Masking
/-!
# SCModel.Lemmas.Integral — the length-weighted sums depend only on the function denoted

`pieceSum G s = Σ G(value)·length` over the finite pieces of the row list `s`.  The key is Abel summation:

  `pieceSum G ((p₀,v₀) :: r) = G(last value)·(last point) − G(init)·p₀ − jumpSum G init ((p₀,v₀) :: r)`

where `jumpSum G a s = Σ (G vᵢ − G vᵢ₋₁)·pᵢ` is the sum of the jumps.  A redundant row has a zero jump, so
`jumpSum` is invariant under `removeRedundant`, hence (by `canonical_unique`) a function of the denotation.
Consequently the weighted sums are determined by the denotation and the first / last step point; and for a
function that is undefined towards −∞ and +∞ (every clipped function) by the denotation alone.
-/
set_option linter.unusedSectionVars false
set_option linter.unusedVariables false
namespace SC
namespace Stairs

/-! ## `pieceSum` -/

/-- `Σ G(value) · length` over the finite pieces (for an arbitrary weight `G` on values, `none` included) -/
def pieceSum (G : Val → Rat) (s : List (Rat × Val)) : Rat :=
  sumBy (fun pqv => G pqv.2.2 * (pqv.2.1 - pqv.1)) (pieces s)

/-- a weight on defined values, extended by `0` to "undefined" -/
def liftW (g : Rat → Rat) : Val → Rat
  | none => 0
  | some x => g x

@[simp] theorem liftW_none (g : Rat → Rat) : liftW g none = 0 := rfl
@[simp] theorem liftW_some (g : Rat → Rat) (x : Rat) : liftW g (some x) = g x := rfl

theorem pieceSum_nil (G : Val → Rat) : pieceSum G [] = 0 := rfl
theorem pieceSum_singleton (G : Val → Rat) (a : Rat × Val) : pieceSum G [a] = 0 := by
  unfold pieceSum; rw [pieces_singleton]; rfl
theorem pieceSum_cons_cons (G : Val → Rat) (p : Rat) (v : Val) (q : Rat) (w : Val) (r : List (Rat × Val)) :
    pieceSum G ((p, v) :: (q, w) :: r) = G v * (q - p) + pieceSum G ((q, w) :: r) := by
  unfold pieceSum; rw [pieces_cons_cons, sumBy_cons]

/-- the weighted sums over `definedPieces` are `pieceSum`s of weights vanishing at `none` -/
theorem sumBy_definedPieces (g : Rat → Rat) (s : List (Rat × Val)) :
    sumBy (fun vl => g vl.1 * vl.2) (definedPieces s) = pieceSum (liftW g) s := by
  induction s with
  | nil => rfl
  | cons a t ih =>
    cases t with
    | nil => rw [definedPieces_singleton, pieceSum_singleton]; rfl
    | cons b t' =>
      obtain ⟨p, v⟩ := a
      obtain ⟨q, w⟩ := b
      rw [pieceSum_cons_cons, ← ih]
      cases v with
      | none => rw [definedPieces_cons_none]; simp
      | some x => rw [definedPieces_cons_some, sumBy_cons]; simp

theorem definedLength_eq_pieceSum (f : Stairs Rat) : definedLength f = pieceSum (liftW fun _ => 1) f.steps := by
  unfold definedLength
  rw [sumBy_snd_eq_weight]
  exact sumBy_definedPieces (fun _ => 1) f.steps

/-- applying `u` to every value: the pieces keep their end points -/
theorem pieceSum_mapVals (G : Val → Rat) (u : Val → Val) (s : List (Rat × Val)) :
    pieceSum G (s.map fun pv => (pv.1, u pv.2)) = pieceSum (fun v => G (u v)) s := by
  induction s with
  | nil => rfl
  | cons a t ih =>
    cases t with
    | nil => rw [List.map_cons, List.map_nil, pieceSum_singleton, pieceSum_singleton]
    | cons b t' =>
      obtain ⟨p, v⟩ := a
      obtain ⟨q, w⟩ := b
      simp only [List.map_cons] at ih ⊢
      rw [pieceSum_cons_cons, pieceSum_cons_cons, ih]

theorem pieceSum_congr (G H : Val → Rat) (s : List (Rat × Val))
    (h : ∀ p q v, (p, q, v) ∈ pieces s → G v = H v) : pieceSum G s = pieceSum H s := by
  unfold pieceSum
  apply sumBy_congr
  rintro ⟨p, q, v⟩ hm
  rw [h p q v hm]

/-! ## last value, last point, sum of jumps -/

/-- the value on the unbounded right piece -/
def lastVal {P V : Type} : V → List (P × V) → V
  | a, [] => a
  | _, (_, v) :: r => lastVal v r

/-- the last step point (`d` when there is none) -/
def lastPt {P V : Type} : P → List (P × V) → P
  | d, [] => d
  | _, (p, _) :: r => lastPt p r

/-- `Σ (G vᵢ − G vᵢ₋₁) · pᵢ` over all rows, `v₋₁` being the initial value -/
def jumpSum (G : Val → Rat) : Val → List (Rat × Val) → Rat
  | _, [] => 0
  | a, (p, v) :: r => (G v - G a) * p + jumpSum G v r

theorem lastPt_eq_getLast? {P V : Type} (p0 : P) (v0 : V) (r : List (P × V)) :
    ((p0, v0) :: r).getLast?.map Prod.fst = some (lastPt p0 r) := by
  induction r generalizing p0 v0 with
  | nil => rfl
  | cons b r ih =>
    obtain ⟨p1, v1⟩ := b
    rw [List.getLast?_cons_cons, ih]; rfl

theorem lastPt_mem {P V : Type} (p0 : P) (r : List (P × V)) : lastPt p0 r = p0 ∨ lastPt p0 r ∈ r.map Prod.fst := by
  induction r generalizing p0 with
  | nil => left; rfl
  | cons b r ih =>
    obtain ⟨p1, v1⟩ := b
    right
    show lastPt p1 r ∈ _
    rcases ih p1 with h | h
    · rw [h]; simp
    · simp only [List.map_cons, List.mem_cons]; right; exact h

/-- **Abel summation**: the piece sum in terms of the jumps and the two boundary terms -/
theorem pieceSum_eq_jump (G : Val → Rat) (a : Val) (p0 : Rat) (v0 : Val) (r : List (Rat × Val)) :
    pieceSum G ((p0, v0) :: r) = G (lastVal v0 r) * lastPt p0 r - G a * p0 - jumpSum G a ((p0, v0) :: r) := by
  induction r generalizing a p0 v0 with
  | nil => rw [pieceSum_singleton]; simp only [lastVal, lastPt, jumpSum]; ring
  | cons b r ih =>
    obtain ⟨p1, v1⟩ := b
    rw [pieceSum_cons_cons, ih v0 p1 v1]
    simp only [lastVal, lastPt, jumpSum]; ring

/-- a redundant row has a zero jump -/
theorem jumpSum_removeRedundant (G : Val → Rat) (a : Val) (s : List (Rat × Val)) :
    jumpSum G a (removeRedundant a s) = jumpSum G a s := by
  induction s generalizing a with
  | nil => rfl
  | cons b r ih =>
    obtain ⟨p, v⟩ := b
    simp only [removeRedundant]
    split
    · rename_i h; subst h
      rw [ih]; simp only [jumpSum]; ring
    · simp only [jumpSum, ih]

/-! ## behaviour of `lim` to the right of all step points -/
section after
variable {P V : Type} [LinearOrder P]

theorem lim_after (st : Bool) (a : V) (s : List (P × V)) (x : P)
    (h : ∀ q ∈ s.map Prod.fst, reached st q x = true) : lim st a s x = lastVal a s := by
  induction s generalizing a with
  | nil => rfl
  | cons b r ih =>
    obtain ⟨p, v⟩ := b
    rw [lim_cons, h p (by simp), if_pos rfl]
    exact ih v (fun q hq => h q (by simp only [List.map_cons, List.mem_cons]; exact Or.inr hq))

end after

theorem exists_lt_all (l : List Rat) (b : Rat) : ∃ x, x < b ∧ ∀ q ∈ l, x < q := by
  induction l with
  | nil => exact ⟨b - 1, by linarith, by simp⟩
  | cons c l ih =>
    obtain ⟨x, hx, hl⟩ := ih
    refine ⟨min x (c - 1), lt_of_le_of_lt (min_le_left _ _) hx, ?_⟩
    intro q hq
    rcases List.mem_cons.mp hq with h | h
    · rw [h]; exact lt_of_le_of_lt (min_le_right _ _) (by linarith)
    · exact lt_of_le_of_lt (min_le_left _ _) (hl q h)

theorem exists_gt_all (l : List Rat) (b : Rat) : ∃ x, b < x ∧ ∀ q ∈ l, q < x := by
  induction l with
  | nil => exact ⟨b + 1, by linarith, by simp⟩
  | cons c l ih =>
    obtain ⟨x, hx, hl⟩ := ih
    refine ⟨max x (c + 1), lt_of_lt_of_le hx (le_max_left _ _), ?_⟩
    intro q hq
    rcases List.mem_cons.mp hq with h | h
    · rw [h]; exact lt_of_lt_of_le (by linarith) (le_max_right _ _)
    · exact lt_of_lt_of_le (hl q h) (le_max_left _ _)

/-- the initial value is a value of the denotation (far enough to the left, and left of any given `b`) -/
theorem exists_lim_eq_init {V : Type} (st : Bool) (a : V) (s : List (Rat × V)) (b : Rat) :
    ∃ x, x < b ∧ lim st a s x = a := by
  obtain ⟨x, hx, hl⟩ := exists_lt_all (s.map Prod.fst) b
  exact ⟨x, hx, lim_before st a s x hl⟩

/-- the last value is a value of the denotation (far enough to the right, and right of any given `b`) -/
theorem exists_lim_eq_lastVal {V : Type} (st : Bool) (a : V) (s : List (Rat × V)) (b : Rat) :
    ∃ x, b < x ∧ lim st a s x = lastVal a s := by
  obtain ⟨x, hx, hl⟩ := exists_gt_all (s.map Prod.fst) b
  exact ⟨x, hx, lim_after st a s x (fun q hq => reached_of_lt (hl q hq))⟩

/-- equal denotations have equal initial values … -/
theorem init_eq_of_den {V : Type} (a b : V) (s t : List (Rat × V))
    (h : ∀ x, lim false a s x = lim false b t x) : a = b := by
  obtain ⟨x, _, hl⟩ := exists_lt_all (s.map Prod.fst ++ t.map Prod.fst) 0
  have h1 := lim_before false a s x (fun q hq => hl q (by simp [hq]))
  have h2 := lim_before false b t x (fun q hq => hl q (by simp [hq]))
  rw [← h1, ← h2]; exact h x

/-- … and equal last values -/
theorem lastVal_eq_of_den {V : Type} (a b : V) (s t : List (Rat × V))
    (h : ∀ x, lim false a s x = lim false b t x) : lastVal a s = lastVal b t := by
  obtain ⟨x, _, hl⟩ := exists_gt_all (s.map Prod.fst ++ t.map Prod.fst) 0
  have h1 := lim_after false a s x (fun q hq => reached_of_lt (hl q (by simp [hq])))
  have h2 := lim_after false b t x (fun q hq => reached_of_lt (hl q (by simp [hq])))
  rw [← h1, ← h2]; exact h x

/-! ## the sum of jumps is a function of the denotation -/

theorem removeRedundant_eq_of_den (a b : Val) (s t : List (Rat × Val)) (hs : Sorted s) (ht : Sorted t)
    (h : ∀ x, lim false a s x = lim false b t x) : a = b ∧ removeRedundant a s = removeRedundant b t := by
  apply canonical_unique _ _ a b (sorted_removeRedundant a s hs) (sorted_removeRedundant b t ht)
    (minimal_removeRedundant a s) (minimal_removeRedundant b t)
  intro x
  rw [lim_removeRedundant false a s hs, lim_removeRedundant false b t ht, h x]

theorem jumpSum_eq_of_den (G : Val → Rat) (a b : Val) (s t : List (Rat × Val)) (hs : Sorted s) (ht : Sorted t)
    (h : ∀ x, lim false a s x = lim false b t x) : jumpSum G a s = jumpSum G b t := by
  obtain ⟨hab, hr⟩ := removeRedundant_eq_of_den a b s t hs ht h
  rw [← jumpSum_removeRedundant G a s, ← jumpSum_removeRedundant G b t, hr, hab]

/-! ## main results on row lists -/

/-- **same function, same first and last step point ⇒ same weighted sum**, for every weight `G` -/
theorem pieceSum_eq_of_den (G : Val → Rat) (a b : Val) (s t : List (Rat × Val)) (hs : Sorted s) (ht : Sorted t)
    (h : ∀ x, lim false a s x = lim false b t x)
    (hfirst : s.head?.map Prod.fst = t.head?.map Prod.fst)
    (hlast : s.getLast?.map Prod.fst = t.getLast?.map Prod.fst) : pieceSum G s = pieceSum G t := by
  cases s with
  | nil =>
    cases t with
    | nil => rfl
    | cons c t' => simp at hfirst
  | cons c s' =>
    cases t with
    | nil => simp at hfirst
    | cons d t' =>
      obtain ⟨p0, v0⟩ := c
      obtain ⟨q0, w0⟩ := d
      simp only [List.head?_cons, Option.map_some, Option.some.injEq] at hfirst
      subst hfirst
      rw [lastPt_eq_getLast?, lastPt_eq_getLast?] at hlast
      injection hlast with hlast
      have hab := init_eq_of_den a b _ _ h
      have hlv : lastVal v0 s' = lastVal w0 t' := lastVal_eq_of_den a b _ _ h
      rw [pieceSum_eq_jump G a, pieceSum_eq_jump G b, jumpSum_eq_of_den G a b _ _ hs ht h, hlv, hlast, hab]

/-- a function whose two unbounded pieces carry weight `0` (e.g. are undefined): the weighted sum is minus the
sum of the jumps -/
theorem pieceSum_eq_neg_jumpSum (G : Val → Rat) (a : Val) (s : List (Rat × Val))
    (ha : G a = 0) (hl : G (lastVal a s) = 0) : pieceSum G s = - jumpSum G a s := by
  cases s with
  | nil => simp [pieceSum_nil, jumpSum]
  | cons c s' =>
    obtain ⟨p0, v0⟩ := c
    have hl' : G (lastVal v0 s') = 0 := hl
    rw [pieceSum_eq_jump G a, hl', ha]; ring

/-- **bounded support: the weighted sums depend on the denotation only** — no condition on the step points.
`G` must give weight `0` to the value of the two unbounded pieces. -/
theorem pieceSum_eq_of_den_bounded (G : Val → Rat) (a b : Val) (s t : List (Rat × Val)) (hs : Sorted s)
    (ht : Sorted t) (h : ∀ x, lim false a s x = lim false b t x)
    (ha : G a = 0) (hl : G (lastVal a s) = 0) : pieceSum G s = pieceSum G t := by
  have hab := init_eq_of_den a b _ _ h
  have hlv := lastVal_eq_of_den a b _ _ h
  rw [pieceSum_eq_neg_jumpSum G a s ha hl,
      pieceSum_eq_neg_jumpSum G b t (by rw [← hab]; exact ha) (by rw [← hlv]; exact hl),
      jumpSum_eq_of_den G a b s t hs ht h]

/-! ## first = last only for a single row -/

theorem lt_lastPt {V : Type} (p0 : Rat) (v0 : V) (b : Rat × V) (r : List (Rat × V)) (hs : Sorted ((p0, v0) :: b :: r)) :
    p0 < lastPt p0 (b :: r) := by
  have ht := sorted_tail hs
  rcases lastPt_mem p0 (b :: r) with h | h
  · obtain ⟨p1, v1⟩ := b
    rcases lastPt_mem p1 r with h' | h'
    · show p0 < lastPt p1 r
      rw [h']; exact ht.2 p1 (by simp)
    · show p0 < lastPt p1 r
      exact ht.2 _ (by simp only [List.map_cons, List.mem_cons]; exact Or.inr h')
  · exact ht.2 _ h

/-- for well-formed lists with the same first and last step point: fewer than two rows on one side iff on the other -/
theorem length_lt_two_iff_of_ends {V : Type} (s t : List (Rat × V)) (hs : Sorted s) (ht : Sorted t)
    (hfirst : s.head?.map Prod.fst = t.head?.map Prod.fst)
    (hlast : s.getLast?.map Prod.fst = t.getLast?.map Prod.fst) : s.length < 2 ↔ t.length < 2 := by
  cases s with
  | nil =>
    cases t with
    | nil => simp
    | cons c t' => simp at hfirst
  | cons c s' =>
    cases t with
    | nil => simp at hfirst
    | cons d t' =>
      obtain ⟨p0, v0⟩ := c
      obtain ⟨q0, w0⟩ := d
      simp only [List.head?_cons, Option.map_some, Option.some.injEq] at hfirst
      subst hfirst
      rw [lastPt_eq_getLast?, lastPt_eq_getLast?] at hlast
      injection hlast with hlast
      cases s' with
      | nil =>
        cases t' with
        | nil => simp
        | cons e t'' =>
          have := lt_lastPt p0 w0 e t'' ht
          rw [← hlast] at this
          exact absurd this (lt_irrefl _)
      | cons e s'' =>
        cases t' with
        | nil =>
          have := lt_lastPt p0 v0 e s'' hs
          rw [hlast] at this
          exact absurd this (lt_irrefl _)
        | cons e' t'' => simp only [List.length_cons]; omega

/-! ## bounded support, read off the denotation -/

theorem init_none_of_lim (a : Val) (s : List (Rat × Val)) (M : Rat)
    (h : ∀ x, x < M → lim false a s x = none) : a = none := by
  obtain ⟨x, hx, he⟩ := exists_lim_eq_init false a s M
  rw [← he]; exact h x hx

theorem lastVal_none_of_lim (a : Val) (s : List (Rat × Val)) (M : Rat)
    (h : ∀ x, M < x → lim false a s x = none) : lastVal a s = none := by
  obtain ⟨x, hx, he⟩ := exists_lim_eq_lastVal false a s M
  rw [← he]; exact h x hx

/-! ## `mean` / `var` as functions of the weighted sums -/

/-- `Σ w(value) · length` over the finite defined pieces -/
def wsum (w : Rat → Rat) (f : Stairs Rat) : Rat := sumBy (fun vl => w vl.1 * vl.2) (definedPieces f.steps)

theorem wsum_eq_pieceSum (w : Rat → Rat) (f : Stairs Rat) : wsum w f = pieceSum (liftW w) f.steps :=
  sumBy_definedPieces w f.steps

theorem definedLength_eq_wsum (f : Stairs Rat) : definedLength f = wsum (fun _ => 1) f := by
  unfold definedLength wsum; exact sumBy_snd_eq_weight _

/-- the "fewer than two step points" test in `mean` is subsumed by the "no defined length" test -/
theorem mean_eq_ite (f : Stairs Rat) :
    mean f = if definedLength f = 0 then none else some (wsum (fun v => v) f / definedLength f) := by
  unfold mean
  by_cases h : f.steps.length < 2
  · have : definedLength f = 0 := by
      unfold definedLength; rw [definedPieces_of_length_lt_two _ h]; rfl
    rw [if_pos h, if_pos this]
  · rw [if_neg h]; rfl

theorem mean_congr (f g : Stairs Rat) (hL : definedLength f = definedLength g)
    (hS : wsum (fun v => v) f = wsum (fun v => v) g) : mean f = mean g := by
  rw [mean_eq_ite, mean_eq_ite, hL, hS]

/-! ## a common grid -/

/-- consecutive pairs of a point list -/
def segs : List Rat → List (Rat × Rat)
  | p :: q :: r => (p, q) :: segs (q :: r)
  | _ => []

theorem segs_cons_cons (p q : Rat) (r : List Rat) : segs (p :: q :: r) = (p, q) :: segs (q :: r) := rfl

theorem pieces_gridMap (F : Rat → Val) (u : List Rat) :
    pieces (u.map fun p => (p, F p)) = (segs u).map fun pq => (pq.1, pq.2, F pq.1) := by
  induction u with
  | nil => rfl
  | cons p t ih =>
    cases t with
    | nil => rfl
    | cons q r =>
      simp only [List.map_cons] at ih ⊢
      rw [pieces_cons_cons, ih, segs_cons_cons]; rfl

theorem segs_lt (u : List Rat) (hu : u.Pairwise (· < ·)) : ∀ pq ∈ segs u, pq.1 < pq.2 := by
  induction u with
  | nil => intro pq h; simp [segs] at h
  | cons p t ih =>
    cases t with
    | nil => intro pq h; simp [segs] at h
    | cons q r =>
      intro pq h
      rw [segs_cons_cons, List.mem_cons] at h
      rw [List.pairwise_cons] at hu
      rcases h with h | h
      · rw [h]; exact hu.1 q (by simp)
      · exact ih hu.2 pq h

theorem pieceSum_gridMap (G : Val → Rat) (F : Rat → Val) (u : List Rat) :
    pieceSum G (u.map fun p => (p, F p)) = sumBy (fun pq => G (F pq.1) * (pq.2 - pq.1)) (segs u) := by
  unfold pieceSum
  rw [pieces_gridMap, sumBy_map]

/-- the weighted sums of a bounded-support function computed on any grid whose sampling denotes it -/
theorem wsum_on_grid (a : Stairs Rat) (ha : a.WF) (hb : a.init = none ∧ lastVal a.init a.steps = none)
    (u : List Rat) (hu : u.Pairwise (· < ·)) (F : Rat → Val) (i : Val)
    (hden : ∀ x, lim false i (u.map fun p => (p, F p)) x = lim false a.init a.steps x) (w : Rat → Rat) :
    wsum w a = sumBy (fun pq => liftW w (F pq.1) * (pq.2 - pq.1)) (segs u) := by
  rw [wsum_eq_pieceSum, ← pieceSum_gridMap]
  have hs : Sorted (u.map fun p => (p, F p)) := by
    unfold Sorted; simpa [List.map_map, Function.comp_def] using hu
  exact pieceSum_eq_of_den_bounded _ a.init i a.steps _ ha hs (fun x => (hden x).symm)
    (by rw [hb.1]; rfl) (by rw [hb.2]; rfl)

/-! ## Cauchy–Schwarz for weighted list sums -/

theorem quad_disc (A B C : Rat) (hA : 0 ≤ A) (h : ∀ t : Rat, 0 ≤ A * t * t + 2 * B * t + C) : B * B ≤ A * C := by
  rcases eq_or_lt_of_le hA with hA0 | hApos
  · have hB : B = 0 := by
      by_contra hB
      have := h (-(C + 1) / (2 * B))
      rw [← hA0] at this
      have e : 2 * B * (-(C + 1) / (2 * B)) = -(C + 1) := by field_simp
      rw [e] at this
      linarith
    rw [hB, ← hA0]; simp
  · have := h (-B / A)
    have e : A * (A * (-B / A) * (-B / A) + 2 * B * (-B / A) + C) = A * C - B * B := by
      field_simp; ring
    have := mul_nonneg hA this
    rw [e] at this
    linarith

theorem sumBy_quad {α : Type} (l : List α) (wt X Y : α → Rat) (t : Rat) :
    sumBy (fun e => (t * X e + Y e) * (t * X e + Y e) * wt e) l
      = sumBy (fun e => X e * X e * wt e) l * t * t + 2 * sumBy (fun e => X e * Y e * wt e) l * t
        + sumBy (fun e => Y e * Y e * wt e) l := by
  induction l with
  | nil => simp
  | cons a l ih => simp only [sumBy_cons, ih]; ring

theorem sumBy_cauchy_schwarz {α : Type} (l : List α) (wt X Y : α → Rat) (hw : ∀ e ∈ l, 0 ≤ wt e) :
    sumBy (fun e => X e * Y e * wt e) l * sumBy (fun e => X e * Y e * wt e) l
      ≤ sumBy (fun e => X e * X e * wt e) l * sumBy (fun e => Y e * Y e * wt e) l := by
  apply quad_disc
  · exact sumBy_nonneg _ _ (fun e he => mul_nonneg (mul_self_nonneg _) (hw e he))
  · intro t
    rw [← sumBy_quad]
    exact sumBy_nonneg _ _ (fun e he => mul_nonneg (mul_self_nonneg _) (hw e he))

theorem sumBy_lin4 {α : Type} (l : List α) (A B C D : α → Rat) (m1 m2 m3 : Rat) :
    sumBy (fun e => A e - m1 * B e - m2 * C e + m3 * D e) l
      = sumBy A l - m1 * sumBy B l - m2 * sumBy C l + m3 * sumBy D l := by
  induction l with
  | nil => simp
  | cons a l ih => simp only [sumBy_cons, ih]; ring

/-! ## the local form: only the function between the first and the last step point matters -/
section localForm
variable {P V : Type} [LinearOrder P]

theorem lim_append_last_unreached (st : Bool) (a : V) (l : List (P × V)) (p : P) (v w : V) (x : P)
    (h : reached st p x = false) : lim st a (l ++ [(p, v)]) x = lim st a (l ++ [(p, w)]) x := by
  induction l generalizing a with
  | nil => simp only [List.nil_append, lim_cons, h]; rfl
  | cons b l ih => obtain ⟨q, u⟩ := b; simp only [List.cons_append, lim_cons, ih]

theorem lastVal_append_last (a : V) (l : List (P × V)) (p : P) (v : V) : lastVal a (l ++ [(p, v)]) = v := by
  induction l generalizing a with
  | nil => rfl
  | cons b l ih => obtain ⟨q, u⟩ := b; exact ih u

theorem lim_init_irrelevant (st : Bool) (a a' : V) (p : P) (v : V) (r : List (P × V)) (x : P)
    (h : reached st p x = true) : lim st a ((p, v) :: r) x = lim st a' ((p, v) :: r) x := by
  rw [lim_cons, lim_cons, h]; rfl

end localForm

/-- a row list with at least two rows: first row, middle rows, last row -/
theorem exists_first_mid_last {V : Type} (s : List (Rat × V)) (h : ¬ s.length < 2) (first last : Rat)
    (hf : s.head?.map Prod.fst = some first) (hl : s.getLast?.map Prod.fst = some last) :
    ∃ v0 l v, s = (first, v0) :: (l ++ [(last, v)]) := by
  cases s with
  | nil => simp at hf
  | cons c r =>
    obtain ⟨p0, v0⟩ := c
    simp only [List.head?_cons, Option.map_some, Option.some.injEq] at hf
    subst hf
    rcases List.eq_nil_or_concat r with hr | ⟨l, z, hr⟩
    · subst hr; simp at h
    · subst hr
      obtain ⟨q, v⟩ := z
      have : (p0, v0) :: l.concat (q, v) = ((p0, v0) :: l) ++ [(q, v)] := by simp
      rw [this, List.getLast?_append] at hl
      simp at hl
      subst hl
      exact ⟨v0, l, v, by simp⟩

/-- **local form of representation independence**: two well-formed row lists with the same first and last step
point whose right limits agree on `[first, last)` have the same weighted sum — the initial value and the value
of the last row (the two unbounded pieces) play no role -/
theorem pieceSum_eq_of_den_on (G : Val → Rat) (a b : Val) (s t : List (Rat × Val)) (hs : Sorted s) (ht : Sorted t)
    (first last : Rat)
    (hfs : s.head?.map Prod.fst = some first) (hft : t.head?.map Prod.fst = some first)
    (hls : s.getLast?.map Prod.fst = some last) (hlt : t.getLast?.map Prod.fst = some last)
    (h : ∀ x, first ≤ x → x < last → lim false a s x = lim false b t x) : pieceSum G s = pieceSum G t := by
  have hlen := length_lt_two_iff_of_ends s t hs ht (hfs.trans hft.symm) (hls.trans hlt.symm)
  by_cases h2 : s.length < 2
  · unfold pieceSum
    rw [pieces_of_length_lt_two s h2, pieces_of_length_lt_two t (hlen.mp h2)]
  · have h2' : ¬ t.length < 2 := fun h' => h2 (hlen.mpr h')
    obtain ⟨v0, l, v, rfl⟩ := exists_first_mid_last s h2 first last hfs hls
    obtain ⟨w0, l', w, rfl⟩ := exists_first_mid_last t h2' first last hft hlt
    -- replace the last values (and the initial values) by `none`
    have e1 : pieceSum G ((first, v0) :: (l ++ [(last, v)])) = pieceSum G ((first, v0) :: (l ++ [(last, none)])) := by
      unfold pieceSum
      rw [← List.cons_append, pieces_last_irrelevant _ last v none]; rfl
    have e2 : pieceSum G ((first, w0) :: (l' ++ [(last, w)])) = pieceSum G ((first, w0) :: (l' ++ [(last, none)])) := by
      unfold pieceSum
      rw [← List.cons_append, pieces_last_irrelevant _ last w none]; rfl
    have hs' : Sorted ((first, v0) :: (l ++ [(last, (none : Val))])) := by
      unfold Sorted at hs ⊢; simpa using hs
    have ht' : Sorted ((first, w0) :: (l' ++ [(last, (none : Val))])) := by
      unfold Sorted at ht ⊢; simpa using ht
    rw [e1, e2]
    apply pieceSum_eq_of_den G none none _ _ hs' ht'
    · intro x
      have below : ∀ (u0 : Val) (m : List (Rat × Val)), Sorted ((first, u0) :: (m ++ [(last, (none : Val))])) →
          last ≤ x → lim false none ((first, u0) :: (m ++ [(last, none)])) x = none := by
        intro u0 m hm hx
        rw [← List.cons_append, lim_after false none _ x, lastVal_append_last]
        intro q hq
        rw [reached_right_iff]
        unfold Sorted at hm
        rw [← List.cons_append, List.map_append, List.pairwise_append] at hm
        rw [List.map_append, List.mem_append] at hq
        rcases hq with hq | hq
        · exact le_trans (le_of_lt (hm.2.2 q hq last (by simp))) hx
        · simp at hq; rw [hq]; exact hx
      rcases lt_or_ge x first with hx1 | hx1
      · rw [lim_cons, lim_cons, not_reached_of_lt hx1]; rfl
      · rcases lt_or_ge x last with hx2 | hx2
        · have r1 : reached false first x = true := (reached_right_iff _ _).mpr hx1
          have r2 : reached false last x = false := not_reached_of_lt hx2
          have A1 : lim false none ((first, v0) :: (l ++ [(last, none)])) x
              = lim false a ((first, v0) :: (l ++ [(last, v)])) x := by
            rw [lim_init_irrelevant false none a first v0 _ x r1]
            exact (lim_append_last_unreached false a ((first, v0) :: l) last v none x r2).symm
          have A2 : lim false none ((first, w0) :: (l' ++ [(last, none)])) x
              = lim false b ((first, w0) :: (l' ++ [(last, w)])) x := by
            rw [lim_init_irrelevant false none b first w0 _ x r1]
            exact (lim_append_last_unreached false b ((first, w0) :: l') last w none x r2).symm
          rw [A1, A2]
          exact h x hx1 hx2
        · rw [below v0 l hs' hx2, below w0 l' ht' hx2]
    · rfl
    · rw [← List.cons_append, ← List.cons_append, List.getLast?_append, List.getLast?_append]; rfl

end Stairs
end SC
