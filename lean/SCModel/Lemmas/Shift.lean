import SCModel.Lemmas.Masking
import SCModel.Model.Slicing
import Mathlib.Algebra.Order.Ring.Rat
import Mathlib.Algebra.Order.Group.Unbundled.Basic
/-!
# SCModel.Lemmas.Shift — translation of the step points, and the plumbing of `rolling_mean`
-/
set_option linter.unusedSectionVars false
namespace SC

/-! ## `mapM` in the `Except` monad -/

theorem mapM_ok {α β ε : Type} (g : α → Except ε β) (h : α → β) (l : List α)
    (hg : ∀ x ∈ l, g x = .ok (h x)) : l.mapM g = .ok (l.map h) := by
  induction l with
  | nil => rfl
  | cons a r ih =>
    rw [List.mapM_cons, hg a (by simp), ih (fun x hx => hg x (List.mem_cons_of_mem _ hx))]
    rfl

theorem mapM_pure {α β ε : Type} (h : α → β) (l : List α) :
    l.mapM (fun x => (pure (h x) : Except ε β)) = .ok (l.map h) := mapM_ok _ h l (fun _ _ => rfl)

theorem mapM_error_head {α β ε : Type} (g : α → Except ε β) (a : α) (r : List α) (e : ε)
    (hg : g a = .error e) : (a :: r).mapM g = .error e := by
  rw [List.mapM_cons, hg]; rfl

namespace Stairs

section group
variable {P : Type} [AddCommGroup P] [LinearOrder P] [IsOrderedAddMonoid P]

theorem reached_shift (st : Bool) (p d x : P) : reached st (p + d) x = reached st p (x - d) := by
  cases st
  · simp only [reached, Bool.false_eq_true, if_false]
    congr 1
    exact decide_eq_decide.mpr sub_lt_iff_lt_add.symm
  · simp only [reached, if_true]
    exact decide_eq_decide.mpr lt_sub_iff_add_lt.symm

theorem lim_shift {V : Type} (st : Bool) (a : V) (s : List (P × V)) (d x : P) :
    lim st a (s.map fun pv => (pv.1 + d, pv.2)) x = lim st a s (x - d) := by
  induction s generalizing a with
  | nil => rfl
  | cons pv r ih =>
    obtain ⟨p, v⟩ := pv
    simp only [List.map_cons, lim_cons, reached_shift, ih]

/-- **shift**: `shift(d)(x) = f(x − d)`, for both one-sided limits -/
theorem den_shift (f : Stairs P) (d : P) (st : Bool) (x : P) : Den (shift f d) st x = Den f st (x - d) :=
  lim_shift st f.init f.steps d x

theorem wf_shift (f : Stairs P) (d : P) (hf : f.WF) : (shift f d).WF := by
  unfold WF Sorted shift at *
  simp only [List.map_map, Function.comp_def]
  have : (f.steps.map fun pv => pv.1 + d) = (f.steps.map Prod.fst).map (· + d) := by
    simp [List.map_map, Function.comp_def]
  rw [this, List.pairwise_map]
  exact hf.imp (fun h => by simpa using h)

theorem minimal_mapPoints {Q V : Type} [DecidableEq V] (g : P → Q) (a : V) (s : List (P × V)) :
    Minimal a (s.map fun pv => (g pv.1, pv.2)) ↔ Minimal a s := by
  induction s generalizing a with
  | nil => exact Iff.rfl
  | cons pv r ih => obtain ⟨p, v⟩ := pv; simp only [List.map_cons, Minimal, ih]

theorem minimal_shift (f : Stairs P) (d : P) : (shift f d).IsMinimal ↔ f.IsMinimal :=
  minimal_mapPoints (· + d) f.init f.steps

theorem canonical_shift (f : Stairs P) (d : P) (hf : f.Canonical) : (shift f d).Canonical :=
  ⟨wf_shift f d hf.1, (minimal_shift f d).mpr hf.2⟩

@[simp] theorem closed_shift (f : Stairs P) (d : P) : (shift f d).closed = f.closed := rfl
@[simp] theorem init_shift (f : Stairs P) (d : P) : (shift f d).init = f.init := rfl
theorem idx_shift (f : Stairs P) (d : P) : (shift f d).idx = f.idx.map (· + d) := by
  simp [idx, shift, List.map_map, Function.comp_def]
theorem numberOfSteps_shift (f : Stairs P) (d : P) : (shift f d).numberOfSteps = f.numberOfSteps := by
  simp [numberOfSteps, shift]

theorem shift_zero (f : Stairs P) : shift f 0 = f := by
  cases f; simp [shift]

theorem shift_shift (f : Stairs P) (a b : P) : shift (shift f a) b = shift f (a + b) := by
  cases f; simp [shift, List.map_map, Function.comp_def, add_assoc]

theorem shift_neg_cancel (f : Stairs P) (d : P) : shift (shift f d) (-d) = f := by
  rw [shift_shift, add_neg_cancel, shift_zero]

end group

/-! ## `rolling_mean` -/

/-- the window `[a, b)`/`(a, b]` cut out of `c` (what `clip c a b` returns when `a < b`) -/
def window (c : Stairs Rat) (a b : Rat) : Stairs Rat :=
  combine whereOp c (indicator (some a) (some b) c.closed) c.closed

/-- candidate knots: every `x` where a window edge `x + l` or `x + r` meets a step point of `c` -/
def knots (c : Stairs Rat) (l r : Rat) : List Rat := unionIdx (c.idx.map (· - l)) (c.idx.map (· - r))

/-- the trimming applied when `where` is given: keep `lo - l ≤ x` and `x ≤ hi - r` -/
def keepKnot (lo hi : Option Rat) (l r : Rat) (x : Rat) : Bool :=
  (match lo with | some a => decide (a - l ≤ x) | none => true) &&
  (match hi with | some b => decide (x ≤ b - r) | none => true)

theorem clip_window (c : Stairs Rat) (a b : Rat) (hab : a < b) : clip c (some a) (some b) = .ok (window c a b) :=
  clip_ok c (some a) (some b) (by simpa [boundsOk] using hab)

theorem unionIdx_ne_nil {P : Type} [LinearOrder P] (xs ys : List P) (h : xs ≠ []) : unionIdx xs ys ≠ [] := by
  intro hu
  cases xs with
  | nil => exact h rfl
  | cons x r =>
    have : x ∈ unionIdx (x :: r) ys := (mem_unionIdx _ _ _).mpr (Or.inl (by simp))
    rw [hu] at this; cases this

/-- **structure of `rolling_mean`** for a non-degenerate window (`l < r`) over a function with steps:
one row per kept knot, carrying the mean of the window cut out there -/
theorem rollingMean_ok (f c : Stairs Rat) (l r : Rat) (lo hi : Option Rat) (hc : clipW f lo hi = .ok c)
    (hs : c.steps ≠ []) (hlr : l < r) :
    rollingMean f l r lo hi =
      .ok (((knots c l r).map fun x => (x, mean (window c (x + l) (x + r)))).filter
        fun xy => keepKnot lo hi l r xy.1) := by
  have hclip : ∀ x : Rat, clip c (some (x + l)) (some (x + r)) = .ok (window c (x + l) (x + r)) :=
    fun x => clip_window c _ _ (Rat.add_lt_add_left.mpr hlr)
  obtain ⟨pv, rest, hst⟩ : ∃ pv rest, c.steps = pv :: rest := by
    cases hst : c.steps with
    | nil => exact absurd hst hs
    | cons pv rest => exact ⟨pv, rest, rfl⟩
  unfold rollingMean
  rw [hc]
  simp only [bind, Except.bind, hst]
  · simp only [hclip]
    rw [mapM_pure (fun x => (x, mean (window c (x + l) (x + r))))]
    unfold knots
    cases lo with
    | none =>
      cases hi with
      | none =>
        simp only [pure, Except.pure, keepKnot, Bool.and_true]
        exact congrArg _ (List.filter_eq_self.mpr (fun _ _ => rfl)).symm
      | some b => simp only [pure, Except.pure, keepKnot, Bool.true_and]
    | some a =>
      cases hi with
      | none => simp only [pure, Except.pure, keepKnot, Bool.and_true]
      | some b =>
        simp only [pure, Except.pure, keepKnot, List.filter_filter]
        congr 2
        funext xy
        exact Bool.and_comm _ _

/-- a degenerate window (`l ≥ r`) over a function with steps is a `ValueError` (raised by `clip`) -/
theorem rollingMean_degenerate (f c : Stairs Rat) (l r : Rat) (lo hi : Option Rat) (hc : clipW f lo hi = .ok c)
    (hs : c.steps ≠ []) (hlr : ¬ l < r) : rollingMean f l r lo hi = .error .valueError := by
  have hclip : ∀ x : Rat, clip c (some (x + l)) (some (x + r)) = .error .valueError :=
    fun x => clip_error c _ _ (by simpa [boundsOk] using not_lt.mp hlr)
  have hk : knots c l r ≠ [] := by
    apply unionIdx_ne_nil
    intro h
    exact hs (by simpa [idx] using h)
  obtain ⟨pv, rest, hst⟩ : ∃ pv rest, c.steps = pv :: rest := by
    cases hst : c.steps with
    | nil => exact absurd hst hs
    | cons pv rest => exact ⟨pv, rest, rfl⟩
  unfold rollingMean
  rw [hc]
  simp only [bind, Except.bind, hst]
  · simp only [hclip]
    cases hk' : knots c l r with
    | nil => exact absurd hk' hk
    | cons x rest =>
      unfold knots at hk'
      rw [hk', mapM_error_head _ x rest .valueError rfl]

/-- nothing to roll over (`where`-clipped function without steps): the constant at both ends of `where` -/
theorem rollingMean_stepfree (f c : Stairs Rat) (l r : Rat) (lo hi : Option Rat) (hc : clipW f lo hi = .ok c)
    (hs : c.steps = []) :
    rollingMean f l r lo hi =
      match (generalizing := false) lo, hi with
      | some a, some b => .ok [(a, c.init), (b, c.init)]
      | _, _ => .error .assertion := by
  unfold rollingMean
  rw [hc]
  simp only [bind, Except.bind]
  rw [hs]
  cases lo <;> cases hi <;> rfl

theorem rollingMean_clip_error (f : Stairs Rat) (l r : Rat) (lo hi : Option Rat) (e : Err)
    (hc : clipW f lo hi = .error e) : rollingMean f l r lo hi = .error e := by
  unfold rollingMean
  rw [hc]; rfl

end Stairs
end SC
