import SCModel.Lemmas.Den
import Mathlib.Order.Max
import Mathlib.Order.Basic
import Mathlib.Algebra.Order.Field.Rat
import Mathlib.Tactic.Linarith
/-!
# SCModel.Lemmas.Views3b — finite sets of query points that determine a step function

* `Picker P`           a way to choose a point between two points, above a point and below a point
  (`ratPicker`: midpoints and `± 1` on ℚ; `densePicker`: any densely ordered set without endpoints)
* `probes π U`         the points of the sorted list `U` plus one picked point inside every open piece of the
  partition of the line by `U` (including the two unbounded pieces)
* `Probes T U`         the property that matters; `v3b_probes_spec : Probes (probes π U) U`
* `v3b_lim_eq_of_probe`, `v3b_exists_max_reached`, `v3b_exists_min_unreached`  how a limit anywhere is read off
  at such points
-/
set_option linter.unusedSectionVars false
namespace SC
namespace Views3b
variable {P V : Type} [LinearOrder P]

/-! ## reached patterns -/

theorem v3b_reached_of_le {st : Bool} {p q x : P} (hpq : p ≤ q) (h : reached st q x = true) :
    reached st p x = true := by
  rcases lt_or_eq_of_le hpq with h1 | h1
  · exact reached_mono h1 h
  · rw [h1]; exact h

/-- off the point itself `reached` does not depend on the side -/
theorem v3b_reached_side {p t : P} (h : t ≠ p) (st st' : Bool) : reached st p t = reached st' p t := by
  rcases lt_or_gt_of_ne h with h1 | h1
  · rw [not_reached_of_lt h1, not_reached_of_lt h1]
  · rw [reached_of_lt h1, reached_of_lt h1]

theorem v3b_reached_iff_lt {p t : P} (h : t ≠ p) (st : Bool) : reached st p t = true ↔ p < t := by
  rcases lt_or_gt_of_ne h with h1 | h1
  · rw [not_reached_of_lt h1]; simp [not_lt_of_gt h1]
  · rw [reached_of_lt h1]; simp [h1]

/-- the limit only depends on which step points have been passed (any two sides, any two points) -/
theorem v3b_lim_congr {V : Type} (st st' : Bool) (a : V) (s : List (P × V)) (x x' : P)
    (h : ∀ p ∈ s.map Prod.fst, reached st p x = reached st' p x') : lim st a s x = lim st' a s x' := by
  induction s generalizing a with
  | nil => rfl
  | cons pv r ih =>
    obtain ⟨p, v⟩ := pv
    simp only [lim_cons]
    rw [h p (by simp), ih v (fun q hq => h q (by simp only [List.map_cons, List.mem_cons]; exact Or.inr hq))]

/-- among finitely many points, the reached ones (if any) have a greatest element -/
theorem v3b_exists_max_reached (st : Bool) (x : P) (U : List P) :
    (∀ p ∈ U, reached st p x = false) ∨
    ∃ u ∈ U, reached st u x = true ∧ ∀ p ∈ U, reached st p x = true → p ≤ u := by
  induction U with
  | nil => left; simp
  | cons q r ih =>
    by_cases hq : reached st q x = true
    · right
      rcases ih with h | ⟨u, hu, hur, hmax⟩
      · refine ⟨q, by simp, hq, ?_⟩
        intro p hp hpr
        rcases List.mem_cons.mp hp with rfl | hp'
        · exact le_refl _
        · rw [h p hp'] at hpr; cases hpr
      · rcases le_total q u with hqu | huq
        · refine ⟨u, List.mem_cons_of_mem _ hu, hur, ?_⟩
          intro p hp hpr
          rcases List.mem_cons.mp hp with rfl | hp'
          · exact hqu
          · exact hmax p hp' hpr
        · refine ⟨q, by simp, hq, ?_⟩
          intro p hp hpr
          rcases List.mem_cons.mp hp with rfl | hp'
          · exact le_refl _
          · exact le_trans (hmax p hp' hpr) huq
    · have hq' : reached st q x = false := by simpa using hq
      rcases ih with h | ⟨u, hu, hur, hmax⟩
      · left
        intro p hp
        rcases List.mem_cons.mp hp with rfl | hp'
        · exact hq'
        · exact h p hp'
      · right
        refine ⟨u, List.mem_cons_of_mem _ hu, hur, ?_⟩
        intro p hp hpr
        rcases List.mem_cons.mp hp with rfl | hp'
        · rw [hq'] at hpr; cases hpr
        · exact hmax p hp' hpr

/-- … and the unreached ones (if any) a least element -/
theorem v3b_exists_min_unreached (st : Bool) (x : P) (U : List P) :
    (∀ p ∈ U, reached st p x = true) ∨
    ∃ u ∈ U, reached st u x = false ∧ ∀ p ∈ U, reached st p x = false → u ≤ p := by
  induction U with
  | nil => left; simp
  | cons q r ih =>
    by_cases hq : reached st q x = true
    · rcases ih with h | ⟨u, hu, hur, hmin⟩
      · left
        intro p hp
        rcases List.mem_cons.mp hp with rfl | hp'
        · exact hq
        · exact h p hp'
      · right
        refine ⟨u, List.mem_cons_of_mem _ hu, hur, ?_⟩
        intro p hp hpr
        rcases List.mem_cons.mp hp with rfl | hp'
        · rw [hq] at hpr; cases hpr
        · exact hmin p hp' hpr
    · have hq' : reached st q x = false := by simpa using hq
      right
      rcases ih with h | ⟨u, hu, hur, hmin⟩
      · refine ⟨q, by simp, hq', ?_⟩
        intro p hp hpr
        rcases List.mem_cons.mp hp with rfl | hp'
        · exact le_refl _
        · rw [h p hp'] at hpr; cases hpr
      · rcases le_total q u with hqu | huq
        · refine ⟨q, by simp, hq', ?_⟩
          intro p hp hpr
          rcases List.mem_cons.mp hp with rfl | hp'
          · exact le_refl _
          · exact le_trans hqu (hmin p hp' hpr)
        · refine ⟨u, List.mem_cons_of_mem _ hu, hur, ?_⟩
          intro p hp hpr
          rcases List.mem_cons.mp hp with rfl | hp'
          · exact huq
          · exact hmin p hp' hpr

/-- the reached pattern at `x` is the right-limit pattern at the greatest reached point -/
theorem v3b_pattern_at_max (st : Bool) (x u : P) (U : List P) (hur : reached st u x = true)
    (hmax : ∀ p ∈ U, reached st p x = true → p ≤ u) (p : P) (hp : p ∈ U) :
    reached st p x = reached false p u := by
  by_cases h : reached st p x = true
  · rw [h, (reached_right_iff p u).mpr (hmax p hp h)]
  · have h' : reached st p x = false := by simpa using h
    rw [h']
    by_contra hc
    have : reached false p u = true := by
      cases hr : reached false p u
      · rw [hr] at hc; exact absurd rfl hc
      · rfl
    exact h (v3b_reached_of_le ((reached_right_iff p u).mp this) hur)

/-- the reached pattern at `x` is the left-limit pattern at the least unreached point -/
theorem v3b_pattern_at_min (st : Bool) (x u : P) (U : List P) (hur : reached st u x = false)
    (hmin : ∀ p ∈ U, reached st p x = false → u ≤ p) (p : P) (hp : p ∈ U) :
    reached st p x = reached true p u := by
  by_cases h : reached st p x = true
  · rw [h]
    symm
    rw [reached_left_iff]
    by_contra hc
    have hup : u ≤ p := not_lt.mp hc
    rw [v3b_reached_of_le hup h] at hur; cases hur
  · have h' : reached st p x = false := by simpa using h
    rw [h']
    symm
    have : ¬ p < u := not_lt.mpr (hmin p hp h')
    cases hr : reached true p u
    · rfl
    · exact absurd ((reached_left_iff p u).mp hr) this

/-! ## pickers -/

/-- a way to choose a point strictly between two points, above a point, below a point -/
structure Picker (P : Type) [LT P] where
  mid : P → P → P
  up : P → P
  down : P → P
  dflt : P
  mid_spec : ∀ p q, p < q → p < mid p q ∧ mid p q < q
  up_spec : ∀ p, p < up p
  down_spec : ∀ p, down p < p

/-- ℚ: midpoints, one above, one below -/
def ratPicker : Picker Rat where
  mid p q := (p + q) / 2
  up p := p + 1
  down p := p - 1
  dflt := 0
  mid_spec p q h := ⟨by linarith, by linarith⟩
  up_spec p := by linarith
  down_spec p := by linarith

/-- any densely ordered set without endpoints has a picker -/
noncomputable def densePicker [DenselyOrdered P] [NoMinOrder P] [NoMaxOrder P] [Nonempty P] : Picker P where
  mid p q := if h : p < q then Classical.choose (exists_between h) else p
  up p := Classical.choose (exists_gt p)
  down p := Classical.choose (exists_lt p)
  dflt := Classical.arbitrary P
  mid_spec p q h := by rw [dif_pos h]; exact Classical.choose_spec (exists_between h)
  up_spec p := Classical.choose_spec (exists_gt p)
  down_spec p := Classical.choose_spec (exists_lt p)

/-- after the point `p`: a picked point in every open piece to the right of `p`, and the points of the list -/
def probesAfter (π : Picker P) : P → List P → List P
  | p, [] => [π.up p]
  | p, q :: r => π.mid p q :: q :: probesAfter π q r

/-- the points of `U` and a picked point in every open piece of the partition of the line by `U` -/
def probes (π : Picker P) : List P → List P
  | [] => [π.dflt]
  | p :: r => π.down p :: p :: probesAfter π p r

/-- `T` contains `U` and, for every `x`, a point outside `U` lying in the same open piece as the points just
left of `x`, and one in the same piece as the points just right of `x`: i.e. a point strictly inside every
open piece of the partition of the line by `U` -/
def Probes (T U : List P) : Prop :=
  (∀ u ∈ U, u ∈ T) ∧
  (∀ x, ∃ t ∈ T, t ∉ U ∧ ∀ p ∈ U, (p < t ↔ p < x)) ∧
  (∀ x, ∃ t ∈ T, t ∉ U ∧ ∀ p ∈ U, (p < t ↔ p ≤ x))

theorem v3b_probes_reached {T U : List P} (h : Probes T U) (st : Bool) (x : P) :
    ∃ t ∈ T, t ∉ U ∧ ∀ p ∈ U, ∀ st', reached st' p t = reached st p x := by
  have key : ∃ t ∈ T, t ∉ U ∧ ∀ p ∈ U, (p < t ↔ reached st p x = true) := by
    cases st
    · obtain ⟨t, ht, hn, hp⟩ := h.2.2 x
      exact ⟨t, ht, hn, fun p hpU => by rw [reached_right_iff]; exact hp p hpU⟩
    · obtain ⟨t, ht, hn, hp⟩ := h.2.1 x
      exact ⟨t, ht, hn, fun p hpU => by rw [reached_left_iff]; exact hp p hpU⟩
  obtain ⟨t, ht, hn, hp⟩ := key
  refine ⟨t, ht, hn, fun p hpU st' => ?_⟩
  have hne : t ≠ p := fun h' => hn (h' ▸ hpU)
  have h1 := v3b_reached_iff_lt hne st'
  have h2 := hp p hpU
  cases ha : reached st' p t <;> cases hb : reached st p x <;> simp_all

theorem v3b_mem_probesAfter (π : Picker P) (p : P) (r : List P) : ∀ q ∈ r, q ∈ probesAfter π p r := by
  induction r generalizing p with
  | nil => simp
  | cons q r ih =>
    intro q' hq'
    simp only [probesAfter, List.mem_cons]
    rcases List.mem_cons.mp hq' with h | h
    · exact Or.inr (Or.inl h)
    · exact Or.inr (Or.inr (ih q q' h))

theorem v3b_mem_probes (π : Picker P) (U : List P) : ∀ u ∈ U, u ∈ probes π U := by
  cases U with
  | nil => simp
  | cons p r =>
    intro u hu
    simp only [probes, List.mem_cons]
    rcases List.mem_cons.mp hu with h | h
    · exact Or.inr (Or.inl h)
    · exact Or.inr (Or.inr (v3b_mem_probesAfter π p r u h))

theorem v3b_probesAfter_spec (π : Picker P) (st : Bool) (x : P) (r : List P) :
    ∀ p, (p :: r).Pairwise (· < ·) → reached st p x = true →
      ∃ t ∈ probesAfter π p r, p < t ∧ t ∉ r ∧ ∀ q ∈ r, (q < t ↔ reached st q x = true) := by
  induction r with
  | nil =>
    intro p _ _
    exact ⟨π.up p, by simp [probesAfter], π.up_spec p, by simp, by simp⟩
  | cons q r ih =>
    intro p hs hp
    rw [List.pairwise_cons] at hs
    obtain ⟨hpr, hs'⟩ := hs
    have hpq : p < q := hpr q (by simp)
    by_cases hq : reached st q x = true
    · obtain ⟨t, ht, hqt, hn, hall⟩ := ih q hs' hq
      refine ⟨t, by simp [probesAfter, ht], lt_trans hpq hqt, ?_, ?_⟩
      · intro hmem
        rcases List.mem_cons.mp hmem with h | h
        · exact absurd hqt (by rw [h]; exact lt_irrefl _)
        · exact hn h
      · intro q' hq'
        rcases List.mem_cons.mp hq' with h | h
        · rw [h]; exact ⟨fun _ => hq, fun _ => hqt⟩
        · exact hall q' h
    · obtain ⟨h1, h2⟩ := π.mid_spec p q hpq
      have hqle : ∀ q' ∈ q :: r, q ≤ q' := by
        intro q' hq'
        rcases List.mem_cons.mp hq' with h | h
        · exact le_of_eq h.symm
        · exact le_of_lt ((List.pairwise_cons.mp hs').1 q' h)
      refine ⟨π.mid p q, by simp [probesAfter], h1, ?_, ?_⟩
      · intro hmem
        exact absurd (lt_of_lt_of_le h2 (hqle _ hmem)) (lt_irrefl _)
      · intro q' hq'
        constructor
        · intro hlt
          exact absurd (lt_trans hlt h2) (not_lt.mpr (hqle q' hq'))
        · intro hr
          exact absurd (v3b_reached_of_le (hqle q' hq') hr) hq

theorem v3b_probes_pattern (π : Picker P) (U : List P) (hU : U.Pairwise (· < ·)) (st : Bool) (x : P) :
    ∃ t ∈ probes π U, t ∉ U ∧ ∀ p ∈ U, (p < t ↔ reached st p x = true) := by
  cases U with
  | nil => exact ⟨π.dflt, by simp [probes], by simp, by simp⟩
  | cons p r =>
    by_cases hp : reached st p x = true
    · obtain ⟨t, ht, hpt, hn, hall⟩ := v3b_probesAfter_spec π st x r p hU hp
      refine ⟨t, by simp [probes, ht], ?_, ?_⟩
      · intro hmem
        rcases List.mem_cons.mp hmem with h | h
        · exact absurd hpt (by rw [h]; exact lt_irrefl _)
        · exact hn h
      · intro q hq
        rcases List.mem_cons.mp hq with h | h
        · rw [h]; exact ⟨fun _ => hp, fun _ => hpt⟩
        · exact hall q h
    · have hple : ∀ q ∈ p :: r, p ≤ q := by
        intro q hq
        rcases List.mem_cons.mp hq with h | h
        · exact le_of_eq h.symm
        · exact le_of_lt ((List.pairwise_cons.mp hU).1 q h)
      refine ⟨π.down p, by simp [probes], ?_, ?_⟩
      · intro hmem
        exact absurd (lt_of_lt_of_le (π.down_spec p) (hple _ hmem)) (lt_irrefl _)
      · intro q hq
        constructor
        · intro hlt
          exact absurd (lt_trans hlt (π.down_spec p)) (not_lt.mpr (hple q hq))
        · intro hr
          exact absurd (v3b_reached_of_le (hple q hq) hr) hp

/-- **`probes π U` probes every open piece of a strictly increasing `U`** -/
theorem v3b_probes_spec (π : Picker P) (U : List P) (hU : U.Pairwise (· < ·)) : Probes (probes π U) U := by
  refine ⟨v3b_mem_probes π U, fun x => ?_, fun x => ?_⟩
  · obtain ⟨t, ht, hn, hp⟩ := v3b_probes_pattern π U hU true x
    exact ⟨t, ht, hn, fun p hpU => by rw [hp p hpU, reached_left_iff]⟩
  · obtain ⟨t, ht, hn, hp⟩ := v3b_probes_pattern π U hU false x
    exact ⟨t, ht, hn, fun p hpU => by rw [hp p hpU, reached_right_iff]⟩

/-- the first probe lies below everything -/
theorem v3b_probes_low (π : Picker P) (U : List P) (hU : U.Pairwise (· < ·)) :
    ∃ t ∈ probes π U, ∀ p ∈ U, t < p := by
  cases U with
  | nil => exact ⟨π.dflt, by simp [probes], by simp⟩
  | cons p r =>
    refine ⟨π.down p, by simp [probes], ?_⟩
    intro q hq
    rcases List.mem_cons.mp hq with h | h
    · rw [h]; exact π.down_spec p
    · exact lt_trans (π.down_spec p) ((List.pairwise_cons.mp hU).1 q h)

theorem v3b_probesAfter_high (π : Picker P) (r : List P) :
    ∀ p, (p :: r).Pairwise (· < ·) → ∃ t ∈ probesAfter π p r, ∀ q ∈ p :: r, q < t := by
  induction r with
  | nil => intro p _; exact ⟨π.up p, by simp [probesAfter], by simp [π.up_spec p]⟩
  | cons q r ih =>
    intro p hs
    rw [List.pairwise_cons] at hs
    obtain ⟨t, ht, hall⟩ := ih q hs.2
    refine ⟨t, by simp [probesAfter, ht], ?_⟩
    intro q' hq'
    rcases List.mem_cons.mp hq' with h | h
    · rw [h]; exact lt_trans (hs.1 q (by simp)) (hall q (by simp))
    · exact hall q' h

/-- the last probe lies above everything -/
theorem v3b_probes_high (π : Picker P) (U : List P) (hU : U.Pairwise (· < ·)) :
    ∃ t ∈ probes π U, ∀ p ∈ U, p < t := by
  cases U with
  | nil => exact ⟨π.dflt, by simp [probes], by simp⟩
  | cons p r =>
    obtain ⟨t, ht, hall⟩ := v3b_probesAfter_high π r p hU
    exact ⟨t, by simp [probes, ht], hall⟩

theorem v3b_probesAfter_length (π : Picker P) (p : P) (r : List P) :
    (probesAfter π p r).length = 2 * r.length + 1 := by
  induction r generalizing p with
  | nil => rfl
  | cons q r ih => simp only [probesAfter, List.length_cons, ih]; omega

/-- `2 n + 1` query points for `n` step points -/
theorem v3b_probes_length (π : Picker P) (U : List P) : (probes π U).length = 2 * U.length + 1 := by
  cases U with
  | nil => rfl
  | cons p r => simp only [probes, List.length_cons, v3b_probesAfter_length]; omega

end Views3b
end SC
