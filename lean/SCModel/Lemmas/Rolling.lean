import SCModel.Lemmas.Integral
import SCModel.Lemmas.Shift
/-!
# SCModel.Lemmas.Rolling — the window integral as a function of the window, for `rolling_mean`

`window c a b` is `c` cut down to `[a, b)` (what `clip c a b` returns).  Its weighted sums
`wsum w (window c a b) = Σ w(value)·length` are

* **additive** in the window: `[a, b) = [a, m) ∪ [m, b)`            (`wsum_window_add`)
* **`value × length`** on a window on which `c` is constant            (`wsum_window_const`)
* and a window without an interior step point of `c` is such a window  (`lim_const_on`).

Hence, sliding a window `[x + l, x + r)` while neither edge crosses a step point changes the integral
linearly in `x` (`intOn_slide`), and where `c` is defined throughout the window the mean is the integral
divided by the (constant) width `r − l` (`mean_window_defined`, `winMean_eq`).
-/
set_option linter.unusedSectionVars false
set_option linter.unusedVariables false
namespace SC
namespace Stairs

/-! ## the window mean and the window integral as functions of the window -/

/-- **the rolling mean at the focal point `x`**: the mean of `c` cut down to `[x + l, x + r]` — this is what
`rollingMean` evaluates at each knot -/
def winMean (c : Stairs Rat) (l r x : Rat) : Val := mean (window c (x + l) (x + r))

/-- the integral of `c` over `[a, b)`, undefined stretches counting `0` -/
def intOn (c : Stairs Rat) (a b : Rat) : Rat := wsum (fun v => v) (window c a b)

/-- the length of the part of `[a, b)` on which `c` is defined -/
def lenOn (c : Stairs Rat) (a b : Rat) : Rat := definedLength (window c a b)

theorem lenOn_eq_wsum (c : Stairs Rat) (a b : Rat) : lenOn c a b = wsum (fun _ => 1) (window c a b) :=
  definedLength_eq_wsum _

/-! ## the window: well-formed, denotation, bounded support -/

theorem boundsOk_of_lt {a b : Rat} (h : a < b) : boundsOk (some a) (some b) = true := by
  simpa [boundsOk] using h

theorem wf_window (c : Stairs Rat) (a b : Rat) (hc : c.WF) (hab : a < b) : (window c a b).WF :=
  wf_combine _ _ _ _ hc (wf_indicator _ _ _ (boundsOk_of_lt hab))

theorem den_window (c : Stairs Rat) (a b : Rat) (hc : c.WF) (hab : a < b) (st : Bool) (x : Rat) :
    Den (window c a b) st x = if inWindow st (some a) (some b) x then Den c st x else none :=
  den_clip c _ _ hc (boundsOk_of_lt hab) _ (clip_window c a b hab) st x

theorem inWindow_right_iff (a b x : Rat) : inWindow false (some a) (some b) x = true ↔ a ≤ x ∧ x < b := by
  rw [inWindow_right]
  constructor
  · intro h; exact ⟨h.1 a rfl, h.2 b rfl⟩
  · rintro ⟨h1, h2⟩
    exact ⟨fun a' ha => by injection ha with ha; rw [← ha]; exact h1,
           fun b' hb => by injection hb with hb; rw [← hb]; exact h2⟩

/-- right limits of the window: `c` on `[a, b)`, undefined elsewhere -/
theorem den_window_right (c : Stairs Rat) (a b : Rat) (hc : c.WF) (hab : a < b) (x : Rat) :
    Den (window c a b) false x = if a ≤ x ∧ x < b then Den c false x else none := by
  rw [den_window c a b hc hab]
  by_cases h : a ≤ x ∧ x < b
  · rw [if_pos h, if_pos ((inWindow_right_iff a b x).mpr h)]
  · rw [if_neg h, if_neg (fun h' => h ((inWindow_right_iff a b x).mp h'))]

/-- a window is undefined on both unbounded pieces -/
theorem window_bounded (c : Stairs Rat) (a b : Rat) (hc : c.WF) (hab : a < b) :
    (window c a b).init = none ∧ lastVal (window c a b).init (window c a b).steps = none := by
  constructor
  · apply init_none_of_lim _ _ a
    intro x hx
    have := den_window_right c a b hc hab x
    rw [if_neg (fun h => absurd h.1 (not_le.mpr hx))] at this
    exact this
  · apply lastVal_none_of_lim _ _ b
    intro x hx
    have := den_window_right c a b hc hab x
    rw [if_neg (fun h => absurd h.2 (not_lt.mpr (le_of_lt hx)))] at this
    exact this

/-! ## Riemann sums on a refining grid -/

/-- the weighted sum of a bounded-support function, computed on **any** strictly increasing grid that contains
its step points: `Σ w(f(p))·(q − p)` over the consecutive grid points `p, q` -/
theorem wsum_refine (a : Stairs Rat) (ha : a.WF) (hb : a.init = none ∧ lastVal a.init a.steps = none)
    (u : List Rat) (hu : u.Pairwise (· < ·)) (hsub : ∀ q ∈ a.steps.map Prod.fst, q ∈ u) (w : Rat → Rat) :
    wsum w a = sumBy (fun pq => liftW w (Den a false pq.1) * (pq.2 - pq.1)) (segs u) :=
  wsum_on_grid a ha hb u hu (fun p => lim false a.init a.steps p) a.init
    (lim_refine false u hu a.init a.steps ha hsub) w

/-- **additivity in the window**, for every weight: `[a, b) = [a, m) ∪ [m, b)` -/
theorem wsum_window_add (w : Rat → Rat) (c : Stairs Rat) (hc : c.WF) (a m b : Rat) (ham : a < m) (hmb : m < b) :
    wsum w (window c a b) = wsum w (window c a m) + wsum w (window c m b) := by
  have hab : a < b := lt_trans ham hmb
  have W := wf_window c a b hc hab
  have W1 := wf_window c a m hc ham
  have W2 := wf_window c m b hc hmb
  obtain ⟨u, hu, s0, s1, s2⟩ : ∃ u : List Rat, u.Pairwise (· < ·) ∧
      (∀ q ∈ (window c a b).steps.map Prod.fst, q ∈ u) ∧ (∀ q ∈ (window c a m).steps.map Prod.fst, q ∈ u) ∧
      (∀ q ∈ (window c m b).steps.map Prod.fst, q ∈ u) := by
    refine ⟨unionIdx (unionIdx ((window c a b).steps.map Prod.fst) ((window c a m).steps.map Prod.fst))
      ((window c m b).steps.map Prod.fst), pairwise_unionIdx _ _ (pairwise_unionIdx _ _ W W1) W2, ?_, ?_, ?_⟩
    · intro q hq; exact (mem_unionIdx _ _ _).mpr (Or.inl ((mem_unionIdx _ _ _).mpr (Or.inl hq)))
    · intro q hq; exact (mem_unionIdx _ _ _).mpr (Or.inl ((mem_unionIdx _ _ _).mpr (Or.inr hq)))
    · intro q hq; exact (mem_unionIdx _ _ _).mpr (Or.inr hq)
  rw [wsum_refine _ W (window_bounded c a b hc hab) u hu s0 w,
      wsum_refine _ W1 (window_bounded c a m hc ham) u hu s1 w,
      wsum_refine _ W2 (window_bounded c m b hc hmb) u hu s2 w, ← sumBy_add]
  apply sumBy_congr
  intro pq _
  rw [den_window_right c a b hc hab, den_window_right c a m hc ham, den_window_right c m b hc hmb]
  rw [← add_mul]
  congr 1
  by_cases h1 : a ≤ pq.1
  · by_cases h2 : pq.1 < m
    · have h3 : pq.1 < b := lt_trans h2 hmb
      rw [if_pos ⟨h1, h3⟩, if_pos ⟨h1, h2⟩, if_neg (fun h => absurd h.1 (not_le.mpr h2))]
      simp
    · have h2' : m ≤ pq.1 := not_lt.mp h2
      by_cases h3 : pq.1 < b
      · rw [if_pos ⟨h1, h3⟩, if_neg (fun h => h2 h.2), if_pos ⟨h2', h3⟩]
        simp
      · rw [if_neg (fun h => h3 h.2), if_neg (fun h => h2 h.2), if_neg (fun h => h3 h.2)]
        simp
  · have h1' : ¬ m ≤ pq.1 := fun h => h1 (le_trans (le_of_lt ham) h)
    rw [if_neg (fun h => h1 h.1), if_neg (fun h => h1 h.1), if_neg (fun h => h1' h.1)]
    simp

/-! ## a window on which the function is constant -/

theorem liftW_id_map (w : Rat → Rat) (v : Val) : liftW (fun x => x) (v.map w) = liftW w v := by
  cases v <;> rfl

/-- **constancy** (general form): if `w ∘ c` is the constant `v'` on `[a, b)`, the weighted sum is `v' · (b − a)` -/
theorem wsum_window_const_map (w : Rat → Rat) (c : Stairs Rat) (hc : c.WF) (a b : Rat) (hab : a < b) (v' : Val)
    (h : ∀ p, a ≤ p → p < b → (Den c false p).map w = v') :
    wsum w (window c a b) = liftW (fun x => x) v' * (b - a) := by
  have hW := wf_window c a b hc hab
  obtain ⟨hi, hl⟩ := window_bounded c a b hc hab
  rw [wsum_eq_pieceSum]
  have e1 : pieceSum (liftW w) (window c a b).steps
      = pieceSum (liftW fun x => x) ((window c a b).steps.map fun pv => (pv.1, (fun v : Val => v.map w) pv.2)) := by
    rw [pieceSum_mapVals]
    apply pieceSum_congr
    intro p q v _
    exact (liftW_id_map w v).symm
  rw [e1]
  have hs' : Sorted ((window c a b).steps.map fun pv => (pv.1, (fun v : Val => v.map w) pv.2)) :=
    sorted_mapVals _ _ hW
  have hlim : ∀ x, lim false none ((window c a b).steps.map fun pv => (pv.1, (fun v : Val => v.map w) pv.2)) x
      = if a ≤ x ∧ x < b then v' else none := by
    intro x
    have h1 := lim_map false (fun v : Val => v.map w) (window c a b).init (window c a b).steps x
    have h2 : lim false (window c a b).init (window c a b).steps x
        = if a ≤ x ∧ x < b then Den c false x else none := den_window_right c a b hc hab x
    rw [h2, hi] at h1
    rw [show (none : Val) = (fun v : Val => v.map w) none from rfl, h1]
    by_cases hx : a ≤ x ∧ x < b
    · rw [if_pos hx, if_pos hx]; exact h x hx.1 hx.2
    · rw [if_neg hx, if_neg hx]
  have ht : Sorted [(a, v'), (b, (none : Val))] := by
    unfold Sorted; simp [hab]
  have htlim : ∀ x, lim false none [(a, v'), (b, (none : Val))] x = if a ≤ x ∧ x < b then v' else none := by
    intro x
    have e : lim false none [(a, v'), (b, (none : Val))] x
        = if reached false a x then (if reached false b x then none else v') else none := rfl
    rw [e]
    by_cases h1 : a ≤ x
    · by_cases h2 : x < b
      · rw [(reached_right_iff a x).mpr h1, not_reached_of_lt h2, if_pos (⟨h1, h2⟩ : a ≤ x ∧ x < b)]; rfl
      · rw [(reached_right_iff a x).mpr h1, (reached_right_iff b x).mpr (not_lt.mp h2),
          if_neg (fun h : a ≤ x ∧ x < b => h2 h.2)]
        rfl
    · rw [not_reached_of_lt (not_le.mp h1), if_neg (fun h : a ≤ x ∧ x < b => h1 h.1)]; rfl
  have hl' : liftW (fun x => x)
      (lastVal none ((window c a b).steps.map fun pv => (pv.1, (fun v : Val => v.map w) pv.2))) = 0 := by
    rw [lastVal_none_of_lim none _ b (fun x hx => by
      rw [hlim x, if_neg (fun h => absurd h.2 (not_lt.mpr (le_of_lt hx)))])]
    rfl
  rw [pieceSum_eq_of_den_bounded _ none none _ _ hs' ht (fun x => (hlim x).trans (htlim x).symm) rfl hl',
      pieceSum_cons_cons, pieceSum_singleton]
  ring

/-- **constancy**: if `c` is the constant `v` (possibly "undefined") on `[a, b)` then the weighted sum over the
window is `w(v) · (b − a)` -/
theorem wsum_window_const (w : Rat → Rat) (c : Stairs Rat) (hc : c.WF) (a b : Rat) (hab : a < b) (v : Val)
    (h : ∀ p, a ≤ p → p < b → Den c false p = v) : wsum w (window c a b) = liftW w v * (b - a) := by
  rw [wsum_window_const_map w c hc a b hab (v.map w) (fun p h1 h2 => by rw [h p h1 h2]), liftW_id_map]

/-- no step point strictly inside `(A, B)`: the right limit is constant on `[A, B)` -/
theorem lim_const_on {V : Type} (a : V) (s : List (Rat × V)) (A B : Rat)
    (hno : ∀ q ∈ s.map Prod.fst, ¬ (A < q ∧ q < B)) (p : Rat) (hAp : A ≤ p) (hpB : p < B) :
    lim false a s p = lim false a s A := by
  induction s generalizing a with
  | nil => rfl
  | cons qv t ih =>
    obtain ⟨q, v⟩ := qv
    have ht : ∀ q' ∈ t.map Prod.fst, ¬ (A < q' ∧ q' < B) :=
      fun q' hq' => hno q' (by simp only [List.map_cons, List.mem_cons]; exact Or.inr hq')
    rw [lim_cons, lim_cons]
    by_cases hq : q ≤ A
    · rw [(reached_right_iff q A).mpr hq, (reached_right_iff q p).mpr (le_trans hq hAp), if_pos rfl, if_pos rfl]
      exact ih v ht
    · have hq' : A < q := not_le.mp hq
      have hBq : B ≤ q := by
        by_contra hlt
        exact hno q (by simp) ⟨hq', not_le.mp hlt⟩
      rw [not_reached_of_lt hq', not_reached_of_lt (lt_of_lt_of_le hpB hBq)]
      rfl

/-! ## the integral over a window -/

/-- additivity of the window integral -/
theorem intOn_add (c : Stairs Rat) (hc : c.WF) (a m b : Rat) (ham : a < m) (hmb : m < b) :
    intOn c a b = intOn c a m + intOn c m b := wsum_window_add _ c hc a m b ham hmb

/-- additivity of the defined length -/
theorem lenOn_add (c : Stairs Rat) (hc : c.WF) (a m b : Rat) (ham : a < m) (hmb : m < b) :
    lenOn c a b = lenOn c a m + lenOn c m b := by
  rw [lenOn_eq_wsum, lenOn_eq_wsum, lenOn_eq_wsum]; exact wsum_window_add _ c hc a m b ham hmb

/-- constancy: value × length (an undefined stretch contributes `0`) -/
theorem intOn_const (c : Stairs Rat) (hc : c.WF) (a b : Rat) (hab : a < b) (v : Val)
    (h : ∀ p, a ≤ p → p < b → Den c false p = v) : intOn c a b = liftW (fun x => x) v * (b - a) :=
  wsum_window_const _ c hc a b hab v h

theorem intOn_const_some (c : Stairs Rat) (hc : c.WF) (a b : Rat) (hab : a < b) (v : Rat)
    (h : ∀ p, a ≤ p → p < b → Den c false p = some v) : intOn c a b = v * (b - a) :=
  intOn_const c hc a b hab (some v) h

/-- where `c` is defined throughout `[a, b)`, the defined length of the window is `b − a` -/
theorem lenOn_defined (c : Stairs Rat) (hc : c.WF) (a b : Rat) (hab : a < b)
    (h : ∀ p, a ≤ p → p < b → ∃ y, Den c false p = some y) : lenOn c a b = b - a := by
  rw [lenOn_eq_wsum, wsum_window_const_map (fun _ => 1) c hc a b hab (some 1) (fun p h1 h2 => by
    obtain ⟨y, hy⟩ := h p h1 h2
    rw [hy]; rfl)]
  simp

/-- **the window mean of a function defined throughout the window is integral / width** -/
theorem mean_window_defined (c : Stairs Rat) (hc : c.WF) (a b : Rat) (hab : a < b)
    (h : ∀ p, a ≤ p → p < b → ∃ y, Den c false p = some y) :
    mean (window c a b) = some (intOn c a b / (b - a)) := by
  have hL : definedLength (window c a b) = b - a := lenOn_defined c hc a b hab h
  have hne : b - a ≠ 0 := by
    intro h0
    have : a < a := by linarith
    exact lt_irrefl _ this
  rw [mean_eq_ite, hL, if_neg hne]
  rfl

/-- an undefined stretch inside the window: the mean divides by the *defined* length only -/
theorem mean_window_general (c : Stairs Rat) (a b : Rat) :
    mean (window c a b) = if lenOn c a b = 0 then none else some (intOn c a b / lenOn c a b) :=
  mean_eq_ite _

/-! ## sliding the window -/

/-- **the window integral is linear in the focal point while no window edge crosses a step point**: if no step
point of `c` lies strictly inside `(x₀ + l, x₁ + l)` nor `(x₀ + r, x₁ + r)` then for `x₀ ≤ x ≤ x₁`
`∫[x+l, x+r) c = ∫[x₀+l, x₀+r) c + (x − x₀)·(c(x₀ + r) − c(x₀ + l))` (an undefined value counting `0`). -/
theorem intOn_slide (c : Stairs Rat) (hc : c.WF) (l r x₀ x₁ : Rat) (hlr : l < r)
    (hL : ∀ q ∈ c.idx, ¬ (x₀ + l < q ∧ q < x₁ + l)) (hR : ∀ q ∈ c.idx, ¬ (x₀ + r < q ∧ q < x₁ + r))
    (x : Rat) (h0 : x₀ ≤ x) (h1 : x ≤ x₁) :
    intOn c (x + l) (x + r) = intOn c (x₀ + l) (x₀ + r)
      + (x - x₀) * (liftW (fun y => y) (Den c false (x₀ + r)) - liftW (fun y => y) (Den c false (x₀ + l))) := by
  rcases eq_or_lt_of_le h0 with heq | hlt
  · subst heq; ring
  · have A1 := intOn_add c hc (x₀ + l) (x + l) (x + r) (by linarith) (by linarith)
    have A2 := intOn_add c hc (x₀ + l) (x₀ + r) (x + r) (by linarith) (by linarith)
    have C1 := intOn_const c hc (x₀ + l) (x + l) (by linarith) (Den c false (x₀ + l)) (fun p hp1 hp2 =>
      lim_const_on c.init c.steps (x₀ + l) (x₁ + l) hL p hp1 (by linarith))
    have C2 := intOn_const c hc (x₀ + r) (x + r) (by linarith) (Den c false (x₀ + r)) (fun p hp1 hp2 =>
      lim_const_on c.init c.steps (x₀ + r) (x₁ + r) hR p hp1 (by linarith))
    rw [C1] at A1
    rw [C2] at A2
    linarith

/-- the window mean at a focal point around which `c` is defined throughout the window -/
theorem winMean_eq (c : Stairs Rat) (hc : c.WF) (l r x : Rat) (hlr : l < r)
    (h : ∀ p, x + l ≤ p → p < x + r → ∃ y, Den c false p = some y) :
    winMean c l r x = some (intOn c (x + l) (x + r) / (r - l)) := by
  unfold winMean
  rw [mean_window_defined c hc (x + l) (x + r) (by linarith) h]
  congr 2
  ring

end Stairs
end SC
