import SCModel.Lemmas.Core
import Mathlib.Order.Max
/-!
# SCModel.Lemmas.Canon — the canonical (sorted, minimal) form of a step function is unique
-/
set_option linter.unusedSectionVars false
namespace SC
variable {P V : Type} [LinearOrder P] [DecidableEq V]

/-- two sorted minimal step lists with the same right limits everywhere are equal -/
theorem canonical_unique [NoMinOrder P] [Nonempty P] :
    ∀ (s t : List (P × V)) (a b : V), Sorted s → Sorted t → Minimal a s → Minimal b t →
      (∀ x, lim false a s x = lim false b t x) → a = b ∧ s = t := by
  intro s
  induction s with
  | nil =>
    intro t a b _ ht _ mt h
    cases t with
    | nil => exact ⟨by simpa [lim] using h (Classical.arbitrary P), rfl⟩
    | cons qw t' =>
      obtain ⟨q, w⟩ := qw
      obtain ⟨y, hy⟩ := exists_lt q
      have hab : a = b := by
        have := h y
        rw [lim_before false b _ y (by
          intro r hr; simp only [List.map_cons, List.mem_cons] at hr
          rcases hr with h | h
          · rw [h]; exact hy
          · exact lt_trans hy ((sorted_tail ht).2 r h))] at this
        simpa [lim] using this
      have := h q
      rw [lim_at_head b q w t' ht] at this
      exact absurd (by rw [← this, ← hab]; rfl) mt.1
  | cons pv s' ih =>
    obtain ⟨p, v⟩ := pv
    intro t a b hs ht ms mt h
    have hs' := sorted_tail hs
    cases t with
    | nil =>
      obtain ⟨y, hy⟩ := exists_lt p
      have hab : a = b := by
        have := h y
        rw [lim_before false a _ y (by
          intro r hr; simp only [List.map_cons, List.mem_cons] at hr
          rcases hr with h | h
          · rw [h]; exact hy
          · exact lt_trans hy (hs'.2 r h))] at this
        simpa [lim] using this
      have := h p
      rw [lim_at_head a p v s' hs] at this
      exact absurd (by rw [this, hab]; rfl) ms.1
    | cons qw t' =>
      obtain ⟨q, w⟩ := qw
      have ht' := sorted_tail ht
      have hab : a = b := by
        obtain ⟨y, hy⟩ := exists_lt (min p q)
        have hyp : y < p := lt_of_lt_of_le hy (min_le_left _ _)
        have hyq : y < q := lt_of_lt_of_le hy (min_le_right _ _)
        have := h y
        rw [lim_cons, lim_cons, not_reached_of_lt hyp, not_reached_of_lt hyq] at this
        simpa using this
      subst hab
      have hpq : p = q := by
        rcases lt_trichotomy p q with hlt | heq | hgt
        · have := h p
          rw [lim_at_head a p v s' hs, lim_cons, not_reached_of_lt hlt] at this
          exact absurd (by simpa using this) ms.1
        · exact heq
        · have := h q
          rw [lim_at_head a q w t' ht, lim_cons, not_reached_of_lt hgt] at this
          exact absurd (by simpa using this.symm) mt.1
      subst hpq
      have hvw : v = w := by
        have := h p
        rwa [lim_at_head a p v s' hs, lim_at_head a p w t' ht] at this
      subst hvw
      have htail : ∀ x, lim false v s' x = lim false v t' x := by
        intro x
        by_cases hx : reached false p x = true
        · have := h x
          rwa [lim_cons, lim_cons, hx] at this
        · have hx' : x < p := by
            simp [reached] at hx; exact hx
          rw [lim_before false v s' x (fun r hr => lt_trans hx' (hs'.2 r hr)),
              lim_before false v t' x (fun r hr => lt_trans hx' (ht'.2 r hr))]
      obtain ⟨_, hst⟩ := ih t' v v hs'.1 ht'.1 ms.2 mt.2 htail
      exact ⟨rfl, by rw [hst]⟩

end SC
