import SCModel.Lemmas.Layer
import SCModel.Model.World
import Mathlib.Algebra.Order.Ring.Rat
/-!
# SCModel.Lemmas.World14b — a canonical receiver that is somewhere defined stays so under `layer`

Used by `Props/C14b` to show that for canonical objects the "effective `layer`" condition does not depend on
the moment: an object that is not everywhere-undefined when created never becomes so.
-/
namespace SC
open Stairs

/-- a canonical step function that denotes "undefined" everywhere is the step-free undefined function -/
theorem w14b_allUndefined_of_den (f : Stairs Rat) (hf : f.Canonical) (h : ∀ x, Den f false x = none) :
    Obj.allUndefined f = true := by
  obtain ⟨hi, hs⟩ := canonical_unique f.steps [] f.init none hf.1 sorted_nil hf.2 trivial
    (by simpa [Den] using h)
  simp [Obj.allUndefined, hi, hs]

theorem w14b_den_of_allUndefined (f : Stairs Rat) (h : Obj.allUndefined f = true) (st : Bool) (x : Rat) :
    Den f st x = none := by
  simp only [Obj.allUndefined, Bool.and_eq_true, List.isEmpty_iff, Option.isNone_iff_eq_none] at h
  unfold Den; rw [h.1, h.2]; rfl

/-- `layer` keeps a somewhere-defined canonical function somewhere defined -/
theorem w14b_layer_stays_defined (f : Stairs Rat) (ts : List (Triple Rat)) (hf : f.Canonical)
    (h : Obj.allUndefined f = false) : Obj.allUndefined (Stairs.layer f ts) = false := by
  cases hl : Obj.allUndefined (Stairs.layer f ts) with
  | false => rfl
  | true =>
    have hden : ∀ x, Den f false x = none := by
      intro x
      have h1 := w14b_den_of_allUndefined _ hl false x
      rw [den_layer f ts hf.1] at h1
      cases hd : Den f false x with
      | none => rfl
      | some a => rw [hd] at h1; cases h1
    rw [w14b_allUndefined_of_den f hf hden] at h
    cases h

end SC
