import SCModel.Lemmas.Fill
/-!
# SCModel.Lemmas.Fill7b — helper lemmas for `Props/C07b` (laws of fillna / mask / where / isna / notna / clip)

* `f7bObs`: the *observations* of a step function (its initial value and its one-sided limits); the
  two-operand path and `map` act on every observation alike (`f7b_obs_combine`, `f7b_obs_map`), and two
  canonical objects with the same observations have the same rows (`f7b_identical_of_obs`) — for EVERY
  linear order (no `NoMinOrder` / `Nonempty` needed, because the initial value is observed directly).
* `map` fusion (`f7b_map_map`), holding for all inputs, well-formed or not.
* the closed side of iterated two-operand operations (`f7b_sideOf_result`, `f7b_same_ok`).
* structural and semantic characterisations of where forward / backward fill stay undefined
  (`f7b_lastDefined_none_iff`, `f7b_nextDefined_none_iff`, `f7b_den_ffill_none_iff`, `f7b_den_bfill_none_iff`).
-/
set_option linter.unusedSectionVars false
namespace SC

section lists
variable {P V W : Type} [LinearOrder P]

/-- two sorted minimal row lists over the SAME initial value with the same right limits are equal
(unlike `canonical_unique` this needs no assumption on the order) -/
theorem f7b_steps_unique [DecidableEq V] :
    ∀ (s t : List (P × V)) (a : V), Sorted s → Sorted t → Minimal a s → Minimal a t →
      (∀ x, lim false a s x = lim false a t x) → s = t := by
  intro s
  induction s with
  | nil =>
    intro t a _ ht _ mt h
    cases t with
    | nil => rfl
    | cons qw t' =>
      obtain ⟨q, w⟩ := qw
      have := h q
      rw [lim_at_head a q w t' ht] at this
      exact absurd this.symm mt.1
  | cons pv s' ih =>
    obtain ⟨p, v⟩ := pv
    intro t a hs ht ms mt h
    have hs' := sorted_tail hs
    cases t with
    | nil =>
      have := h p
      rw [lim_at_head a p v s' hs] at this
      exact absurd this ms.1
    | cons qw t' =>
      obtain ⟨q, w⟩ := qw
      have ht' := sorted_tail ht
      have hpq : p = q := by
        rcases lt_trichotomy p q with hlt | heq | hgt
        · have := h p
          rw [lim_at_head a p v s' hs, lim_cons, not_reached_of_lt hlt] at this
          exact absurd (by simpa using this) ms.1
        · exact heq
        · have := h q
          rw [lim_at_head a q w t' ht, lim_cons, not_reached_of_lt hgt] at this
          exact absurd (by simpa using this.symm) mt.1
      subst hpq
      have hvw : v = w := by
        have := h p
        rwa [lim_at_head a p v s' hs, lim_at_head a p w t' ht] at this
      subst hvw
      have htail : ∀ x, lim false v s' x = lim false v t' x := by
        intro x
        by_cases hx : reached false p x = true
        · have := h x
          rwa [lim_cons, lim_cons, hx] at this
        · have hx' : x < p := by
            simp [reached] at hx; exact hx
          rw [lim_before false v s' x (fun r hr => lt_trans hx' (hs'.2 r hr)),
              lim_before false v t' x (fun r hr => lt_trans hx' (ht'.2 r hr))]
      rw [ih t' v hs'.1 ht'.1 ms.2 mt.2 htail]

/-- canonicalising, applying `u` to the values and canonicalising again = applying `u` and canonicalising -/
theorem f7b_rr_map [DecidableEq V] [DecidableEq W] (u : V → W) (a : V) (s : List (P × V)) :
    removeRedundant (u a) ((removeRedundant a s).map fun pv => (pv.1, u pv.2))
      = removeRedundant (u a) (s.map fun pv => (pv.1, u pv.2)) := by
  induction s generalizing a with
  | nil => rfl
  | cons pv r ih =>
    obtain ⟨p, v⟩ := pv
    by_cases hva : v = a
    · subst hva
      simp only [removeRedundant, if_true, List.map_cons]
      exact ih v
    · simp only [removeRedundant, if_neg hva, List.map_cons]
      by_cases hu : u v = u a
      · rw [if_pos hu, if_pos hu, ← hu]; exact ih v
      · rw [if_neg hu, if_neg hu, ih v]

/-- the value of a sorted row list at one of its own step points (right limit) -/
theorem f7b_lim_at_key (a : V) (s : List (P × V)) (hs : Sorted s) (p : P) (w : V)
    (h : (p, w) ∈ s) : lim false a s p = w := by
  induction s generalizing a with
  | nil => simp at h
  | cons b t ih =>
    obtain ⟨q, u⟩ := b
    rcases List.mem_cons.mp h with h | h
    · simp only [Prod.mk.injEq] at h; obtain ⟨h1, h2⟩ := h; subst h1 h2
      exact lim_at_head a p w t hs
    · have hlt : q < p := (sorted_tail hs).2 p (List.mem_map.mpr ⟨(p, w), h, rfl⟩)
      rw [lim_cons, reached_of_lt hlt, if_pos rfl]
      exact ih u (sorted_tail hs).1 h

/-- a limit is the initial value or the value of a row that has been reached -/
theorem f7b_lim_cases (st : Bool) (a : V) (s : List (P × V)) (y : P) :
    lim st a s y = a ∨ ∃ pv ∈ s, reached st pv.1 y = true ∧ lim st a s y = pv.2 := by
  induction s generalizing a with
  | nil => exact Or.inl rfl
  | cons pv r ih =>
    obtain ⟨p, v⟩ := pv
    rw [lim_cons]
    by_cases hr : reached st p y = true
    · rw [if_pos hr]
      rcases ih v with h | ⟨pv, hm, h1, h2⟩
      · exact Or.inr ⟨(p, v), by simp, hr, h⟩
      · exact Or.inr ⟨pv, List.mem_cons_of_mem _ hm, h1, h2⟩
    · rw [if_neg hr]; exact Or.inl rfl

theorem f7b_reached_trans {st : Bool} {p y x : P} (h1 : reached false p y = true)
    (h2 : reached st y x = true) : reached st p x = true := by
  cases st <;> simp [reached] at h1 h2 ⊢ <;> order

theorem f7b_reached_after {st : Bool} {p y x : P} (h1 : reached st p x = true)
    (h2 : reached st y x = false) : reached false p y = true := by
  cases st <;> simp [reached] at h1 h2 ⊢ <;> order

theorem f7b_unreached_trans {st : Bool} {y z x : P} (h1 : reached st y x = false)
    (h2 : y ≤ z) : reached st z x = false := by
  cases st <;> simp [reached] at h1 ⊢ <;> order

end lists

namespace Stairs
variable {P : Type} [LinearOrder P]

/-! ## observations -/

/-- what can be observed of a step function: its initial value, and its one-sided limits -/
inductive F7bObs (P : Type) | init | at (st : Bool) (x : P)

def f7bObs : F7bObs P → Stairs P → Val
  | .init, f => f.init
  | .at st x, f => Den f st x

theorem f7b_obs_combine (op : Val → Val → Val) (f g : Stairs P) (cl : Side) (hf : f.WF) (hg : g.WF)
    (o : F7bObs P) : f7bObs o (combine op f g cl) = op (f7bObs o f) (f7bObs o g) := by
  cases o with
  | init => rfl
  | «at» st x => exact den_combine op f g cl hf hg st x

theorem f7b_obs_map (u : Val → Val) (f : Stairs P) (hf : f.WF) (o : F7bObs P) :
    f7bObs o (map u f) = u (f7bObs o f) := by
  cases o with
  | init => rfl
  | «at» st x => exact den_map u f hf st x

theorem f7b_obs_const (c : Val) (cl : Side) (o : F7bObs P) : f7bObs o (const c cl : Stairs P) = c := by
  cases o <;> rfl

theorem f7b_obs_canon (f : Stairs P) (hf : f.WF) (o : F7bObs P) : f7bObs o f.canon = f7bObs o f := by
  cases o with
  | init => rfl
  | «at» st x => exact den_canon f hf st x

/-- canonical objects with the same initial value and the same right limits have the same rows -/
theorem f7b_data_eq (f g : Stairs P) (hf : f.Canonical) (hg : g.Canonical) (hi : f.init = g.init)
    (h : ∀ x, Den f false x = Den g false x) : f.steps = g.steps := by
  apply f7b_steps_unique f.steps g.steps f.init hf.1 hg.1 hf.2
  · have := hg.2; unfold IsMinimal at this; rwa [← hi] at this
  · intro x; have := h x; unfold Den at this; rwa [← hi] at this

/-- **extensionality**: canonical objects with the same closed side and the same observations are equal -/
theorem f7b_ext (f g : Stairs P) (hf : f.Canonical) (hg : g.Canonical) (hc : f.closed = g.closed)
    (h : ∀ o, f7bObs o f = f7bObs o g) : f = g := by
  have hi : f.init = g.init := h .init
  have hs := f7b_data_eq f g hf hg hi (fun x => h (.at false x))
  cases f; cases g; simp_all

theorem f7b_identical_iff (f g : Stairs P) : identical f g = true ↔ f.init = g.init ∧ f.steps = g.steps := by
  simp [identical]

/-- canonical objects with the same observations are `identical` (same initial value, same rows) -/
theorem f7b_identical_of_obs (f g : Stairs P) (hf : f.Canonical) (hg : g.Canonical)
    (h : ∀ o, f7bObs o f = f7bObs o g) : identical f g = true := by
  have hi : f.init = g.init := h .init
  exact (f7b_identical_iff f g).mpr ⟨hi, f7b_data_eq f g hf hg hi (fun x => h (.at false x))⟩

theorem f7b_eq_of_identical (f g : Stairs P) (h : identical f g = true) (hc : f.closed = g.closed) : f = g := by
  obtain ⟨h1, h2⟩ := (f7b_identical_iff f g).mp h
  cases f; cases g; simp_all

theorem f7b_obs_of_identical (f g : Stairs P) (h : identical f g = true) (o : F7bObs P) :
    f7bObs o f = f7bObs o g := by
  obtain ⟨h1, h2⟩ := (f7b_identical_iff f g).mp h
  cases o with
  | init => exact h1
  | «at» st x => show lim st f.init f.steps x = lim st g.init g.steps x; rw [h1, h2]

/-- a successful two-operand operation: canonical, closed like `sideOf`, and pointwise on every observation -/
theorem f7b_cc (op : Val → Val → Val) (f g h : Stairs P) (hf : f.WF) (hg : g.WF)
    (hres : combineChecked op f g = .ok h) :
    h.Canonical ∧ h.closed = sideOf f g ∧ ∀ o, f7bObs o h = op (f7bObs o f) (f7bObs o g) := by
  rw [combineChecked_eq] at hres
  split at hres
  · cases hres
  · injection hres with hres; subst hres
    exact ⟨canonical_combine op f g _ hf hg, rfl, fun o => f7b_obs_combine op f g _ hf hg o⟩

theorem f7b_not_mismatch_of_ok (op : Val → Val → Val) (f g h : Stairs P)
    (hres : combineChecked op f g = .ok h) : ¬ Mismatch f g := by
  intro hm
  rw [combineChecked_eq, if_pos hm] at hres; cases hres

/-! ## `map` fusion -/

theorem f7b_map_canon (u : Val → Val) (f : Stairs P) : map u f.canon = map u f := by
  unfold map canon
  simp only []
  congr 1
  exact f7b_rr_map u f.init f.steps

/-- **map fusion** (for ALL inputs): two value maps in a row are the composed value map -/
theorem f7b_map_map (u w : Val → Val) (f : Stairs P) : map u (map w f) = map (fun a => u (w a)) f := by
  show map u (canon ⟨w f.init, f.steps.map fun pv => (pv.1, w pv.2), f.closed⟩) = _
  rw [f7b_map_canon]
  unfold map
  simp only [List.map_map, Function.comp_def]

theorem f7b_map_congr (u w : Val → Val) (h : ∀ a, u a = w a) (f : Stairs P) : map u f = map w f := by
  have : u = w := funext h
  rw [this]

/-! ## closed sides -/

theorem f7b_sideOf_same (f g : Stairs P) (cl : Side) (hf : f.closed = cl) (hg : g.closed = cl) :
    sideOf f g = cl := by
  unfold sideOf; rw [hf, hg]; cases f.hasSteps <;> cases g.hasSteps <;> rfl

/-- operands closed on the same side: the two-operand path succeeds, with that side -/
theorem f7b_same_ok (op : Val → Val → Val) (f g : Stairs P) (cl : Side) (hf : f.closed = cl)
    (hg : g.closed = cl) : combineChecked op f g = .ok (combine op f g cl) := by
  rw [combineChecked_total op f g (not_mismatch_of_closed_eq f g (by rw [hf, hg])), f7b_sideOf_same f g cl hf hg]

/-- feeding the result `h` of `op f g` back with the same second operand never mismatches and keeps `h`'s side -/
theorem f7b_sideOf_result (f g h : Stairs P) (hm : ¬ Mismatch f g) (hc : h.closed = sideOf f g) :
    ¬ Mismatch h g ∧ sideOf h g = h.closed := by
  have key : g.hasSteps = true → h.closed = g.closed := by
    intro hg
    rw [hc]; unfold sideOf
    by_cases hf : f.hasSteps = true
    · rw [if_pos hf]
      by_contra hne
      exact hm ⟨hf, hg, hne⟩
    · rw [if_neg hf, if_pos hg]
  constructor
  · intro m; exact m.2.2 (key m.2.1)
  · unfold sideOf
    by_cases hh : h.hasSteps = true
    · rw [if_pos hh]
    · rw [if_neg hh]
      by_cases hg : g.hasSteps = true
      · rw [if_pos hg, key hg]
      · rw [if_neg hg]

/-- … and likewise feeding it back as the second operand of the first -/
theorem f7b_sideOf_result_left (f g h : Stairs P) (hc : h.closed = sideOf f g) :
    ¬ Mismatch h f ∧ (f.hasSteps = true → sideOf h f = f.closed) := by
  have key : f.hasSteps = true → h.closed = f.closed := by
    intro hf; rw [hc]; unfold sideOf; rw [if_pos hf]
  constructor
  · intro m; exact m.2.2 (key m.2.1)
  · intro hf
    unfold sideOf
    by_cases hh : h.hasSteps = true
    · rw [if_pos hh, key hf]
    · rw [if_neg hh, if_pos hf]

/-! ## the clip window as an observation -/

/-- is the observation inside the window? (the initial value is the value at −∞) -/
def f7bInWin (lo hi : Option P) : F7bObs P → Bool
  | .init => lo.isNone
  | .at st x => inWindow st lo hi x

theorem f7b_obs_indicator (lo hi : Option P) (cl : Side) (h : boundsOk lo hi = true) (o : F7bObs P) :
    f7bObs o (indicator lo hi cl) = some (if f7bInWin lo hi o then 1 else 0) := by
  cases o with
  | init => rfl
  | «at» st x => exact den_indicator lo hi cl h st x

theorem f7b_obs_clip (f r : Stairs P) (lo hi : Option P) (hf : f.WF) (hb : boundsOk lo hi = true)
    (hr : clip f lo hi = .ok r) (o : F7bObs P) :
    f7bObs o r = if f7bInWin lo hi o then f7bObs o f else none := by
  rw [clip_ok f lo hi hb] at hr
  injection hr with hr; subst hr
  rw [f7b_obs_combine _ _ _ _ hf (wf_indicator lo hi f.closed hb), f7b_obs_indicator lo hi f.closed hb]
  cases f7bInWin lo hi o <;> simp [whereOp]

/-! ## value-level facts about `fillOp` and the first defined value -/

theorem f7b_fillOp_self (a : Val) : fillOp a a = a := by cases a <;> rfl
theorem f7b_fillOp_assoc (a b c : Val) : fillOp (fillOp a b) c = fillOp a (fillOp b c) := by
  cases a <;> rfl
theorem f7b_fillOp_idem_right (a b : Val) : fillOp (fillOp a b) b = fillOp a b := by
  cases a with
  | none => exact f7b_fillOp_self b
  | some q => rfl
theorem f7b_fillOp_eq_none (a b : Val) : fillOp a b = none ↔ a = none ∧ b = none := by
  cases a <;> simp [fillOp]

theorem f7b_firstSome_eq_none (s : List (P × Val)) : firstSome s = none ↔ ∀ pv ∈ s, pv.2 = none := by
  induction s with
  | nil => simp [firstSome]
  | cons pv r ih =>
    obtain ⟨p, v⟩ := pv
    simp only [firstSome, f7b_fillOp_eq_none, ih, List.mem_cons, forall_eq_or_imp]

theorem f7b_firstSome_bfillSteps (s : List (P × Val)) : firstSome (bfillSteps s) = firstSome s := by
  induction s with
  | nil => rfl
  | cons pv r ih =>
    obtain ⟨p, v⟩ := pv
    rw [bfillSteps_cons, firstVal_bfillSteps]
    show fillOp (fillOp v (firstSome r)) (firstSome (bfillSteps r)) = fillOp v (firstSome r)
    rw [ih, f7b_fillOp_idem_right]

theorem f7b_firstSome_removeRedundant (a : Val) (s : List (P × Val)) :
    fillOp a (firstSome (removeRedundant a s)) = fillOp a (firstSome s) := by
  induction s generalizing a with
  | nil => rfl
  | cons pv r ih =>
    obtain ⟨p, v⟩ := pv
    by_cases hva : v = a
    · subst hva
      simp only [removeRedundant, if_true, firstSome]
      rw [ih v, ← f7b_fillOp_assoc, f7b_fillOp_self]
    · simp only [removeRedundant, if_neg hva, firstSome]
      rw [ih v]

/-! ## forward fill: structure -/

theorem f7b_ffillSteps_idem (a : Val) (s : List (P × Val)) :
    ffillSteps a (ffillSteps a s) = ffillSteps a s := by
  induction s generalizing a with
  | nil => rfl
  | cons pv r ih =>
    obtain ⟨p, v⟩ := pv
    simp only [ffillSteps, f7b_fillOp_idem_right, ih]

/-- canonicalising before forward filling does not matter (`v` is the value the canonicalisation starts
from: undefined, or the value being filled forward) -/
theorem f7b_rr_ffill_rr (r : List (P × Val)) : ∀ (v c : Val), (v = none ∨ v = c) →
    removeRedundant c (ffillSteps c (removeRedundant v r)) = removeRedundant c (ffillSteps c r) := by
  induction r with
  | nil => intro v c _; rfl
  | cons qw r' ih =>
    obtain ⟨q, w⟩ := qw
    intro v c hvc
    have hfill : fillOp v c = c := by
      rcases hvc with h | h
      · rw [h]; rfl
      · rw [h]; exact f7b_fillOp_self c
    by_cases hwv : w = v
    · subst hwv
      simp only [removeRedundant, if_true, ffillSteps, hfill]
      exact ih w c hvc
    · have hw' : w = none ∨ w = fillOp w c := by
        cases w with
        | none => exact Or.inl rfl
        | some z => exact Or.inr rfl
      simp only [removeRedundant, if_neg hwv, ffillSteps]
      by_cases hc : fillOp w c = c
      · rw [if_pos hc, if_pos hc, hc]
        exact ih w c (by rw [hc] at hw'; exact hw')
      · rw [if_neg hc, if_neg hc, ih w (fillOp w c) hw']

/-! ## where forward / backward fill stay undefined -/

/-- forward fill is undefined at `x` iff the initial value and every row reached at `x` are undefined -/
theorem f7b_lastDefined_none_iff (st : Bool) (s : List (P × Val)) (hs : Sorted s) (x : P) : ∀ (a : Val),
    lastDefined st a s x = none ↔ a = none ∧ ∀ pv ∈ s, reached st pv.1 x = true → pv.2 = none := by
  induction s with
  | nil => intro a; simp [lastDefined]
  | cons pv r ih =>
    obtain ⟨p, v⟩ := pv
    intro a
    have hr := sorted_tail hs
    simp only [lastDefined]
    by_cases hp : reached st p x = true
    · rw [if_pos hp, ih hr.1, f7b_fillOp_eq_none]
      simp only [List.mem_cons, forall_eq_or_imp, hp, true_imp_iff]
      tauto
    · rw [if_neg hp]
      constructor
      · intro ha
        refine ⟨ha, fun pv hm hreach => ?_⟩
        rcases List.mem_cons.mp hm with h | h
        · rw [h] at hreach; exact absurd hreach hp
        · exact absurd (reached_mono (hr.2 pv.1 (List.mem_map.mpr ⟨pv, h, rfl⟩)) hreach) hp
      · exact fun h => h.1

/-- backward fill is undefined at `x` iff the value at `x` and every row not yet reached are undefined -/
theorem f7b_nextDefined_none_iff (st : Bool) (s : List (P × Val)) (hs : Sorted s) (x : P) : ∀ (a : Val),
    nextDefined st a s x = none ↔
      lim st a s x = none ∧ ∀ pv ∈ s, reached st pv.1 x = false → pv.2 = none := by
  induction s with
  | nil => intro a; simp [nextDefined]
  | cons pv r ih =>
    obtain ⟨p, v⟩ := pv
    intro a
    have hr := sorted_tail hs
    simp only [nextDefined, lim_cons]
    by_cases hp : reached st p x = true
    · rw [if_pos hp, if_pos hp, ih hr.1]
      simp only [List.mem_cons, forall_eq_or_imp, hp]
      simp
    · rw [if_neg hp, if_neg hp, f7b_fillOp_eq_none, f7b_firstSome_eq_none]
      have hp' : reached st p x = false := by simpa using hp
      constructor
      · rintro ⟨ha, hall⟩
        exact ⟨ha, fun pv hm _ => hall pv hm⟩
      · rintro ⟨ha, hall⟩
        refine ⟨ha, fun pv hm => hall pv hm ?_⟩
        rcases List.mem_cons.mp hm with h | h
        · rw [h]; exact hp'
        · by_contra hne
          have : reached st pv.1 x = true := by simpa using hne
          exact hp (reached_mono (hr.2 pv.1 (List.mem_map.mpr ⟨pv, h, rfl⟩)) this)

/-- backward fill undefined at `x` ⇒ the function is undefined at every point after `x` -/
theorem f7b_nextDefined_none_after (st : Bool) (s : List (P × Val)) (x y : P)
    (hy : reached st y x = false) : ∀ (a : Val), nextDefined st a s x = none → lim false a s y = none := by
  induction s with
  | nil => intro a h; exact h
  | cons pv r ih =>
    obtain ⟨p, v⟩ := pv
    intro a h
    simp only [nextDefined] at h
    by_cases hp : reached st p x = true
    · rw [if_pos hp] at h
      rw [lim_cons, f7b_reached_after hp hy, if_pos rfl]
      exact ih v h
    · rw [if_neg hp, f7b_fillOp_eq_none, f7b_firstSome_eq_none] at h
      rcases f7b_lim_cases false a ((p, v) :: r) y with h1 | ⟨pv, hm, _, h2⟩
      · rw [h1]; exact h.1
      · rw [h2]; exact h.2 pv hm

/-- **forward fill stays undefined exactly left of the first defined piece**: at `x` iff the initial value
is undefined and `f` is undefined at every point up to `x` -/
theorem f7b_den_ffill_none_iff (f : Stairs P) (hf : f.WF) (st : Bool) (x : P) :
    Den (ffill f) st x = none ↔
      f.init = none ∧ ∀ y, reached st y x = true → Den f false y = none := by
  rw [den_ffill f hf, f7b_lastDefined_none_iff st f.steps hf x]
  constructor
  · rintro ⟨ha, hall⟩
    refine ⟨ha, fun y hy => ?_⟩
    rcases f7b_lim_cases false f.init f.steps y with h1 | ⟨pv, hm, hr, h2⟩
    · show lim false f.init f.steps y = none; rw [h1]; exact ha
    · show lim false f.init f.steps y = none; rw [h2]; exact hall pv hm (f7b_reached_trans hr hy)
  · rintro ⟨ha, hall⟩
    refine ⟨ha, fun pv hm hr => ?_⟩
    have := hall pv.1 hr
    rwa [show Den f false pv.1 = pv.2 from f7b_lim_at_key f.init f.steps hf pv.1 pv.2 hm] at this

/-- **backward fill stays undefined exactly right of the last defined piece**: at `x` iff `f` is undefined
at `x` and at every point after `x` -/
theorem f7b_den_bfill_none_iff (f : Stairs P) (hf : f.WF) (st : Bool) (x : P) :
    Den (bfill f) st x = none ↔
      Den f st x = none ∧ ∀ y, reached st y x = false → Den f false y = none := by
  rw [den_bfill f hf]
  constructor
  · intro h
    exact ⟨((f7b_nextDefined_none_iff st f.steps hf x f.init).mp h).1,
      fun y hy => f7b_nextDefined_none_after st f.steps x y hy f.init h⟩
  · rintro ⟨h0, hall⟩
    rw [f7b_nextDefined_none_iff st f.steps hf x]
    refine ⟨h0, fun pv hm hr => ?_⟩
    have := hall pv.1 hr
    rwa [show Den f false pv.1 = pv.2 from f7b_lim_at_key f.init f.steps hf pv.1 pv.2 hm] at this

/-! ## "defined somewhere" -/

/-- some value of `f` (the initial value or a row) is defined -/
def f7bHasDefined (f : Stairs P) : Prop := f.init ≠ none ∨ ∃ pv ∈ f.steps, pv.2 ≠ none

instance (f : Stairs P) : Decidable (f7bHasDefined f) := by unfold f7bHasDefined; infer_instance

theorem f7b_not_hasDefined (f : Stairs P) :
    ¬ f7bHasDefined f ↔ f.init = none ∧ ∀ pv ∈ f.steps, pv.2 = none := by
  unfold f7bHasDefined
  constructor
  · intro h
    refine ⟨by_contra fun h1 => h (Or.inl h1), fun pv hm => by_contra fun h1 => h (Or.inr ⟨pv, hm, h1⟩)⟩
  · rintro ⟨h1, h2⟩ (h | ⟨pv, hm, h⟩)
    · exact h h1
    · exact h (h2 pv hm)

/-- "defined somewhere" in terms of the denoted function (both one-sided limits are needed when the order
has a least element carrying a step point: the initial value is then only visible as a left limit) -/
theorem f7b_hasDefined_iff_den [Nonempty P] (f : Stairs P) (hf : f.WF) :
    f7bHasDefined f ↔ ∃ st x, Den f st x ≠ none := by
  constructor
  · rintro (h | ⟨pv, hm, h⟩)
    · cases hs : f.steps with
      | nil => exact ⟨false, Classical.arbitrary P, by unfold Den; rw [hs]; exact h⟩
      | cons pv r =>
        obtain ⟨p, v⟩ := pv
        refine ⟨true, p, ?_⟩
        unfold Den; rw [hs, lim_cons]
        have : reached true p p = false := by simp [reached]
        rw [this]; exact h
    · exact ⟨false, pv.1, by
        rw [show Den f false pv.1 = pv.2 from f7b_lim_at_key f.init f.steps hf pv.1 pv.2 hm]; exact h⟩
  · rintro ⟨st, x, h⟩
    rcases f7b_lim_cases st f.init f.steps x with h1 | ⟨pv, hm, _, h2⟩
    · exact Or.inl (by rw [← h1]; exact h)
    · exact Or.inr ⟨pv, hm, by rw [← h2]; exact h⟩

/-- nowhere defined ⇒ every observation is undefined -/
theorem f7b_obs_none_of_not_hasDefined (f : Stairs P) (h : ¬ f7bHasDefined f) (st : Bool) (x : P) :
    Den f st x = none := by
  obtain ⟨h1, h2⟩ := (f7b_not_hasDefined f).mp h
  rcases f7b_lim_cases st f.init f.steps x with h | ⟨pv, hm, _, h⟩
  · show lim st f.init f.steps x = none; rw [h]; exact h1
  · show lim st f.init f.steps x = none; rw [h]; exact h2 pv hm

end Stairs
end SC
