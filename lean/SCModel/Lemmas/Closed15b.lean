import SCModel.Lemmas.Masking
import SCModel.Lemmas.Layer
import SCModel.Model.Slicing
/-!
# SCModel.Lemmas.Closed15b — helper lemmas for `Props/C15b` (the closed side, in depth)

* `SideOK s h` — "`h` is closed on `s` or has no steps": the invariant that every checked two-operand operation,
  every unary operation and `shift` preserve (`c15b_sideOK_*`), and that is equivalent to the absence of a
  mismatch (`c15b_not_mismatch_iff`).
* who can have steps: a result of `canon` / `map` / `combine` has steps only if an operand has
  (`c15b_hasSteps_*`).
* the side `sideOf` of a two-operand result in the presence of a step-free operand (`c15b_sideOf_*`).
* `Except` plumbing (`c15b_bind_*`, `c15b_mapM_error`, `c15b_foldlM_*`).
-/
set_option linter.unusedSectionVars false
set_option linter.unusedVariables false
namespace SC
namespace Stairs
variable {P : Type} [LinearOrder P]

/-! ## the invariant -/

/-- closed on `s`, or step-free -/
def SideOK (s : Side) (h : Stairs P) : Prop := h.hasSteps = true → h.closed = s

instance (s : Side) (h : Stairs P) : Decidable (SideOK s h) := by unfold SideOK; infer_instance

theorem c15b_sideOK_of_closed {s : Side} (h : Stairs P) (hc : h.closed = s) : SideOK s h := fun _ => hc
theorem c15b_sideOK_of_stepfree {s : Side} (h : Stairs P) (hs : h.hasSteps = false) : SideOK s h :=
  fun h' => by rw [hs] at h'; cases h'
theorem c15b_sideOK_const (s : Side) (c : Val) (cl : Side) : SideOK s (const c cl : Stairs P) :=
  c15b_sideOK_of_stepfree _ rfl

/-- **no mismatch ⇔ one side fits both operands** -/
theorem c15b_not_mismatch_iff (f g : Stairs P) : ¬ Mismatch f g ↔ ∃ s, SideOK s f ∧ SideOK s g := by
  constructor
  · intro hm
    by_cases hf : f.hasSteps = true
    · refine ⟨f.closed, fun _ => rfl, fun hg => ?_⟩
      by_contra hne
      exact hm ⟨hf, hg, fun e => hne e.symm⟩
    · exact ⟨g.closed, fun h => absurd h hf, fun _ => rfl⟩
  · rintro ⟨s, h1, h2⟩ ⟨hf, hg, hne⟩
    exact hne ((h1 hf).trans (h2 hg).symm)

theorem c15b_mismatch_symm (f g : Stairs P) : Mismatch f g ↔ Mismatch g f :=
  ⟨fun h => ⟨h.2.1, h.1, fun e => h.2.2 e.symm⟩, fun h => ⟨h.2.1, h.1, fun e => h.2.2 e.symm⟩⟩

/-! ## who has steps -/

theorem c15b_hasSteps_iff (f : Stairs P) : f.hasSteps = true ↔ f.steps ≠ [] := by
  cases h : f.steps <;> simp [hasSteps, h]

theorem c15b_hasSteps_false_iff (f : Stairs P) : f.hasSteps = false ↔ f.steps = [] := by
  cases h : f.steps <;> simp [hasSteps, h]

theorem c15b_hasSteps_canon (f : Stairs P) (h : (canon f).hasSteps = true) : f.hasSteps = true := by
  cases hs : f.steps with
  | nil => simp [hasSteps, canon, hs, removeRedundant] at h
  | cons pv r => simp [hasSteps, hs]

theorem c15b_hasSteps_map (u : Val → Val) (f : Stairs P) (h : (map u f).hasSteps = true) :
    f.hasSteps = true := by
  have := c15b_hasSteps_canon _ h
  cases hs : f.steps with
  | nil => simp [hasSteps, hs] at this
  | cons pv r => simp [hasSteps, hs]

theorem c15b_map_stepfree (u : Val → Val) (f : Stairs P) (h : f.hasSteps = false) :
    (map u f).hasSteps = false := by
  cases hm : (map u f).hasSteps with
  | false => rfl
  | true => rw [c15b_hasSteps_map u f hm] at h; cases h

theorem c15b_unionIdx_nil : unionIdx ([] : List P) [] = [] := by simp [unionIdx]

/-- a two-operand result has steps only if an operand has -/
theorem c15b_hasSteps_combine (op : Val → Val → Val) (f g : Stairs P) (cl : Side)
    (h : (combine op f g cl).hasSteps = true) : f.hasSteps = true ∨ g.hasSteps = true := by
  have h1 := c15b_hasSteps_canon _ h
  by_cases hf : f.hasSteps = true
  · exact Or.inl hf
  · by_cases hg : g.hasSteps = true
    · exact Or.inr hg
    · exfalso
      have hf' : f.steps = [] := (c15b_hasSteps_false_iff f).mp (by simpa using hf)
      have hg' : g.steps = [] := (c15b_hasSteps_false_iff g).mp (by simpa using hg)
      simp [hasSteps, combineSteps, hf', hg', c15b_unionIdx_nil] at h1

theorem c15b_combine_stepfree (op : Val → Val → Val) (f g : Stairs P) (cl : Side)
    (hf : f.hasSteps = false) (hg : g.hasSteps = false) : (combine op f g cl).hasSteps = false := by
  cases hm : (combine op f g cl).hasSteps with
  | false => rfl
  | true =>
    rcases c15b_hasSteps_combine op f g cl hm with h | h
    · rw [h] at hf; cases hf
    · rw [h] at hg; cases hg

/-- two step-free operands give the step-free constant -/
theorem c15b_combine_const (op : Val → Val → Val) (a b : Val) (c1 c2 cl : Side) :
    combine op (const a c1 : Stairs P) (const b c2) cl = const (op a b) cl := by
  simp [combine, const, combineSteps, c15b_unionIdx_nil, canon, removeRedundant]

theorem c15b_hasSteps_shift [Add P] (f : Stairs P) (d : P) : (shift f d).hasSteps = f.hasSteps := by
  simp [hasSteps, shift]

theorem c15b_indicator_none_stepfree (cl : Side) : (indicator (none : Option P) none cl).hasSteps = false := rfl

/-! ## the side of a two-operand result -/

theorem c15b_sideOf_stepfree_right (f g : Stairs P) (hg : g.hasSteps = false) : sideOf f g = f.closed := by
  unfold sideOf; rw [hg]; simp

theorem c15b_sideOf_stepfree_left (f g : Stairs P) (hf : f.hasSteps = false) :
    sideOf f g = if g.hasSteps then g.closed else f.closed := by
  unfold sideOf; rw [hf]; simp

theorem c15b_sideOf_same (f g : Stairs P) (h : f.closed = g.closed) : sideOf f g = f.closed := by
  unfold sideOf; rw [h]; cases f.hasSteps <;> cases g.hasSteps <;> simp

theorem c15b_sideOf_mem (f g : Stairs P) : sideOf f g = f.closed ∨ sideOf f g = g.closed := by
  unfold sideOf; cases f.hasSteps <;> cases g.hasSteps <;> simp

theorem c15b_sideOf_sideOK {s : Side} (f g : Stairs P) (hf : SideOK s f) (hg : SideOK s g)
    (h : f.hasSteps = true ∨ g.hasSteps = true) : sideOf f g = s := by
  unfold sideOf
  by_cases h1 : f.hasSteps = true
  · simp [h1, hf h1]
  · rcases h with h | h
    · exact absurd h h1
    · simp [h1, h, hg h]

/-! ## the invariant is preserved -/

theorem c15b_sideOK_map {s : Side} (u : Val → Val) (f : Stairs P) (hf : SideOK s f) : SideOK s (map u f) :=
  fun h => hf (c15b_hasSteps_map u f h)

theorem c15b_sideOK_shift [Add P] {s : Side} (f : Stairs P) (d : P) (hf : SideOK s f) : SideOK s (shift f d) :=
  fun h => hf (by rwa [c15b_hasSteps_shift] at h)

theorem c15b_sideOK_combine {s : Side} (op : Val → Val → Val) (f g : Stairs P) (hf : SideOK s f)
    (hg : SideOK s g) : SideOK s (combine op f g (sideOf f g)) :=
  fun h => c15b_sideOf_sideOK f g hf hg (c15b_hasSteps_combine op f g _ h)

/-- **the checked two-operand path under the invariant**: succeeds, and the result satisfies the invariant -/
theorem c15b_sideOK_combineChecked {s : Side} (op : Val → Val → Val) (f g : Stairs P) (hf : SideOK s f)
    (hg : SideOK s g) :
    combineChecked op f g = .ok (combine op f g (sideOf f g)) ∧ SideOK s (combine op f g (sideOf f g)) :=
  ⟨combineChecked_total op f g ((c15b_not_mismatch_iff f g).mpr ⟨s, hf, hg⟩), c15b_sideOK_combine op f g hf hg⟩

theorem c15b_closed_of_clip (f r : Stairs P) (lo hi : Option P) (h : clip f lo hi = .ok r) :
    r.closed = f.closed := by
  simp only [clip] at h
  split at h
  · injection h with h; subst h; rfl
  · cases h

theorem c15b_clip_error_only (f : Stairs P) (lo hi : Option P) (e : Err) (h : clip f lo hi = .error e) :
    e = .valueError ∧ boundsOk lo hi = false := by
  simp only [clip] at h
  split at h
  · cases h
  · injection h with h; exact ⟨h.symm, by simp_all⟩

/-- `clip(None, None)` keeps the invariant (a bounded clip does NOT: it gives a step-free function steps) -/
theorem c15b_sideOK_clip_none {s : Side} (f : Stairs P) (hf : SideOK s f) :
    SideOK s (combine whereOp f (indicator none none f.closed) f.closed) := by
  intro h
  rcases c15b_hasSteps_combine _ _ _ _ h with h | h
  · exact hf h
  · cases h

/-! ## `Except` plumbing -/

theorem c15b_bind_ok {α β : Type} {x : Except Err α} {f : α → Except Err β} {r : β}
    (h : x >>= f = .ok r) : ∃ a, x = .ok a ∧ f a = .ok r := by
  cases x with
  | error e => cases h
  | ok a => exact ⟨a, rfl, h⟩

theorem c15b_bind_error {α β : Type} {x : Except Err α} {f : α → Except Err β} {e : Err}
    (h : x >>= f = .error e) : x = .error e ∨ ∃ a, x = .ok a ∧ f a = .error e := by
  cases x with
  | error e' =>
    left
    have h' : (Except.error e' : Except Err β) = .error e := h
    injection h' with h'; rw [h']
  | ok a => right; exact ⟨a, rfl, h⟩

theorem c15b_mapM_error {α β : Type} (g : α → Except Err β) (l : List α) (e : Err)
    (h : l.mapM g = .error e) : ∃ a ∈ l, g a = .error e := by
  induction l with
  | nil => simp [List.mapM_nil, pure, Except.pure] at h
  | cons a r ih =>
    rw [List.mapM_cons] at h
    rcases c15b_bind_error h with h1 | ⟨b, _, h2⟩
    · exact ⟨a, by simp, h1⟩
    · rcases c15b_bind_error h2 with h3 | ⟨bs, _, h4⟩
      · obtain ⟨a', ha', hg⟩ := ih h3
        exact ⟨a', List.mem_cons_of_mem _ ha', hg⟩
      · cases h4

end Stairs
end SC
