import SCModel.Lemmas.Layer
import SCModel.Model.Forms
/-!
# SCModel.Lemmas.Forms — value form ↔ delta form

* column conversions: `cumsumSkip`, `diffSkip` are mutually inverse (as long as there is a defined value to
  start from)
* `reachedSum`: the sum of the step changes that have taken effect; the denotation of a NaN-free delta form
  is `initial value + reachedSum`
* how `mergeDeltas`, `removeRedundantDeltas`, `upsertDelta`, `groupSum` act on `reachedSum`, sortedness,
  definedness and absence of zero changes
-/
set_option linter.unusedSectionVars false
namespace SC

/-! ## bare columns -/

theorem diffSkip_length (last : Val) (vals : List Val) : (diffSkip last vals).length = vals.length := by
  induction vals generalizing last with
  | nil => rfl
  | cons v r ih => cases v <;> simp [diffSkip, ih]

theorem cumsumSkip_length (acc : Rat) (ds : List Val) : (cumsumSkip acc ds).length = ds.length := by
  induction ds generalizing acc with
  | nil => rfl
  | cons v r ih => cases v <;> simp [cumsumSkip, ih]

theorem deltasThread_length (last : Val) (vals : List Val) : (deltasThread last vals).length = vals.length := by
  induction vals generalizing last with
  | nil => rfl
  | cons v r ih => cases v <;> simp [deltasThread, ih]

theorem deltasFromVals_some (a : Rat) (vals : List Val) : deltasFromVals (some a) vals = diffSkip (some a) vals := by
  cases vals <;> rfl

theorem deltasFromVals_nil (init : Val) : deltasFromVals init [] = [] := by
  cases init <;> rfl

theorem deltasFromVals_none_some (v : Rat) (r : List Val) :
    deltasFromVals none (some v :: r) = some v :: diffSkip (some v) r := by
  simp [deltasFromVals, diffSkip]

theorem deltasFromVals_none_none (r : List Val) :
    deltasFromVals none (none :: r) = none :: diffSkip none r := by
  simp [deltasFromVals, diffSkip]

theorem deltasFromVals_length (init : Val) (vals : List Val) : (deltasFromVals init vals).length = vals.length := by
  cases init with
  | some a => rw [deltasFromVals_some, diffSkip_length]
  | none =>
    cases vals with
    | nil => rfl
    | cons v r => simp [deltasFromVals, diffSkip_length]

theorem cumsumSkip_shift (a b : Rat) (ds : List Val) :
    (cumsumSkip a ds).map (fun c => c.map (· + b)) = cumsumSkip (a + b) ds := by
  induction ds generalizing a with
  | nil => rfl
  | cons d r ih =>
    cases d with
    | none => simp [cumsumSkip, ih]
    | some d =>
      have h : a + d + b = a + b + d := by grind
      simp [cumsumSkip, ih, h]

/-- `cumsum() + base` is the running sum started at `base` -/
theorem valsFromDeltas_eq (init : Val) (ds : List Val) : valsFromDeltas init ds = cumsumSkip (baseOf init) ds := by
  unfold valsFromDeltas
  rw [cumsumSkip_shift, Rat.zero_add]

theorem valsFromDeltas_length (init : Val) (ds : List Val) : (valsFromDeltas init ds).length = ds.length := by
  rw [valsFromDeltas_eq, cumsumSkip_length]

theorem cumsumSkip_diffSkip (l : Rat) (vals : List Val) : cumsumSkip l (diffSkip (some l) vals) = vals := by
  induction vals generalizing l with
  | nil => rfl
  | cons v r ih =>
    cases v with
    | none => simp [diffSkip, cumsumSkip, ih]
    | some v =>
      have h : l + (v - l) = v := by grind
      simp [diffSkip, cumsumSkip, h, ih]

theorem diffSkip_cumsumSkip (l : Rat) (ds : List Val) : diffSkip (some l) (cumsumSkip l ds) = ds := by
  induction ds generalizing l with
  | nil => rfl
  | cons d r ih =>
    cases d with
    | none => simp [diffSkip, cumsumSkip, ih]
    | some d =>
      have h : l + d - l = d := by grind
      simp [diffSkip, cumsumSkip, h, ih]

/-- the round trip values → deltas → values, whenever the first row is not "NaN after a NaN initial value" -/
theorem valsFromDeltas_deltasFromVals (init : Val) (vals : List Val)
    (h : init = none → vals.head? ≠ some none) :
    valsFromDeltas init (deltasFromVals init vals) = vals := by
  rw [valsFromDeltas_eq]
  cases init with
  | some a => rw [deltasFromVals_some]; exact cumsumSkip_diffSkip a vals
  | none =>
    cases vals with
    | nil => rfl
    | cons v r =>
      cases v with
      | none => exact absurd rfl (h rfl)
      | some v =>
        rw [deltasFromVals_none_some]
        simp [baseOf, cumsumSkip, Rat.zero_add, cumsumSkip_diffSkip]

/-- the round trip deltas → values → deltas, under the same proviso -/
theorem deltasFromVals_valsFromDeltas (init : Val) (ds : List Val)
    (h : init = none → ds.head? ≠ some none) :
    deltasFromVals init (valsFromDeltas init ds) = ds := by
  rw [valsFromDeltas_eq]
  cases init with
  | some a => rw [deltasFromVals_some]; exact diffSkip_cumsumSkip a ds
  | none =>
    cases ds with
    | nil => rfl
    | cons d r =>
      cases d with
      | none => exact absurd rfl (h rfl)
      | some d =>
        simp [baseOf, cumsumSkip, Rat.zero_add, deltasFromVals_none_some, diffSkip_cumsumSkip]

theorem diffSkip_eq_thread (l : Rat) (vals : List Val) : diffSkip (some l) vals = deltasThread (some l) vals := by
  induction vals generalizing l with
  | nil => rfl
  | cons v r ih => cases v <;> simp [diffSkip, deltasThread, ih]

theorem deltasFromVals_eq_thread (init : Val) (vals : List Val)
    (h : init = none → vals.head? ≠ some none) : deltasFromVals init vals = deltasThread init vals := by
  cases init with
  | some a => rw [deltasFromVals_some, diffSkip_eq_thread]
  | none =>
    cases vals with
    | nil => rfl
    | cons v r =>
      cases v with
      | none => exact absurd rfl (h rfl)
      | some v => rw [deltasFromVals_none_some, diffSkip_eq_thread]; rfl

/-! ### everywhere-defined columns -/

theorem diffSkip_map_some (a : Rat) (vals : List Rat) :
    diffSkip (some a) (vals.map some) = (Stairs.changesFrom a vals).map some := by
  induction vals generalizing a with
  | nil => rfl
  | cons v r ih => simp [diffSkip, Stairs.changesFrom, ih]

theorem cumsumSkip_map_some (a : Rat) (ds : List Rat) :
    cumsumSkip a (ds.map some) = (Stairs.runningSum a ds).map some := by
  induction ds generalizing a with
  | nil => rfl
  | cons d r ih => simp [cumsumSkip, Stairs.runningSum, ih]

/-! ### which changes are zero / undefined -/

/-- the last defined value among `last, vals…` -/
def lastDef (last : Val) (vals : List Val) : Val := vals.foldl (fun a v => v.orElse fun _ => a) last

theorem lastDef_nil (last : Val) : lastDef last [] = last := rfl
theorem lastDef_cons_none (last : Val) (r : List Val) : lastDef last (none :: r) = lastDef last r := rfl
theorem lastDef_cons_some (last : Val) (v : Rat) (r : List Val) :
    lastDef last (some v :: r) = lastDef (some v) r := rfl

theorem diffSkip_head_zero_iff (last : Val) (v : Rat) :
    last.map (fun l => v - l) = some 0 ↔ last = some v := by
  cases last with
  | none => simp
  | some l =>
    simp only [Option.map_some, Option.some.injEq]
    constructor <;> intro h <;> grind

/-- **a change is `0` exactly when the value equals the previous defined value** -/
theorem diffSkip_zero_iff (last : Val) (vals : List Val) (i : Nat) :
    (diffSkip last vals)[i]? = some (some 0) ↔
      ∃ v, vals[i]? = some (some v) ∧ lastDef last (vals.take i) = some v := by
  induction vals generalizing last i with
  | nil => simp [diffSkip]
  | cons w r ih =>
    cases i with
    | zero =>
      cases w with
      | none => simp [diffSkip]
      | some w =>
        simp only [diffSkip, List.getElem?_cons_zero, Option.some.injEq, List.take_zero, lastDef_nil]
        rw [diffSkip_head_zero_iff]
        constructor
        · intro h; exact ⟨w, rfl, h⟩
        · rintro ⟨v, hv, hl⟩; rw [hl, hv]
    | succ i =>
      cases w with
      | none => simp only [diffSkip, List.getElem?_cons_succ, List.take_succ_cons, lastDef_cons_none]; exact ih last i
      | some w =>
        simp only [diffSkip, List.getElem?_cons_succ, List.take_succ_cons, lastDef_cons_some]; exact ih (some w) i

/-- **a change is undefined exactly when the value is** (given a defined value to start from) -/
theorem diffSkip_none_iff (l : Rat) (vals : List Val) (i : Nat) :
    (diffSkip (some l) vals)[i]? = some none ↔ vals[i]? = some none := by
  induction vals generalizing l i with
  | nil => simp [diffSkip]
  | cons w r ih =>
    cases i with
    | zero => cases w <;> simp [diffSkip]
    | succ i => cases w <;> simp [diffSkip, ih]

/-! ## rows -/
section rows
variable {P : Type}

theorem recolumn_nil (g : List Val → List Val) : recolumn ([] : List (P × Val)) g = [] := by
  simp [recolumn]

theorem map_fst_recolumn (s : List (P × Val)) (g : List Val → List Val)
    (h : (g (s.map Prod.snd)).length = s.length) : (recolumn s g).map Prod.fst = s.map Prod.fst := by
  unfold recolumn
  rw [List.map_fst_zip]; simp [h]

theorem map_snd_recolumn (s : List (P × Val)) (g : List Val → List Val)
    (h : (g (s.map Prod.snd)).length = s.length) : (recolumn s g).map Prod.snd = g (s.map Prod.snd) := by
  unfold recolumn
  rw [List.map_snd_zip]; simp [h]

theorem zip_fst_snd (s : List (P × Val)) : (s.map Prod.fst).zip (s.map Prod.snd) = s := by
  induction s with
  | nil => rfl
  | cons pv r ih => simp [ih]

theorem recolumn_recolumn (s : List (P × Val)) (g h : List Val → List Val)
    (hg : (g (s.map Prod.snd)).length = s.length) :
    recolumn (recolumn s g) h = (s.map Prod.fst).zip (h (g (s.map Prod.snd))) := by
  rw [recolumn, map_fst_recolumn s g hg, map_snd_recolumn s g hg]

theorem recolumn_diffSkip_cons_some (p : P) (v : Rat) (s : List (P × Val)) (last : Val) :
    recolumn ((p, some v) :: s) (diffSkip last) =
      (p, last.map (fun l => v - l)) :: recolumn s (diffSkip (some v)) := by
  simp [recolumn, diffSkip]

theorem recolumn_diffSkip_cons_none (p : P) (s : List (P × Val)) (last : Val) :
    recolumn ((p, none) :: s) (diffSkip last) = (p, none) :: recolumn s (diffSkip last) := by
  simp [recolumn, diffSkip]

theorem recolumn_cumsumSkip_cons_some (p : P) (d : Rat) (s : List (P × Val)) (acc : Rat) :
    recolumn ((p, some d) :: s) (cumsumSkip acc) = (p, some (acc + d)) :: recolumn s (cumsumSkip (acc + d)) := by
  simp [recolumn, cumsumSkip]

theorem recolumn_cumsumSkip_cons_none (p : P) (s : List (P × Val)) (acc : Rat) :
    recolumn ((p, none) :: s) (cumsumSkip acc) = (p, none) :: recolumn s (cumsumSkip acc) := by
  simp [recolumn, cumsumSkip]

/-- every entry of the column is defined -/
def AllDef (s : List (P × Val)) : Prop := ∀ pv ∈ s, pv.2 ≠ none
/-- no entry of the column is zero -/
def NoZero (s : List (P × Val)) : Prop := ∀ pv ∈ s, pv.2 ≠ some 0

theorem allDef_nil : AllDef ([] : List (P × Val)) := by intro pv h; cases h
theorem noZero_nil : NoZero ([] : List (P × Val)) := by intro pv h; cases h

theorem allDef_cons {p : P} {v : Val} {s : List (P × Val)} : AllDef ((p, v) :: s) ↔ v ≠ none ∧ AllDef s := by
  simp [AllDef]
theorem noZero_cons {p : P} {v : Val} {s : List (P × Val)} : NoZero ((p, v) :: s) ↔ v ≠ some 0 ∧ NoZero s := by
  simp [NoZero]

theorem allDef_of_all {s : List (P × Val)} (h : s.all (·.2.isSome) = true) : AllDef s := by
  intro pv hpv
  have := List.all_eq_true.mp h pv hpv
  intro hn; rw [hn] at this; cases this

/-- on a NaN-free column the delta-form removal is the value-form removal -/
theorem removeRedundantDeltasFrom_diffSkip (b : Bool) (l : Rat) (s : List (P × Val)) (hs : AllDef s) :
    removeRedundantDeltasFrom b (recolumn s (diffSkip (some l))) =
      recolumn (removeRedundant (some l) s) (diffSkip (some l)) := by
  induction s generalizing b l with
  | nil => simp [recolumn_nil, removeRedundant, removeRedundantDeltasFrom]
  | cons pv r ih =>
    obtain ⟨p, v⟩ := pv
    rw [allDef_cons] at hs
    cases v with
    | none => exact absurd rfl hs.1
    | some v =>
      rw [recolumn_diffSkip_cons_some]
      simp only [Option.map_some, removeRedundantDeltasFrom, removeRedundant]
      by_cases hv : v = l
      · subst hv
        have : v - v = 0 := by grind
        rw [if_pos this, if_pos rfl, ih _ _ hs.2]
      · have : v - l ≠ 0 := by grind
        rw [if_neg this, if_neg (by simpa using hv), recolumn_diffSkip_cons_some, ih _ _ hs.2]
        rfl

end rows

/-! ## the denotation of a NaN-free delta form -/
section den
variable {P : Type} [LinearOrder P]

/-- the sum of the step changes that have taken effect at `x` (undefined entries count 0) -/
def reachedSum (st : Bool) (x : P) : List (P × Val) → Rat
  | [] => 0
  | (p, d) :: r => (if reached st p x then d.getD 0 else 0) + reachedSum st x r

theorem reachedSum_nil (st : Bool) (x : P) : reachedSum st x ([] : List (P × Val)) = 0 := rfl
theorem reachedSum_cons (st : Bool) (x : P) (p : P) (d : Val) (r : List (P × Val)) :
    reachedSum st x ((p, d) :: r) = (if reached st p x then d.getD 0 else 0) + reachedSum st x r := rfl

theorem reachedSum_append (st : Bool) (x : P) (a b : List (P × Val)) :
    reachedSum st x (a ++ b) = reachedSum st x a + reachedSum st x b := by
  induction a with
  | nil => simp [reachedSum, Rat.zero_add]
  | cons pd r ih => obtain ⟨p, d⟩ := pd; simp only [List.cons_append, reachedSum_cons, ih]; grind

theorem reachedSum_eq_zero (st : Bool) (x : P) (s : List (P × Val))
    (h : ∀ q ∈ s.map Prod.fst, reached st q x = false) : reachedSum st x s = 0 := by
  induction s with
  | nil => rfl
  | cons pd r ih =>
    obtain ⟨p, d⟩ := pd
    rw [reachedSum_cons, h p (by simp), ih (fun q hq => h q (by simp only [List.map_cons, List.mem_cons]; exact Or.inr hq))]
    simp [Rat.add_zero]

/-- **value form of a NaN-free delta column**: start value plus the changes reached -/
theorem lim_cumsumSkip (st : Bool) (x : P) (ds : List (P × Val)) (acc : Rat) (hs : Sorted ds) (hd : AllDef ds) :
    lim st (some acc) (recolumn ds (cumsumSkip acc)) x = some (acc + reachedSum st x ds) := by
  induction ds generalizing acc with
  | nil => simp [recolumn_nil, reachedSum, Rat.add_zero]
  | cons pd r ih =>
    obtain ⟨p, d⟩ := pd
    rw [allDef_cons] at hd
    have hr := sorted_tail hs
    cases d with
    | none => exact absurd rfl hd.1
    | some d =>
      rw [recolumn_cumsumSkip_cons_some, lim_cons, reachedSum_cons]
      cases hc : reached st p x
      · have : reachedSum st x r = 0 :=
          reachedSum_eq_zero st x r (fun q hq => not_reached_of_lt (lt_of_not_reached hc (hr.2 q hq)))
        simp [this, Rat.add_zero]
      · rw [if_pos rfl, ih _ hr.1 hd.2]
        simp [Rat.add_assoc]

theorem map_fst_recolumn_cumsumSkip (ds : List (P × Val)) (acc : Rat) :
    (recolumn ds (cumsumSkip acc)).map Prod.fst = ds.map Prod.fst :=
  map_fst_recolumn ds _ (by rw [cumsumSkip_length, List.length_map])

theorem sorted_recolumn_cumsumSkip (ds : List (P × Val)) (acc : Rat) (hs : Sorted ds) :
    Sorted (recolumn ds (cumsumSkip acc)) := by
  unfold Sorted; rw [map_fst_recolumn_cumsumSkip]; exact hs

/-- no zero change ⇒ no repeated value -/
theorem minimal_recolumn_cumsumSkip (ds : List (P × Val)) (acc : Rat) (hd : AllDef ds) (hz : NoZero ds) :
    Minimal (some acc) (recolumn ds (cumsumSkip acc)) := by
  induction ds generalizing acc with
  | nil => simp [recolumn_nil, Minimal]
  | cons pd r ih =>
    obtain ⟨p, d⟩ := pd
    rw [allDef_cons] at hd
    rw [noZero_cons] at hz
    cases d with
    | none => exact absurd rfl hd.1
    | some d =>
      rw [recolumn_cumsumSkip_cons_some]
      refine ⟨?_, ih _ hd.2 hz.2⟩
      have : d ≠ 0 := fun h => hz.1 (by rw [h])
      intro h
      simp only [Option.some.injEq] at h
      grind

theorem allDef_recolumn_diffSkip (s : List (P × Val)) (l : Rat) (hs : AllDef s) :
    AllDef (recolumn s (diffSkip (some l))) := by
  induction s generalizing l with
  | nil => rw [recolumn_nil]; exact allDef_nil
  | cons pv r ih =>
    obtain ⟨p, v⟩ := pv
    rw [allDef_cons] at hs
    cases v with
    | none => exact absurd rfl hs.1
    | some v =>
      rw [recolumn_diffSkip_cons_some, allDef_cons]
      exact ⟨by simp, ih _ hs.2⟩

/-- a minimal NaN-free value column has no zero change -/
theorem noZero_recolumn_diffSkip (s : List (P × Val)) (l : Rat) (hs : AllDef s) (hm : Minimal (some l) s) :
    NoZero (recolumn s (diffSkip (some l))) := by
  induction s generalizing l with
  | nil => rw [recolumn_nil]; exact noZero_nil
  | cons pv r ih =>
    obtain ⟨p, v⟩ := pv
    rw [allDef_cons] at hs
    cases v with
    | none => exact absurd rfl hs.1
    | some v =>
      rw [recolumn_diffSkip_cons_some, noZero_cons]
      refine ⟨?_, ih _ hs.2 hm.2⟩
      rw [Ne, diffSkip_head_zero_iff]
      exact fun h => hm.1 h.symm

/-! ### `removeRedundantDeltas` -/

theorem removeRedundantDeltasFrom_sublist (b : Bool) (ds : List (P × Val)) :
    (removeRedundantDeltasFrom b ds).Sublist ds := by
  induction ds generalizing b with
  | nil => simp [removeRedundantDeltasFrom]
  | cons pd r ih =>
    obtain ⟨p, d⟩ := pd
    cases d with
    | none =>
      simp only [removeRedundantDeltasFrom]
      split
      · exact (ih _).cons _
      · exact (ih _).cons_cons _
    | some d =>
      simp only [removeRedundantDeltasFrom]
      split
      · exact (ih _).cons _
      · exact (ih _).cons_cons _

theorem sorted_of_sublist {s t : List (P × Val)} (h : s.Sublist t) (ht : Sorted t) : Sorted s :=
  List.Pairwise.sublist (h.map Prod.fst) ht

theorem allDef_of_sublist {s t : List (P × Val)} (h : s.Sublist t) (ht : AllDef t) : AllDef s :=
  fun pv hpv => ht pv (h.subset hpv)

theorem noZero_of_sublist {s t : List (P × Val)} (h : s.Sublist t) (ht : NoZero t) : NoZero s :=
  fun pv hpv => ht pv (h.subset hpv)

theorem sorted_removeRedundantDeltas (ds : List (P × Val)) (hs : Sorted ds) : Sorted (removeRedundantDeltas ds) :=
  sorted_of_sublist (removeRedundantDeltasFrom_sublist false ds) hs

theorem allDef_removeRedundantDeltas (ds : List (P × Val)) (hs : AllDef ds) : AllDef (removeRedundantDeltas ds) :=
  allDef_of_sublist (removeRedundantDeltasFrom_sublist false ds) hs

theorem noZero_removeRedundantDeltasFrom (b : Bool) (ds : List (P × Val)) : NoZero (removeRedundantDeltasFrom b ds) := by
  induction ds generalizing b with
  | nil => simp [removeRedundantDeltasFrom]; exact noZero_nil
  | cons pd r ih =>
    obtain ⟨p, d⟩ := pd
    cases d with
    | none =>
      simp only [removeRedundantDeltasFrom]
      split
      · exact ih _
      · rw [noZero_cons]; exact ⟨by simp, ih _⟩
    | some d =>
      simp only [removeRedundantDeltasFrom]
      split
      · exact ih _
      · rename_i h; rw [noZero_cons]; exact ⟨by simpa using h, ih _⟩

theorem noZero_removeRedundantDeltas (ds : List (P × Val)) : NoZero (removeRedundantDeltas ds) :=
  noZero_removeRedundantDeltasFrom false ds

/-- removing zero / repeated-NaN rows does not change the sum of the changes reached -/
theorem reachedSum_removeRedundantDeltasFrom (st : Bool) (x : P) (b : Bool) (ds : List (P × Val)) :
    reachedSum st x (removeRedundantDeltasFrom b ds) = reachedSum st x ds := by
  induction ds generalizing b with
  | nil => rfl
  | cons pd r ih =>
    obtain ⟨p, d⟩ := pd
    cases d with
    | none =>
      simp only [removeRedundantDeltasFrom]
      split
      · rw [ih, reachedSum_cons]; simp [Rat.zero_add]
      · rw [reachedSum_cons, reachedSum_cons, ih]
    | some d =>
      simp only [removeRedundantDeltasFrom]
      split
      · rename_i h; subst h; rw [ih, reachedSum_cons]; simp [Rat.zero_add]
      · rw [reachedSum_cons, reachedSum_cons, ih]

theorem reachedSum_removeRedundantDeltas (st : Bool) (x : P) (ds : List (P × Val)) :
    reachedSum st x (removeRedundantDeltas ds) = reachedSum st x ds :=
  reachedSum_removeRedundantDeltasFrom st x false ds

theorem removeRedundantDeltasFrom_of_noZero (b : Bool) (ds : List (P × Val)) (hd : AllDef ds) (hz : NoZero ds) :
    removeRedundantDeltasFrom b ds = ds := by
  induction ds generalizing b with
  | nil => rfl
  | cons pd r ih =>
    obtain ⟨p, d⟩ := pd
    rw [allDef_cons] at hd
    rw [noZero_cons] at hz
    cases d with
    | none => exact absurd rfl hd.1
    | some d =>
      have : d ≠ 0 := fun h => hz.1 (by rw [h])
      simp only [removeRedundantDeltasFrom, if_neg this, ih _ hd.2 hz.2]

/-! ### `mergeDeltas` -/

theorem vfill0_getD (op : Rat → Rat → Rat) (h0 : op 0 0 = 0) (a b : Val) :
    (vfill0 op a b).getD 0 = op (a.getD 0) (b.getD 0) := by
  cases a <;> cases b <;> simp [vfill0, h0]

theorem vfill0_ne_none_left (op : Rat → Rat → Rat) (a b : Val) (h : a ≠ none) : vfill0 op a b ≠ none := by
  cases a with
  | none => exact absurd rfl h
  | some a => cases b <;> simp [vfill0]

theorem vfill0_ne_none_right (op : Rat → Rat → Rat) (a b : Val) (h : b ≠ none) : vfill0 op a b ≠ none := by
  cases b with
  | none => exact absurd rfl h
  | some b => cases a <;> simp [vfill0]

theorem map_fst_mergeDeltas (op : Rat → Rat → Rat) (xs ys : List (P × Val)) :
    (mergeDeltas op xs ys).map Prod.fst = unionIdx (xs.map Prod.fst) (ys.map Prod.fst) := by
  fun_induction mergeDeltas op xs ys with
  | case1 ys => simp [unionIdx, List.map_map, Function.comp_def]
  | case2 xs h =>
    cases xs with
    | nil => exact absurd rfl h
    | cons a r => simp [unionIdx, List.map_map, Function.comp_def]
  | case3 p v xs q w ys hpq ih => simp [unionIdx, hpq, ih]
  | case4 p v xs q w ys hpq hqp ih => simp [unionIdx, hpq, hqp, ih]
  | case5 p v xs q w ys hpq hqp ih => simp [unionIdx, hpq, hqp, ih]

theorem sorted_mergeDeltas (op : Rat → Rat → Rat) (xs ys : List (P × Val)) (hx : Sorted xs) (hy : Sorted ys) :
    Sorted (mergeDeltas op xs ys) := by
  unfold Sorted; rw [map_fst_mergeDeltas]; exact pairwise_unionIdx _ _ hx hy

theorem allDef_mergeDeltas (op : Rat → Rat → Rat) (xs ys : List (P × Val)) (hx : AllDef xs) (hy : AllDef ys) :
    AllDef (mergeDeltas op xs ys) := by
  fun_induction mergeDeltas op xs ys with
  | case1 ys =>
    intro pv hpv
    obtain ⟨qw, hqw, rfl⟩ := List.mem_map.mp hpv
    exact vfill0_ne_none_right op _ _ (hy qw hqw)
  | case2 xs h =>
    intro pv hpv
    obtain ⟨qw, hqw, rfl⟩ := List.mem_map.mp hpv
    exact vfill0_ne_none_left op _ _ (hx qw hqw)
  | case3 p v xs q w ys hpq ih =>
    rw [allDef_cons] at hx
    rw [allDef_cons]; exact ⟨vfill0_ne_none_left op _ _ hx.1, ih hx.2 hy⟩
  | case4 p v xs q w ys hpq hqp ih =>
    rw [allDef_cons] at hy
    rw [allDef_cons]; exact ⟨vfill0_ne_none_right op _ _ hy.1, ih hx hy.2⟩
  | case5 p v xs q w ys hpq hqp ih =>
    rw [allDef_cons] at hx hy
    rw [allDef_cons]; exact ⟨vfill0_ne_none_left op _ _ hx.1, ih hx.2 hy.2⟩

/-- an operator that is additive in both arguments jointly (`+`, `-`) -/
structure Additive2 (op : Rat → Rat → Rat) : Prop where
  zero : op 0 0 = 0
  add : ∀ a b c d, op (a + b) (c + d) = op a c + op b d

theorem additive2_add : Additive2 (· + ·) := ⟨by grind, by intros; grind⟩
theorem additive2_sub : Additive2 (· - ·) := ⟨by grind, by intros; grind⟩

theorem reachedSum_mergeDeltas (op : Rat → Rat → Rat) (hop : Additive2 op) (st : Bool) (x : P)
    (xs ys : List (P × Val)) :
    reachedSum st x (mergeDeltas op xs ys) = op (reachedSum st x xs) (reachedSum st x ys) := by
  have hite : ∀ (c : Bool) (a b : Val), (if c then (vfill0 op a b).getD 0 else 0) =
      op (if c then a.getD 0 else 0) (if c then b.getD 0 else 0) := by
    intro c a b; cases c
    · simp [hop.zero]
    · simp [vfill0_getD op hop.zero]
  fun_induction mergeDeltas op xs ys with
  | case1 ys =>
    induction ys with
    | nil => simp [reachedSum, hop.zero]
    | cons qw r ih =>
      obtain ⟨q, w⟩ := qw
      simp only [List.map_cons, reachedSum_cons, reachedSum_nil] at ih ⊢
      rw [ih, hite, ← hop.add]
      simp [Rat.add_zero]
  | case2 xs h =>
    clear h
    induction xs with
    | nil => simp [reachedSum, hop.zero]
    | cons qw r ih =>
      obtain ⟨q, w⟩ := qw
      simp only [List.map_cons, reachedSum_cons, reachedSum_nil] at ih ⊢
      rw [ih, hite, ← hop.add]
      simp [Rat.add_zero]
  | case3 p v xs q w ys hpq ih =>
    rw [reachedSum_cons, ih, hite, ← hop.add, reachedSum_cons st x p]
    simp [Rat.zero_add]
  | case4 p v xs q w ys hpq hqp ih =>
    rw [reachedSum_cons, ih, hite, ← hop.add, reachedSum_cons st x q w]
    simp [Rat.zero_add]
  | case5 p v xs q w ys hpq hqp ih =>
    have : p = q := le_antisymm (not_lt.mp hqp) (not_lt.mp hpq)
    subst this
    rw [reachedSum_cons, ih, hite, ← hop.add, reachedSum_cons st x p v, reachedSum_cons st x p w]


/-! ### `upsertDelta` (scalar layer) -/

theorem mem_fst_upsertDelta (p : P) (v : Rat) (ds : List (P × Val)) :
    ∀ q ∈ (upsertDelta p v ds).map Prod.fst, q = p ∨ q ∈ ds.map Prod.fst := by
  induction ds with
  | nil => intro q hq; unfold upsertDelta at hq; split at hq <;> simp_all
  | cons qw r ih =>
    obtain ⟨q', w⟩ := qw
    intro q hq
    unfold upsertDelta at hq
    split at hq
    · split at hq
      · exact Or.inr hq
      · simp only [List.map_cons, List.mem_cons] at hq ⊢; tauto
    · split at hq
      · simp only [List.map_cons, List.mem_cons] at hq ⊢
        rcases hq with h | h
        · exact Or.inr (Or.inl h)
        · rcases ih q h with h | h
          · exact Or.inl h
          · exact Or.inr (Or.inr h)
      · simp only at hq
        split at hq
        · exact Or.inr (by simp only [List.map_cons, List.mem_cons]; exact Or.inr hq)
        · exact Or.inr (by simpa using hq)

theorem sorted_upsertDelta (p : P) (v : Rat) (ds : List (P × Val)) (hs : Sorted ds) :
    Sorted (upsertDelta p v ds) := by
  induction ds with
  | nil => unfold upsertDelta; split <;> simp [Sorted]
  | cons qw r ih =>
    obtain ⟨q, w⟩ := qw
    have hr := sorted_tail hs
    unfold upsertDelta
    split
    · rename_i hpq
      split
      · exact hs
      · refine sorted_cons hs ?_
        intro z hz
        simp only [List.map_cons, List.mem_cons] at hz
        rcases hz with h | h
        · rw [h]; exact hpq
        · exact lt_trans hpq (hr.2 z h)
    · split
      · rename_i hqp
        refine sorted_cons (ih hr.1) ?_
        intro z hz
        rcases mem_fst_upsertDelta p v r z hz with h | h
        · rw [h]; exact hqp
        · exact hr.2 z h
      · simp only
        split
        · exact hr.1
        · exact sorted_cons hr.1 hr.2

theorem allDef_upsertDelta (p : P) (v : Rat) (ds : List (P × Val)) (hd : AllDef ds) :
    AllDef (upsertDelta p v ds) := by
  induction ds with
  | nil => unfold upsertDelta; split <;> simp [AllDef]
  | cons qw r ih =>
    obtain ⟨q, w⟩ := qw
    rw [allDef_cons] at hd
    unfold upsertDelta
    split
    · split
      · exact allDef_cons.mpr hd
      · exact allDef_cons.mpr ⟨by simp, allDef_cons.mpr hd⟩
    · split
      · exact allDef_cons.mpr ⟨hd.1, ih hd.2⟩
      · simp only
        split
        · exact hd.2
        · refine allDef_cons.mpr ⟨?_, hd.2⟩
          cases w with
          | none => exact absurd rfl hd.1
          | some w => simp [vadd, vlift2]

theorem noZero_upsertDelta (p : P) (v : Rat) (ds : List (P × Val)) (hz : NoZero ds) :
    NoZero (upsertDelta p v ds) := by
  induction ds with
  | nil =>
    unfold upsertDelta; split
    · exact noZero_nil
    · rename_i h; exact noZero_cons.mpr ⟨by simpa using h, noZero_nil⟩
  | cons qw r ih =>
    obtain ⟨q, w⟩ := qw
    rw [noZero_cons] at hz
    unfold upsertDelta
    split
    · split
      · exact noZero_cons.mpr hz
      · rename_i h; exact noZero_cons.mpr ⟨by simpa using h, noZero_cons.mpr hz⟩
    · split
      · exact noZero_cons.mpr ⟨hz.1, ih hz.2⟩
      · simp only
        split
        · exact hz.2
        · rename_i h; exact noZero_cons.mpr ⟨h, hz.2⟩

theorem reachedSum_upsertDelta (st : Bool) (x : P) (p : P) (v : Rat) (ds : List (P × Val)) (hd : AllDef ds) :
    reachedSum st x (upsertDelta p v ds) = reachedSum st x ds + (if reached st p x then v else 0) := by
  induction ds with
  | nil =>
    unfold upsertDelta; split
    · rename_i h; subst h; simp [reachedSum, Rat.add_zero]
    · simp [reachedSum, Rat.add_zero, Rat.zero_add]
  | cons qw r ih =>
    obtain ⟨q, w⟩ := qw
    rw [allDef_cons] at hd
    unfold upsertDelta
    split
    · split
      · rename_i h; subst h; simp [Rat.add_zero]
      · rw [reachedSum_cons st x p]; simp only [Option.getD_some]; grind
    · split
      · rw [reachedSum_cons, reachedSum_cons, ih hd.2]; grind
      · rename_i hpq hqp
        have : p = q := le_antisymm (not_lt.mp hqp) (not_lt.mp hpq)
        subst this
        cases w with
        | none => exact absurd rfl hd.1
        | some w =>
          simp only [vadd, vlift2, Option.some.injEq]
          split
          · rename_i h
            rw [reachedSum_cons]; simp only [Option.getD_some]
            split <;> grind
          · rw [reachedSum_cons, reachedSum_cons]; simp only [Option.getD_some]
            split <;> grind

/-- an entry that cancels exactly disappears from the index -/
theorem upsertDelta_cancel (p : P) (v : Rat) (ds : List (P × Val)) (hs : Sorted ds)
    (hmem : (p, some (-v)) ∈ ds) : p ∉ (upsertDelta p v ds).map Prod.fst := by
  induction ds with
  | nil => cases hmem
  | cons qw r ih =>
    obtain ⟨q, w⟩ := qw
    have hr := sorted_tail hs
    have hfst : ∀ {z : P} {u : Val}, (z, u) ∈ r → q < z :=
      fun h => hr.2 _ (List.mem_map_of_mem (f := Prod.fst) h)
    unfold upsertDelta
    rcases List.mem_cons.mp hmem with h | h
    · simp only [Prod.mk.injEq] at h
      obtain ⟨rfl, rfl⟩ := h
      have h0 : vadd (some (-v)) (some v) = some 0 := by
        simp only [vadd, vlift2, Option.some.injEq]; grind
      rw [if_neg (lt_irrefl _), if_neg (lt_irrefl _)]
      simp only [h0, if_true]
      intro hp
      exact lt_irrefl _ (hr.2 p hp)
    · have hqp : q < p := hfst h
      rw [if_neg (not_lt_of_gt hqp), if_pos hqp]
      simp only [List.map_cons, List.mem_cons, not_or]
      exact ⟨ne_of_gt hqp, ih hr.1 h⟩

/-- an absent point gets the new change (when non-zero) -/
theorem upsertDelta_insert (p : P) (v : Rat) (ds : List (P × Val)) (hv : v ≠ 0)
    (hp : p ∉ ds.map Prod.fst) : (p, some v) ∈ upsertDelta p v ds := by
  induction ds with
  | nil => unfold upsertDelta; simp [hv]
  | cons qw r ih =>
    obtain ⟨q, w⟩ := qw
    simp only [List.map_cons, List.mem_cons, not_or] at hp
    unfold upsertDelta
    split
    · simp
    · split
      · exact List.mem_cons_of_mem _ (ih hp.2)
      · rename_i hpq hqp
        exact absurd (le_antisymm (not_lt.mp hqp) (not_lt.mp hpq)) hp.1

/-! ### `groupSum` (vector layer) -/

theorem mem_fst_groupInsert (p : P) (d : Val) (acc : List (P × Val)) :
    ∀ q ∈ (groupInsert p d acc).map Prod.fst, q = p ∨ q ∈ acc.map Prod.fst := by
  induction acc with
  | nil => intro q hq; simpa [groupInsert] using hq
  | cons qw r ih =>
    obtain ⟨q', w⟩ := qw
    intro q hq
    unfold groupInsert at hq
    split at hq
    · simp only [List.map_cons, List.mem_cons] at hq ⊢; tauto
    · split at hq
      · simp only [List.map_cons, List.mem_cons] at hq ⊢
        rcases hq with h | h
        · exact Or.inr (Or.inl h)
        · rcases ih q h with h | h
          · exact Or.inl h
          · exact Or.inr (Or.inr h)
      · exact Or.inr (by simpa using hq)

theorem sorted_groupInsert (p : P) (d : Val) (acc : List (P × Val)) (hs : Sorted acc) :
    Sorted (groupInsert p d acc) := by
  induction acc with
  | nil => simp [groupInsert, Sorted]
  | cons qw r ih =>
    obtain ⟨q, w⟩ := qw
    have hr := sorted_tail hs
    unfold groupInsert
    split
    · rename_i hpq
      refine sorted_cons hs ?_
      intro z hz
      simp only [List.map_cons, List.mem_cons] at hz
      rcases hz with h | h
      · rw [h]; exact hpq
      · exact lt_trans hpq (hr.2 z h)
    · split
      · rename_i hqp
        refine sorted_cons (ih hr.1) ?_
        intro z hz
        rcases mem_fst_groupInsert p d r z hz with h | h
        · rw [h]; exact hqp
        · exact hr.2 z h
      · exact sorted_cons hr.1 hr.2

theorem allDef_groupInsert (p : P) (d : Val) (acc : List (P × Val)) (hd : AllDef acc) :
    AllDef (groupInsert p d acc) := by
  induction acc with
  | nil => simp [groupInsert, AllDef]
  | cons qw r ih =>
    obtain ⟨q, w⟩ := qw
    rw [allDef_cons] at hd
    unfold groupInsert
    split
    · exact allDef_cons.mpr ⟨by simp, allDef_cons.mpr hd⟩
    · split
      · exact allDef_cons.mpr ⟨hd.1, ih hd.2⟩
      · exact allDef_cons.mpr ⟨by simp, hd.2⟩

theorem reachedSum_groupInsert (st : Bool) (x : P) (p : P) (d : Val) (acc : List (P × Val)) :
    reachedSum st x (groupInsert p d acc) = reachedSum st x acc + (if reached st p x then d.getD 0 else 0) := by
  induction acc with
  | nil => simp [groupInsert, reachedSum, Rat.add_zero, Rat.zero_add]
  | cons qw r ih =>
    obtain ⟨q, w⟩ := qw
    unfold groupInsert
    split
    · rw [reachedSum_cons st x p]; simp only [Option.getD_some]; grind
    · split
      · rw [reachedSum_cons, reachedSum_cons, ih]; grind
      · rename_i hpq hqp
        have : p = q := le_antisymm (not_lt.mp hqp) (not_lt.mp hpq)
        subst this
        rw [reachedSum_cons, reachedSum_cons]; simp only [Option.getD_some]
        split <;> grind

theorem groupSum_foldl (acc l : List (P × Val)) (hs : Sorted acc) (hd : AllDef acc) :
    Sorted (l.foldl (fun acc pd => groupInsert pd.1 pd.2 acc) acc) ∧
    AllDef (l.foldl (fun acc pd => groupInsert pd.1 pd.2 acc) acc) ∧
    ∀ st x, reachedSum st x (l.foldl (fun acc pd => groupInsert pd.1 pd.2 acc) acc)
      = reachedSum st x acc + reachedSum st x l := by
  induction l generalizing acc with
  | nil => exact ⟨hs, hd, fun st x => by simp [reachedSum, Rat.add_zero]⟩
  | cons pd r ih =>
    obtain ⟨p, d⟩ := pd
    obtain ⟨h1, h2, h3⟩ := ih (groupInsert p d acc) (sorted_groupInsert p d acc hs) (allDef_groupInsert p d acc hd)
    refine ⟨h1, h2, fun st x => ?_⟩
    rw [List.foldl_cons, h3, reachedSum_groupInsert, reachedSum_cons]; grind

theorem sorted_groupSum (l : List (P × Val)) : Sorted (groupSum l) := (groupSum_foldl [] l sorted_nil allDef_nil).1
theorem allDef_groupSum (l : List (P × Val)) : AllDef (groupSum l) := (groupSum_foldl [] l sorted_nil allDef_nil).2.1
theorem reachedSum_groupSum (st : Bool) (x : P) (l : List (P × Val)) :
    reachedSum st x (groupSum l) = reachedSum st x l := by
  rw [groupSum, (groupSum_foldl [] l sorted_nil allDef_nil).2.2]; simp [reachedSum, Rat.zero_add]

/-- what the concatenated start / end entries and the initial-value bump add up to -/
theorem reachedSum_entries (st : Bool) (x : P) (ts : List (Stairs.Triple P)) :
    missingStartSum ts + reachedSum st x (startEntries ts) + reachedSum st x (stopEntries ts)
      = (ts.map (Stairs.contribution · st x)).sum := by
  induction ts with
  | nil => simp [missingStartSum, startEntries, stopEntries, reachedSum, Rat.add_zero]
  | cons t r ih =>
    obtain ⟨s, e, v⟩ := t
    simp only [List.map_cons, List.sum_cons, ← ih]
    cases s <;> cases e <;>
      simp [missingStartSum, startEntries, stopEntries, reachedSum_cons, Stairs.contribution,
        Stairs.startReached, Stairs.stopReached] <;> grind

/-! ## the two forms of a `Stairs` -/

namespace DStairs

/-- a NaN-free, well-formed delta form -/
def Good (d : DStairs P) : Prop := d.init ≠ none ∧ Sorted d.deltas ∧ AllDef d.deltas

theorem stepValues_eq (d : DStairs P) : d.stepValues = recolumn d.deltas (cumsumSkip (baseOf d.init)) := by
  unfold stepValues recolumn; rw [valsFromDeltas_eq]

theorem map_fst_stepValues (d : DStairs P) : d.stepValues.map Prod.fst = d.deltas.map Prod.fst := by
  rw [stepValues_eq, map_fst_recolumn_cumsumSkip]

theorem wf_toValueForm (d : DStairs P) (hs : Sorted d.deltas) : d.toValueForm.WF := by
  unfold Stairs.WF Sorted toValueForm; rw [map_fst_stepValues]; exact hs

/-- **the function a NaN-free delta form denotes**: initial value plus the changes that have taken effect -/
theorem den_toValueForm (d : DStairs P) (hd : d.Good) (st : Bool) (x : P) :
    Stairs.Den d.toValueForm st x = some (baseOf d.init + reachedSum st x d.deltas) := by
  obtain ⟨hi, hs, ha⟩ := hd
  unfold Stairs.Den toValueForm
  simp only [stepValues_eq]
  cases h : d.init with
  | none => exact absurd h hi
  | some a => exact lim_cumsumSkip st x d.deltas a hs ha

theorem minimal_toValueForm (d : DStairs P) (hd : d.Good) (hz : NoZero d.deltas) : d.toValueForm.IsMinimal := by
  obtain ⟨hi, hs, ha⟩ := hd
  unfold Stairs.IsMinimal toValueForm
  simp only [stepValues_eq]
  cases h : d.init with
  | none => exact absurd h hi
  | some a => exact minimal_recolumn_cumsumSkip d.deltas a ha hz

theorem canonical_toValueForm (d : DStairs P) (hd : d.Good) (hz : NoZero d.deltas) : d.toValueForm.Canonical :=
  ⟨wf_toValueForm d hd.2.1, minimal_toValueForm d hd hz⟩

theorem good_removeRedundant (d : DStairs P) (hd : d.Good) : d.removeRedundant.Good :=
  ⟨hd.1, sorted_removeRedundantDeltas _ hd.2.1, allDef_removeRedundantDeltas _ hd.2.2⟩

end DStairs

namespace Stairs

theorem stepChanges_eq (f : Stairs P) (a : Rat) (h : f.init = some a) :
    stepChanges f = recolumn f.steps (diffSkip (some a)) := by
  unfold stepChanges recolumn; rw [h, deltasFromVals_some]

theorem map_fst_stepChanges (f : Stairs P) : (stepChanges f).map Prod.fst = f.steps.map Prod.fst :=
  map_fst_recolumn f.steps _ (by rw [deltasFromVals_length, List.length_map])

theorem noNa_iff (f : Stairs P) : f.noNa = true ↔ f.init ≠ none ∧ AllDef f.steps := by
  unfold noNa AllDef
  simp only [Bool.and_eq_true, List.all_eq_true, Option.isSome_iff_ne_none]

theorem good_toDeltaForm (f : Stairs P) (hn : f.noNa = true) (hf : f.WF) : (toDeltaForm f).Good := by
  rw [noNa_iff] at hn
  refine ⟨hn.1, ?_, ?_⟩
  · unfold Sorted toDeltaForm; rw [map_fst_stepChanges]; exact hf
  · cases h : f.init with
    | none => exact absurd h hn.1
    | some a =>
      show AllDef (stepChanges f)
      rw [stepChanges_eq f a h]; exact allDef_recolumn_diffSkip f.steps a hn.2

/-- the proviso of the round trip: not "NaN after a NaN initial value" in the first row -/
def HeadOk (init : Val) (col : List (P × Val)) : Prop := init = none → (col.map Prod.snd).head? ≠ some none

theorem headOk_of_minimal (init : Val) (s : List (P × Val)) (h : Minimal init s) : HeadOk init s := by
  intro hi
  cases s with
  | nil => simp
  | cons pv r => obtain ⟨p, v⟩ := pv; subst hi; simpa using h.1

theorem headOk_of_some (init : Val) (s : List (P × Val)) (h : init ≠ none) : HeadOk init s :=
  fun hi => absurd hi h

/-- **values → deltas → values is the identity** -/
theorem toValueForm_toDeltaForm (f : Stairs P) (h : HeadOk f.init f.steps) : (toDeltaForm f).toValueForm = f := by
  have : (toDeltaForm f).stepValues = f.steps := by
    show recolumn (recolumn f.steps (deltasFromVals f.init)) (valsFromDeltas f.init) = f.steps
    rw [recolumn_recolumn _ _ _ (by rw [deltasFromVals_length, List.length_map]),
      valsFromDeltas_deltasFromVals _ _ h, zip_fst_snd]
  show (⟨f.init, (toDeltaForm f).stepValues, f.closed⟩ : Stairs P) = f
  rw [this]

end Stairs

/-- **deltas → values → deltas is the identity** -/
theorem DStairs.toDeltaForm_toValueForm (d : DStairs P) (h : Stairs.HeadOk d.init d.deltas) :
    d.toValueForm.toDeltaForm = d := by
  have : Stairs.stepChanges d.toValueForm = d.deltas := by
    show recolumn (recolumn d.deltas (valsFromDeltas d.init)) (deltasFromVals d.init) = d.deltas
    rw [recolumn_recolumn _ _ _ (by rw [valsFromDeltas_length, List.length_map]),
      deltasFromVals_valsFromDeltas _ _ h, zip_fst_snd]
  show (⟨d.init, Stairs.stepChanges d.toValueForm, d.closed⟩ : DStairs P) = d
  rw [this]

end den
end SC
