import SCModel.Lemmas.Layer
import SCModel.Lemmas.Pointwise
import SCModel.Lemmas.Forms
import SCModel.Lemmas.Stats
import Mathlib.Algebra.Order.Ring.Rat
import Mathlib.Tactic.Linarith
/-!
# SCModel.Lemmas.Layer2b — helper lemmas behind `Props/C02b` (further laws of layering)

* algebra of `contribution` / `contributions` (value linearity, interval splitting, reversal, sign)
* "same total contribution ⇒ same function ⇒ (canonical results) same object"
* `noNa` is preserved by `combine vadd` / `layer`
* the limit of an everywhere-defined step list is its initial value plus the reached jumps
-/
set_option linter.unusedSectionVars false
namespace SC
namespace Stairs
variable {P : Type} [LinearOrder P]

/-- decidable equality of triples (the model only derives `Repr`); needed for `decide` on triple lists -/
instance l2b_decEqTriple [DecidableEq P] : DecidableEq (Triple P)
  | ⟨s, e, v⟩, ⟨s', e', v'⟩ =>
    if h : s = s' ∧ e = e' ∧ v = v' then isTrue (by obtain ⟨h1, h2, h3⟩ := h; subst h1 h2 h3; rfl)
    else isFalse (fun h' => h (by cases h'; exact ⟨rfl, rfl, rfl⟩))

/-! ## sums of contributions -/

theorem l2b_den_layer (f : Stairs P) (ts : List (Triple P)) (hf : f.WF) (st : Bool) (x : P) :
    Den (layer f ts) st x = (Den f st x).map (· + contributions ts st x) := den_layer f ts hf st x

theorem l2b_contributions_append (ts us : List (Triple P)) (st : Bool) (x : P) :
    contributions (ts ++ us) st x = contributions ts st x + contributions us st x := by
  simp [contributions, List.sum_append]

theorem l2b_contributions_single (t : Triple P) (st : Bool) (x : P) :
    contributions [t] st x = contribution t st x := by
  simp [contributions]

theorem l2b_contributions_pair (t u : Triple P) (st : Bool) (x : P) :
    contributions [t, u] st x = contribution t st x + contribution u st x := by
  simp [contributions]

/-- same total contribution at a point ⇒ same value at that point -/
theorem l2b_den_layer_congr (f : Stairs P) (ts us : List (Triple P)) (hf : f.WF) (st : Bool) (x : P)
    (h : contributions ts st x = contributions us st x) :
    Den (layer f ts) st x = Den (layer f us) st x := by
  rw [l2b_den_layer f ts hf, l2b_den_layer f us hf, h]

/-- zero total contribution at a point ⇒ value unchanged at that point -/
theorem l2b_den_layer_zero (f : Stairs P) (ts : List (Triple P)) (hf : f.WF) (st : Bool) (x : P)
    (h : contributions ts st x = 0) : Den (layer f ts) st x = Den f st x := by
  rw [l2b_den_layer f ts hf, h]
  cases Den f st x <;> simp

/-- same total contributions everywhere ⇒ the very same object (both results are canonical as soon as
something is layered) -/
theorem l2b_layer_congr [NoMinOrder P] [Nonempty P] (f : Stairs P) (ts us : List (Triple P)) (hf : f.WF)
    (hts : ts ≠ []) (hus : us ≠ []) (h : ∀ x, contributions ts false x = contributions us false x) :
    layer f ts = layer f us :=
  canonical_ext _ _ (canonical_layer f ts hf hts) (canonical_layer f us hf hus)
    (by rw [closed_layer, closed_layer]) (fun x => l2b_den_layer_congr f ts us hf false x (h x))

theorem l2b_layer_congr_canonical [NoMinOrder P] [Nonempty P] (f : Stairs P) (ts us : List (Triple P))
    (hf : f.Canonical) (h : ∀ x, contributions ts false x = contributions us false x) :
    layer f ts = layer f us :=
  canonical_ext _ _ (canonical_layer_of_canonical f ts hf) (canonical_layer_of_canonical f us hf)
    (by rw [closed_layer, closed_layer]) (fun x => l2b_den_layer_congr f ts us hf.1 false x (h x))

/-- zero total contribution everywhere ⇒ a canonical receiver is returned unchanged -/
theorem l2b_layer_eq_self [NoMinOrder P] [Nonempty P] (f : Stairs P) (ts : List (Triple P))
    (hf : f.Canonical) (h : ∀ x, contributions ts false x = 0) : layer f ts = f :=
  l2b_layer_congr_canonical f ts [] hf (fun x => by rw [h x]; rfl)

/-- … and a merely well-formed receiver is canonicalised -/
theorem l2b_layer_eq_canon [NoMinOrder P] [Nonempty P] (f : Stairs P) (ts : List (Triple P))
    (hf : f.WF) (hts : ts ≠ []) (h : ∀ x, contributions ts false x = 0) : layer f ts = f.canon :=
  canonical_ext _ _ (canonical_layer f ts hf hts) (canonical_canon f hf) (closed_layer f ts)
    (fun x => by rw [l2b_den_layer_zero f ts hf false x (h x), den_canon f hf])

/-! ## algebra of a single contribution -/

theorem l2b_contribution_add_value (s e : Option P) (v w : Rat) (st : Bool) (x : P) :
    contribution ⟨s, e, v + w⟩ st x = contribution ⟨s, e, v⟩ st x + contribution ⟨s, e, w⟩ st x := by
  simp only [contribution]
  split_ifs <;> grind

theorem l2b_contribution_scale (k : Rat) (s e : Option P) (v : Rat) (st : Bool) (x : P) :
    contribution ⟨s, e, k * v⟩ st x = k * contribution ⟨s, e, v⟩ st x := by
  simp only [contribution]
  split_ifs <;> grind

theorem l2b_contribution_zero (s e : Option P) (st : Bool) (x : P) :
    contribution ⟨s, e, 0⟩ st x = 0 := by
  simp only [contribution]
  split_ifs <;> grind

theorem l2b_contribution_neg_value (s e : Option P) (v : Rat) (st : Bool) (x : P) :
    contribution ⟨s, e, -v⟩ st x = -contribution ⟨s, e, v⟩ st x := by
  simp only [contribution]
  split_ifs <;> grind

/-- cut at ANY point `m` (no order hypothesis is needed) -/
theorem l2b_contribution_split (s e : Option P) (m : P) (v : Rat) (st : Bool) (x : P) :
    contribution ⟨s, e, v⟩ st x
      = contribution ⟨s, some m, v⟩ st x + contribution ⟨some m, e, v⟩ st x := by
  simp only [contribution, startReached_some, stopReached_some]
  split_ifs <;> grind

/-- an interval is a ray up minus a ray down -/
theorem l2b_contribution_rays (s : Option P) (e : P) (v : Rat) (st : Bool) (x : P) :
    contribution ⟨s, some e, v⟩ st x
      = contribution ⟨s, none, v⟩ st x + contribution ⟨some e, none, -v⟩ st x := by
  simp only [contribution, startReached_some, stopReached_some, stopReached_none]
  split_ifs <;> grind

/-- swapping the endpoints flips the sign -/
theorem l2b_contribution_swap (s e : P) (v : Rat) (st : Bool) (x : P) :
    contribution ⟨some e, some s, v⟩ st x = contribution ⟨some s, some e, -v⟩ st x := by
  simp only [contribution, startReached_some, stopReached_some]
  split_ifs <;> grind

/-- a triple runs forward: missing start, missing end, or `start ≤ end` -/
def Forward (t : Triple P) : Prop :=
  match t.start, t.stop with
  | some s, some e => s ≤ e
  | _, _ => True

instance (t : Triple P) : Decidable (Forward t) := by
  unfold Forward; split <;> infer_instance

theorem l2b_reached_of_le {st : Bool} {p q x : P} (hpq : p ≤ q) (h : reached st q x = true) :
    reached st p x = true := by
  rcases lt_or_eq_of_le hpq with h' | h'
  · exact reached_mono h' h
  · rw [h']; exact h

/-- for a forward triple the end is reached only after the start -/
theorem l2b_start_of_stop (t : Triple P) (ht : Forward t) (st : Bool) (x : P)
    (h : stopReached t.stop st x = true) : startReached t.start st x = true := by
  obtain ⟨s, e, v⟩ := t
  cases s with
  | none => rfl
  | some s =>
    cases e with
    | none => simp [stopReached] at h
    | some e => exact l2b_reached_of_le ht h

theorem l2b_contribution_nonneg (t : Triple P) (ht : Forward t) (hv : 0 ≤ t.value) (st : Bool) (x : P) :
    0 ≤ contribution t st x := by
  unfold contribution
  by_cases h2 : stopReached t.stop st x = true
  · rw [if_pos h2, if_pos (l2b_start_of_stop t ht st x h2)]; linarith
  · rw [if_neg h2]; split <;> linarith

theorem l2b_contributions_nonneg (ts : List (Triple P)) (h : ∀ t ∈ ts, Forward t ∧ 0 ≤ t.value)
    (st : Bool) (x : P) : 0 ≤ contributions ts st x := by
  induction ts with
  | nil => simp [contributions]
  | cons t r ih =>
    rw [contributions_cons]
    have h1 := l2b_contribution_nonneg t (h t (by simp)).1 (h t (by simp)).2 st x
    have h2 := ih (fun u hu => h u (List.mem_cons_of_mem _ hu))
    linarith

/-! ## everywhere-defined step functions -/

theorem l2b_lim_isSome (st : Bool) (a : Rat) (s : List (P × Val)) (hd : AllDef s) (x : P) :
    lim st (some a) s x ≠ none := by
  induction s generalizing a with
  | nil => simp
  | cons pv r ih =>
    obtain ⟨p, v⟩ := pv
    rw [allDef_cons] at hd
    rw [lim_cons]
    split
    · cases v with
      | none => exact absurd rfl hd.1
      | some w => exact ih w hd.2
    · simp

/-- there is a point to the left of all step points -/
theorem l2b_exists_before [NoMinOrder P] [Nonempty P] {V : Type} (s : List (P × V)) (hs : Sorted s) :
    ∃ x, ∀ q ∈ s.map Prod.fst, x < q := by
  cases s with
  | nil => exact ⟨Classical.arbitrary P, by simp⟩
  | cons pv r =>
    obtain ⟨p, v⟩ := pv
    obtain ⟨y, hy⟩ := exists_lt p
    refine ⟨y, fun q hq => ?_⟩
    simp only [List.map_cons, List.mem_cons] at hq
    rcases hq with h | h
    · rw [h]; exact hy
    · exact lt_trans hy ((sorted_tail hs).2 q h)

/-- **a well-formed step function has no undefined value iff it is defined at every point** -/
theorem l2b_noNa_iff_den [NoMinOrder P] [Nonempty P] (f : Stairs P) (hf : f.WF) :
    f.noNa = true ↔ ∀ x, Den f false x ≠ none := by
  rw [noNa_iff]
  constructor
  · rintro ⟨hi, hd⟩ x
    unfold Den
    cases hfi : f.init with
    | none => exact absurd hfi hi
    | some a => exact l2b_lim_isSome false a f.steps hd x
  · intro h
    constructor
    · obtain ⟨y, hy⟩ := l2b_exists_before f.steps hf
      have := h y
      unfold Den at this
      rwa [lim_before false f.init f.steps y hy] at this
    · intro pv hpv
      have := h pv.1
      unfold Den at this
      rwa [lim_at_key f.init f.steps hf pv.1 pv.2 hpv] at this

/-- layering neither creates nor removes undefined values -/
theorem l2b_noNa_layer_iff [NoMinOrder P] [Nonempty P] (f : Stairs P) (ts : List (Triple P)) (hf : f.WF) :
    (layer f ts).noNa = true ↔ f.noNa = true := by
  rw [l2b_noNa_iff_den _ (wf_layer f ts hf), l2b_noNa_iff_den f hf]
  constructor
  · intro h x hx
    refine h x ?_
    rw [l2b_den_layer f ts hf, hx]; rfl
  · intro h x hx
    refine h x ?_
    rw [l2b_den_layer f ts hf] at hx
    cases hd : Den f false x with
    | none => rfl
    | some a => rw [hd] at hx; simp at hx

/-! ## the rays / intervals a step function is made of -/

/-- one ray per step: from the step point on, add the jump (`a` = value to the left) -/
def raysFrom (a : Rat) : List (P × Val) → List (Triple P)
  | [] => []
  | (p, v) :: r => ⟨some p, none, v.getD a - a⟩ :: raysFrom (v.getD a) r

/-- one interval per piece: between consecutive step points add (value − base); the last piece is a ray -/
def intervalsFrom (a : Rat) : List (P × Val) → List (Triple P)
  | [] => []
  | [(p, v)] => [⟨some p, none, v.getD a - a⟩]
  | (p, v) :: (q, w) :: r => ⟨some p, some q, v.getD a - a⟩ :: intervalsFrom a ((q, w) :: r)

/-- the bounded pieces only (the last, unbounded piece is dropped) -/
def boundedFrom (a : Rat) : List (P × Val) → List (Triple P)
  | [] => []
  | [_] => []
  | (p, v) :: (q, w) :: r => ⟨some p, some q, v.getD a - a⟩ :: boundedFrom a ((q, w) :: r)

/-- the value towards +∞ -/
def l2b_lastVal {V : Type} (a : V) : List (P × V) → V
  | [] => a
  | (_, v) :: r => l2b_lastVal v r

theorem l2b_length_raysFrom (a : Rat) (s : List (P × Val)) : (raysFrom a s).length = s.length := by
  induction s generalizing a with
  | nil => rfl
  | cons pv r ih => obtain ⟨p, v⟩ := pv; simp [raysFrom, ih]

theorem l2b_raysFrom_before (a : Rat) (s : List (P × Val)) (st : Bool) (x : P)
    (h : ∀ q ∈ s.map Prod.fst, reached st q x = false) : contributions (raysFrom a s) st x = 0 := by
  induction s generalizing a with
  | nil => rfl
  | cons pv r ih =>
    obtain ⟨p, v⟩ := pv
    rw [raysFrom, contributions_cons, ih _ (fun q hq => h q (by simp only [List.map_cons, List.mem_cons]; exact Or.inr hq))]
    have hp : reached st p x = false := h p (by simp)
    simp [contribution, startReached, stopReached, hp]

/-- **the limit of an everywhere-defined step list = initial value + the jumps reached so far** -/
theorem l2b_lim_rays (st : Bool) (a : Rat) (s : List (P × Val)) (hs : Sorted s) (hd : AllDef s) (x : P) :
    lim st (some a) s x = some (a + contributions (raysFrom a s) st x) := by
  induction s generalizing a with
  | nil => simp [raysFrom, contributions]
  | cons pv r ih =>
    obtain ⟨p, v⟩ := pv
    rw [allDef_cons] at hd
    have hr := sorted_tail hs
    cases v with
    | none => exact absurd rfl hd.1
    | some w =>
      rw [lim_cons, raysFrom, contributions_cons]
      simp only [Option.getD_some]
      cases hp : reached st p x with
      | true =>
        rw [if_pos rfl, ih w hr.1 hd.2]
        simp only [contribution, startReached_some, stopReached_none, hp, if_true]
        congr 1
        simp only [Bool.false_eq_true, if_false]
        ring
      | false =>
        rw [l2b_raysFrom_before w r st x (fun q hq => not_reached_of_lt (lt_of_not_reached hp (hr.2 q hq)))]
        simp [contribution, startReached, stopReached, hp]

/-- pieces form: not yet at the first step point ⇒ no contribution; from it on ⇒ base + contributions -/
theorem l2b_lim_intervals_aux (st : Bool) (a : Rat) (x : P) (rest : List (P × Val)) :
    ∀ (p : P) (v : Val) (b : Val), Sorted ((p, v) :: rest) → AllDef ((p, v) :: rest) →
      (reached st p x = false → contributions (intervalsFrom a ((p, v) :: rest)) st x = 0) ∧
      (reached st p x = true →
        lim st b ((p, v) :: rest) x = some (a + contributions (intervalsFrom a ((p, v) :: rest)) st x)) := by
  induction rest with
  | nil =>
    intro p v b _ hd
    rw [allDef_cons] at hd
    cases v with
    | none => exact absurd rfl hd.1
    | some w =>
      simp only [intervalsFrom, l2b_contributions_single, contribution, startReached_some, stopReached_none,
        Option.getD_some, lim_cons, lim_nil]
      constructor
      · intro hp; simp [hp]
      · intro hp; simp only [hp, if_true, Bool.false_eq_true, if_false]; congr 1; ring
  | cons qw r ih =>
    obtain ⟨q, w⟩ := qw
    intro p v b hs hd
    rw [allDef_cons] at hd
    have hr := sorted_tail hs
    have hpq : p < q := hr.2 q (by simp)
    obtain ⟨ih1, ih2⟩ := ih q w v hr.1 hd.2
    cases v with
    | none => exact absurd rfl hd.1
    | some u =>
      rw [intervalsFrom, contributions_cons]
      simp only [contribution, startReached_some, stopReached_some, Option.getD_some]
      constructor
      · intro hp
        have hq : reached st q x = false := not_reached_of_lt (lt_of_not_reached hp hpq)
        rw [ih1 hq]; simp [hp, hq]
      · intro hp
        rw [lim_cons]
        simp only [hp, if_true]
        by_cases hq : reached st q x = true
        · rw [ih2 hq]; simp only [hq, if_true]; congr 1; ring
        · have hq' : reached st q x = false := by simpa using hq
          rw [ih1 hq', lim_cons]
          simp only [hq', Bool.false_eq_true, if_false]; congr 1; ring

theorem l2b_lim_intervals (st : Bool) (a : Rat) (s : List (P × Val)) (hs : Sorted s) (hd : AllDef s) (x : P) :
    lim st (some a) s x = some (a + contributions (intervalsFrom a s) st x) := by
  cases s with
  | nil => simp [intervalsFrom, contributions]
  | cons pv r =>
    obtain ⟨p, v⟩ := pv
    obtain ⟨h1, h2⟩ := l2b_lim_intervals_aux st a x r p v (some a) hs hd
    cases hp : reached st p x with
    | true => exact h2 hp
    | false => rw [h1 hp, lim_cons, hp]; simp

/-- bounded pieces: the same, for a list whose last value is the base value -/
theorem l2b_lim_bounded_aux (st : Bool) (a : Rat) (x : P) (rest : List (P × Val)) :
    ∀ (p : P) (v : Val) (b : Val), Sorted ((p, v) :: rest) → AllDef ((p, v) :: rest) →
      l2b_lastVal v rest = some a →
      (reached st p x = false → contributions (boundedFrom a ((p, v) :: rest)) st x = 0) ∧
      (reached st p x = true →
        lim st b ((p, v) :: rest) x = some (a + contributions (boundedFrom a ((p, v) :: rest)) st x)) := by
  induction rest with
  | nil =>
    intro p v b _ _ hl
    simp only [l2b_lastVal] at hl
    subst hl
    simp only [boundedFrom, contributions_nil, lim_cons, lim_nil]
    constructor
    · intro _; trivial
    · intro hp; simp [hp]
  | cons qw r ih =>
    obtain ⟨q, w⟩ := qw
    intro p v b hs hd hl
    rw [allDef_cons] at hd
    have hr := sorted_tail hs
    have hpq : p < q := hr.2 q (by simp)
    obtain ⟨ih1, ih2⟩ := ih q w v hr.1 hd.2 hl
    cases v with
    | none => exact absurd rfl hd.1
    | some u =>
      rw [boundedFrom, contributions_cons]
      simp only [contribution, startReached_some, stopReached_some, Option.getD_some]
      constructor
      · intro hp
        have hq : reached st q x = false := not_reached_of_lt (lt_of_not_reached hp hpq)
        rw [ih1 hq]; simp [hp, hq]
      · intro hp
        rw [lim_cons]
        simp only [hp, if_true]
        by_cases hq : reached st q x = true
        · rw [ih2 hq]; simp only [hq, if_true]; congr 1; ring
        · have hq' : reached st q x = false := by simpa using hq
          rw [ih1 hq', lim_cons]
          simp only [hq', Bool.false_eq_true, if_false]; congr 1; ring

theorem l2b_lim_bounded (st : Bool) (a : Rat) (s : List (P × Val)) (hs : Sorted s) (hd : AllDef s)
    (hl : l2b_lastVal (some a) s = some a) (x : P) :
    lim st (some a) s x = some (a + contributions (boundedFrom a s) st x) := by
  cases s with
  | nil => simp [boundedFrom, contributions]
  | cons pv r =>
    obtain ⟨p, v⟩ := pv
    obtain ⟨h1, h2⟩ := l2b_lim_bounded_aux st a x r p v (some a) hs hd hl
    cases hp : reached st p x with
    | true => exact h2 hp
    | false => rw [h1 hp, lim_cons, hp]; simp

/-- every bounded piece is a genuine forward interval -/
theorem l2b_boundedFrom_forward (a : Rat) (s : List (P × Val)) (hs : Sorted s) :
    ∀ t ∈ boundedFrom a s, ∃ p q, t.start = some p ∧ t.stop = some q ∧ p < q := by
  induction s with
  | nil => intro t ht; simp [boundedFrom] at ht
  | cons pv r ih =>
    obtain ⟨p, v⟩ := pv
    cases r with
    | nil => intro t ht; simp [boundedFrom] at ht
    | cons qw r' =>
      obtain ⟨q, w⟩ := qw
      intro t ht
      rw [boundedFrom, List.mem_cons] at ht
      rcases ht with h | h
      · subst h; exact ⟨p, q, rfl, rfl, (sorted_tail hs).2 q (by simp)⟩
      · exact ih (sorted_tail hs).1 t h

/-- for a minimal (canonical) everywhere-defined list every ray carries a non-zero jump -/
theorem l2b_raysFrom_nonzero (a : Rat) (s : List (P × Val)) (hd : AllDef s) (hm : Minimal (some a) s) :
    ∀ t ∈ raysFrom a s, t.value ≠ 0 := by
  induction s generalizing a with
  | nil => intro t ht; simp [raysFrom] at ht
  | cons pv r ih =>
    obtain ⟨p, v⟩ := pv
    rw [allDef_cons] at hd
    cases v with
    | none => exact absurd rfl hd.1
    | some w =>
      intro t ht
      rw [raysFrom, List.mem_cons] at ht
      rcases ht with h | h
      · subst h
        simp only [Option.getD_some]
        intro h0
        exact hm.1 (by rw [sub_eq_zero.mp h0])
      · exact ih w hd.2 hm.2 t h

end Stairs
end SC
