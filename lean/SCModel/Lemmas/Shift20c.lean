import SCModel.Lemmas.Window
import SCModel.Lemmas.Shift
import Mathlib.Tactic.FieldSimp
import Mathlib.Tactic.Ring
import Mathlib.Tactic.Linarith
import Mathlib.Tactic.NormNum
/-!
# SCModel.Lemmas.Shift20c — helper lemmas for `Props/C20c`

* windows: intersection of two `clip` windows (`maxLo`, `minHi`), empty windows;
* `sideOf` for operands closed on the same side;
* the object a `clip` of a function that is constant on the window is, and its statistics.
-/
set_option linter.unusedSectionVars false
namespace SC
namespace Stairs

section order
variable {P : Type} [LinearOrder P]

theorem s20c_reached_of_le {st : Bool} {p q x : P} (hpq : p ≤ q) (h : reached st q x = true) :
    reached st p x = true := by
  rcases lt_or_eq_of_le hpq with h1 | h1
  · exact reached_mono h1 h
  · rw [h1]; exact h

theorem s20c_reached_max (st : Bool) (a c x : P) :
    reached st (max a c) x = (reached st a x && reached st c x) := by
  rcases le_total a c with h | h
  · rw [max_eq_right h]
    cases hc : reached st c x
    · simp
    · simp [s20c_reached_of_le h hc]
  · rw [max_eq_left h]
    cases hc : reached st a x
    · simp
    · simp [s20c_reached_of_le h hc]

theorem s20c_reached_min (st : Bool) (b d x : P) :
    reached st (min b d) x = (reached st b x || reached st d x) := by
  rcases le_total b d with h | h
  · rw [min_eq_left h]
    cases hc : reached st d x
    · simp
    · simp [s20c_reached_of_le h hc]
  · rw [min_eq_right h]
    cases hc : reached st b x
    · simp
    · simp [s20c_reached_of_le h hc]

/-- the tighter of two lower bounds (`none` = −∞) -/
def maxLo : Option P → Option P → Option P
  | none, b => b
  | some a, none => some a
  | some a, some b => some (max a b)

/-- the tighter of two upper bounds (`none` = +∞) -/
def minHi : Option P → Option P → Option P
  | none, b => b
  | some a, none => some a
  | some a, some b => some (min a b)

/-- **the intersection of two windows is the window between the tighter bounds** -/
theorem s20c_inWindow_inter (st : Bool) (lo hi lo' hi' : Option P) (x : P) :
    (inWindow st lo hi x && inWindow st lo' hi' x) = inWindow st (maxLo lo lo') (minHi hi hi') x := by
  cases lo <;> cases lo' <;> cases hi <;> cases hi' <;>
    simp only [inWindow, maxLo, minHi, s20c_reached_max, s20c_reached_min, Bool.true_and, Bool.and_true,
      Bool.not_or] <;>
    first | rfl | ac_rfl

/-- a window whose bounds are not in order is empty -/
theorem s20c_inWindow_empty (st : Bool) (lo hi : Option P) (x : P) (h : boundsOk lo hi = false) :
    inWindow st lo hi x = false := by
  cases lo with
  | none => cases hi <;> simp [boundsOk] at h
  | some a =>
    cases hi with
    | none => simp [boundsOk] at h
    | some b =>
      have hba : b ≤ a := by simpa [boundsOk] using h
      simp only [inWindow]
      cases ha : reached st a x
      · rfl
      · simp [s20c_reached_of_le hba ha]

/-- the intersection of two windows has ordered bounds only if both have -/
theorem s20c_boundsOk_of_inter (lo hi lo' hi' : Option P) (h : boundsOk (maxLo lo lo') (minHi hi hi') = true) :
    boundsOk lo hi = true ∧ boundsOk lo' hi' = true := by
  cases lo <;> cases lo' <;> cases hi <;> cases hi' <;>
    simp only [maxLo, minHi, boundsOk, decide_eq_true_eq, max_lt_iff, lt_min_iff, and_self] at h ⊢ <;>
    first
      | exact h
      | exact ⟨h.1, h.2⟩
      | exact ⟨trivial, h⟩
      | exact ⟨h, trivial⟩
      | exact ⟨h.1.1, h.2.2⟩
      | exact ⟨h.1, trivial⟩
      | exact ⟨trivial, h.2⟩

theorem s20c_sideOf_of_closed_eq (f g : Stairs P) (h : f.closed = g.closed) : sideOf f g = f.closed := by
  unfold sideOf
  rw [← h]
  cases f.hasSteps <;> cases g.hasSteps <;> rfl

theorem s20c_closed_indicator (lo hi : Option P) (cl : Side) : (indicator lo hi cl).closed = cl := by
  cases lo <;> cases hi <;> rfl

/-- the limit at a point only depends on which step points have been reached -/
theorem s20c_lim_congr_reached {V : Type} (st st' : Bool) (a : V) (s : List (P × V)) (x y : P)
    (h : ∀ p ∈ s.map Prod.fst, reached st p x = reached st' p y) : lim st a s x = lim st' a s y := by
  induction s generalizing a with
  | nil => rfl
  | cons pv r ih =>
    obtain ⟨p, v⟩ := pv
    rw [lim_cons, lim_cons, h p (by simp), ih v (fun q hq => h q (by simp only [List.map_cons]; exact List.mem_cons_of_mem _ hq))]

/-- a non-empty `layer` call ends in a `combine`, hence in minimal form -/
theorem s20c_minimal_layer (g : Stairs P) (ts : List (Triple P)) (h : ts ≠ []) : (layer g ts).IsMinimal := by
  induction ts generalizing g with
  | nil => exact absurd rfl h
  | cons t r ih =>
    cases r with
    | nil => exact minimal_combine _ _ _ _
    | cons t' r' => exact ih (layer1 g t) (by simp)

end order

/-! ## a function that is constant on a slice -/

/-- `f` is defined and equal to `v` throughout the slice `iv` (as seen by both one-sided limits: no step
strictly inside, value `v`) -/
def ConstOn (f : Stairs Rat) (iv : Iv) (v : Rat) : Prop :=
  ∀ st x, inWindow st (some iv.1) (some iv.2) x = true → Den f st x = some v

/-- the slice of such a function: `v` from `a` to `b`, undefined elsewhere -/
def box (a b v : Rat) (cl : Side) : Stairs Rat := ⟨none, [(a, some v), (b, none)], cl⟩

theorem s20c_canonical_box (a b v : Rat) (cl : Side) (h : a < b) : (box a b v cl).Canonical := by
  refine ⟨?_, ?_⟩
  · simp [box, WF, Sorted, h]
  · simp [box, IsMinimal, Minimal]

theorem s20c_den_box (a b v : Rat) (cl : Side) (st : Bool) (x : Rat) :
    Den (box a b v cl) st x = if inWindow st (some a) (some b) x then some v else none := by
  simp only [box, Den, lim_cons, lim_nil, inWindow]
  by_cases ha : reached st a x = true <;> by_cases hb : reached st b x = true <;> simp [ha, hb]

/-- **the slice of a function constant on the slice is the box** (identical object) -/
theorem s20c_clip_constOn (f : Stairs Rat) (hf : f.WF) (iv : Iv) (v : Rat) (h : iv.1 < iv.2)
    (hc : ConstOn f iv v) : clip f (some iv.1) (some iv.2) = .ok (box iv.1 iv.2 v f.closed) := by
  have hb : boundsOk (some iv.1) (some iv.2) = true := by simp [boundsOk, h]
  have e := clip_ok f _ _ hb
  rw [e]
  congr 1
  refine canonical_ext _ _ (canonical_clip f _ _ hf hb _ e).1 (s20c_canonical_box _ _ v f.closed h) rfl
    (fun x => ?_)
  rw [den_clip f _ _ hf hb _ e, s20c_den_box]
  by_cases hw : inWindow false (some iv.1) (some iv.2) x = true
  · rw [if_pos hw, if_pos hw, hc false x hw]
  · rw [if_neg hw, if_neg hw]

/-- no step point strictly inside the slice and a defined value at its left end: constant on the slice -/
theorem s20c_constOn_of_grid (f : Stairs Rat) (iv : Iv) (v : Rat)
    (hno : ∀ p ∈ f.idx, ¬ (iv.1 < p ∧ p < iv.2)) (hv : Den f false iv.1 = some v) : ConstOn f iv v := by
  intro st x hw
  rw [← hv]
  apply s20c_lim_congr_reached
  intro p hp
  have hn := hno p hp
  rw [inWindow_some, Bool.and_eq_true] at hw
  obtain ⟨h1, h2⟩ := hw
  rcases le_or_gt p iv.1 with hle | hgt
  · rw [s20c_reached_of_le hle h1, (reached_right_iff p iv.1).mpr hle]
  · have hbp : iv.2 ≤ p := not_lt.mp (fun hlt => hn ⟨hgt, hlt⟩)
    have e1 : reached st p x = false := by
      cases hr : reached st p x with
      | false => rfl
      | true => rw [s20c_reached_of_le hbp hr] at h2; simp at h2
    have e2 : reached false p iv.1 = false := not_reached_of_lt hgt
    rw [e1, e2]

/-! ### statistics of a box -/

theorem s20c_mean_box (a b v : Rat) (cl : Side) (h : a < b) : mean (box a b v cl) = some v := by
  have hne : b - a ≠ 0 := sub_ne_zero.mpr (ne_of_gt h)
  simp [mean, box, definedLength, definedPieces, pieces, sumBy, hne]

theorem s20c_integral_box (a b v : Rat) (cl : Side) : integral (box a b v cl) = some (v * (b - a)) := by
  simp [integral, box, definedPieces, pieces, sumBy]

theorem s20c_valueSums_box (a b v : Rat) (cl : Side) : valueSums (box a b v cl) = [(v, b - a)] := by
  simp [valueSums, box, definedPieces, pieces, insertSum]

theorem s20c_shares_box (a b v : Rat) (cl : Side) (h : a < b) : shares (box a b v cl) = [(v, 1)] := by
  have hne : b - a ≠ 0 := sub_ne_zero.mpr (ne_of_gt h)
  simp [shares, s20c_valueSums_box, sumBy, hne]

theorem s20c_percentile_box (a b v p : Rat) (cl : Side) (h : a < b) (hp0 : 0 < p) (hp1 : p < 100) :
    percentile (box a b v cl) p = some v := by
  simp [percentile, xtiles, s20c_shares_box a b v cl h, cumsum, xtileRows, xtileSample, limit, lim, reached, hp0, hp1,
    not_lt_of_gt hp0, not_lt_of_gt hp1]

theorem s20c_median_box (a b v : Rat) (cl : Side) (h : a < b) : median (box a b v cl) = some v :=
  s20c_percentile_box a b v 50 cl h (by norm_num) (by norm_num)

theorem s20c_valuesInRange_box (a b v : Rat) (cl : Side) (c : IClosed) :
    valuesInRange (box a b v cl) none none c = [v] := by
  cases cl <;> cases c <;> simp [valuesInRange, box, bisect, idx, uniqueDefined, insertUniq]

theorem s20c_minIn_box (a b v : Rat) (cl : Side) (c : IClosed) : minIn (box a b v cl) none none c = some v := by
  simp [minIn, s20c_valuesInRange_box, listMin]
theorem s20c_maxIn_box (a b v : Rat) (cl : Side) (c : IClosed) : maxIn (box a b v cl) none none c = some v := by
  simp [maxIn, s20c_valuesInRange_box, listMax]

theorem s20c_mode_box (a b v : Rat) (cl : Side) : mode (box a b v cl) = some v := by
  simp [mode, modes, s20c_valueSums_box]

theorem s20c_var_box (a b v : Rat) (cl : Side) (h : a < b) : var (box a b v cl) = some 0 := by
  simp [var, s20c_mean_box a b v cl h, s20c_shares_box a b v cl h, sumBy]

end Stairs
end SC
