import SCModel.Props.C17
import SCModel.Lemmas.Fill
import SCModel.Lemmas.Agg
import SCModel.Lemmas.Layer
import SCModel.Lemmas.Shift
import SCModel.Lemmas.Stats
import SCModel.Lemmas.Window
import Mathlib.Algebra.Order.Field.Rat
import Mathlib.Tactic.Ring
import Mathlib.Tactic.Linarith
import Mathlib.Tactic.FieldSimp
/-!
# SCModel.Lemmas.Relabel — list-level lemmas behind C17b (re-labelling the domain commutes with everything)

Helper lemmas only: how the list algorithms of the model (`ffillSteps`, `bfillSteps`, `unionAll`,
`insertSum`, `cumsum`, `bisect`, `List.mapM` in `Except` …) behave when the step points are pushed through
an order-preserving map, or when lengths are multiplied by a positive unit.
-/
set_option linter.unusedSectionVars false
namespace SC.Relabel
open SC SC.Stairs SC.Props.C17
variable {P Q : Type} [LinearOrder P] [LinearOrder Q]

/-- re-labelling of a row list -/
abbrev rel {V : Type} (φ : P → Q) (s : List (P × V)) : List (Q × V) := s.map fun pv => (φ pv.1, pv.2)

theorem op_injective (φ : P → Q) (hφ : OrderPreserving φ) : Function.Injective φ := by
  intro a b h
  rcases lt_trichotomy a b with hab | hab | hab
  · exact absurd ((hφ a b).mp hab) (by rw [h]; exact lt_irrefl _)
  · exact hab
  · exact absurd ((hφ b a).mp hab) (by rw [h]; exact lt_irrefl _)

theorem op_le (φ : P → Q) (hφ : OrderPreserving φ) (a b : P) : a ≤ b ↔ φ a ≤ φ b := by
  rw [← not_lt, ← not_lt, hφ b a]

theorem op_comp {R : Type} [LinearOrder R] (φ : P → Q) (ψ : Q → R) (hφ : OrderPreserving φ)
    (hψ : OrderPreserving ψ) : OrderPreserving (ψ ∘ φ) := fun a b => (hφ a b).trans (hψ _ _)

/-! ## fills -/

theorem ffillSteps_rel (φ : P → Q) (a : Val) (s : List (P × Val)) :
    ffillSteps a (rel φ s) = rel φ (ffillSteps a s) := by
  induction s generalizing a with
  | nil => rfl
  | cons pv r ih => obtain ⟨p, v⟩ := pv; simp only [rel, List.map_cons, ffillSteps] at ih ⊢; rw [ih]

theorem bfillSteps_rel (φ : P → Q) (s : List (P × Val)) :
    bfillSteps (rel φ s) = rel φ (bfillSteps s) := by
  induction s with
  | nil => rfl
  | cons pv r ih =>
    obtain ⟨p, v⟩ := pv
    simp only [rel, List.map_cons, bfillSteps] at ih ⊢
    rw [ih]
    cases bfillSteps r with
    | nil => rfl
    | cons qw r' => rfl

theorem firstVal_rel (φ : P → Q) (s : List (P × Val)) : firstVal (rel φ s) = firstVal s := by
  cases s <;> rfl

/-! ## n-ary union -/

theorem unionAll_map (φ : P → Q) (hφ : OrderPreserving φ) (ls : List (List P)) :
    unionAll (ls.map (List.map φ)) = (unionAll ls).map φ := by
  induction ls with
  | nil => rfl
  | cons l r ih => simp only [List.map_cons, unionAll, ih, unionIdx_map φ hφ]

/-! ## `mapM` in `Except` under a re-labelling of inputs and outputs -/

theorem mapM_rel {α α' β β' ε : Type} (h : α → α') (k : β → β') (g : α → Except ε β) (g' : α' → Except ε β')
    (l : List α) (H : ∀ a ∈ l, g' (h a) = (g a).map k) :
    (l.map h).mapM g' = (l.mapM g).map (List.map k) := by
  induction l with
  | nil => rfl
  | cons a r ih =>
    rw [List.map_cons, List.mapM_cons, List.mapM_cons, H a (by simp),
      ih (fun x hx => H x (List.mem_cons_of_mem _ hx))]
    cases g a with
    | error e => rfl
    | ok b =>
      cases r.mapM g with
      | error e => rfl
      | ok bs => rfl

/-! ## lengths multiplied by a unit -/

/-- multiply the length component of `(value, length)` rows by `u` -/
abbrev scl (u : Rat) (l : List (Rat × Rat)) : List (Rat × Rat) := l.map fun vl => (vl.1, u * vl.2)

theorem insertSum_scl (u v len : Rat) (l : List (Rat × Rat)) :
    insertSum v (u * len) (scl u l) = scl u (insertSum v len l) := by
  induction l with
  | nil => rfl
  | cons a r ih =>
    obtain ⟨w, x⟩ := a
    simp only [scl, List.map_cons, insertSum] at ih ⊢
    split
    · rfl
    · split
      · simp only [List.map_cons, List.cons.injEq, Prod.mk.injEq, true_and, and_true]; ring
      · rw [ih]; rfl

theorem vsFold_scl (u : Rat) (acc d : List (Rat × Rat)) :
    vsFold (scl u acc) (scl u d) = scl u (vsFold acc d) := by
  induction d generalizing acc with
  | nil => rfl
  | cons a r ih =>
    simp only [scl, List.map_cons, vsFold_cons] at ih ⊢
    rw [insertSum_scl, ih]

theorem sumBy_snd_scl (u : Rat) (l : List (Rat × Rat)) : sumBy (·.2) (scl u l) = u * sumBy (·.2) l :=
  (sumBy_scaled u l).2

theorem maxLen_scl (u : Rat) (hu : 0 < u) (l0 : Rat) (r : List (Rat × Rat)) :
    maxLen (u * l0) (scl u r) = u * maxLen l0 r := by
  induction r generalizing l0 with
  | nil => rfl
  | cons a r ih =>
    simp only [scl, List.map_cons, maxLen_cons] at ih ⊢
    by_cases h : l0 < a.2
    · rw [if_pos h, if_pos (by nlinarith), ih]
    · rw [if_neg h, if_neg (by intro h'; apply h; nlinarith), ih]

/-! ## counting is order-only -/

theorem bisect_map (φ : Rat → Rat) (hφ : OrderPreserving φ) (side : Side) (idx : List Rat) (x : Option Rat)
    (up : Bool) : bisect side (idx.map φ) (x.map φ) up = bisect side idx x up := by
  cases x with
  | none => simp [bisect]
  | some x =>
    cases side
    · simp only [bisect, Option.map_some, List.filter_map, List.length_map]
      congr 1
      apply List.filter_congr
      intro p _
      exact decide_eq_decide.mpr (hφ p x).symm
    · simp only [bisect, Option.map_some, List.filter_map, List.length_map]
      congr 1
      apply List.filter_congr
      intro p _
      exact decide_eq_decide.mpr (op_le φ hφ p x).symm

end SC.Relabel
