import SCModel.Lemmas.Masking
/-!
# SCModel.Lemmas.Fill — forward / backward filling of undefined pieces
-/
set_option linter.unusedSectionVars false
namespace SC
namespace Stairs
variable {P : Type} [LinearOrder P]

/-- spec of forward fill: walking through the steps reached at `x`, keep the last *defined* value seen
(starting from `acc`, the initial value): the value of the nearest defined piece at or to the left of `x`. -/
def lastDefined (st : Bool) (acc : Val) : List (P × Val) → P → Val
  | [], _ => acc
  | (p, v) :: r, x => if reached st p x then lastDefined st (fillOp v acc) r x else acc

theorem map_fst_ffillSteps (a : Val) (s : List (P × Val)) :
    (ffillSteps a s).map Prod.fst = s.map Prod.fst := by
  induction s generalizing a with
  | nil => rfl
  | cons pv r ih => obtain ⟨p, v⟩ := pv; simp [ffillSteps, ih]

theorem lim_ffillSteps (st : Bool) (a : Val) (s : List (P × Val)) (x : P) :
    lim st a (ffillSteps a s) x = lastDefined st a s x := by
  induction s generalizing a with
  | nil => rfl
  | cons pv r ih =>
    obtain ⟨p, v⟩ := pv
    simp only [ffillSteps, lim_cons, lastDefined]
    split
    · exact ih _
    · rfl

theorem fillOp_some (w : Rat) (c : Val) : fillOp (some w) c = some w := rfl
theorem fillOp_none_left (c : Val) : fillOp none c = c := rfl
theorem fillOp_none_right (a : Val) : fillOp a none = a := by cases a <;> rfl

/-- forward fill never changes a defined point (`c` may already carry more information than `a`) -/
theorem lastDefined_of_defined' (st : Bool) (s : List (P × Val)) (x : P) (q : Rat) :
    ∀ (a c : Val), (∀ w, a = some w → c = some w) → lim st a s x = some q →
      lastDefined st c s x = some q := by
  induction s with
  | nil => intro a c hc h; exact hc q h
  | cons pv r ih =>
    obtain ⟨p, v⟩ := pv
    intro a c hc h
    simp only [lim_cons, lastDefined] at h ⊢
    by_cases hr : reached st p x = true
    · rw [if_pos hr] at h ⊢
      exact ih v (fillOp v c) (fun w hw => by rw [hw]; rfl) h
    · rw [if_neg hr] at h ⊢
      exact hc q h

theorem lastDefined_of_defined (st : Bool) (a : Val) (s : List (P × Val)) (x : P) (q : Rat)
    (h : lim st a s x = some q) : lastDefined st a s x = some q :=
  lastDefined_of_defined' st s x q a a (fun _ hw => hw) h

theorem den_ffill (f : Stairs P) (hf : f.WF) (st : Bool) (x : P) :
    Den (ffill f) st x = lastDefined st f.init f.steps x := by
  have h : (⟨f.init, ffillSteps f.init f.steps, f.closed⟩ : Stairs P).WF := by
    unfold WF Sorted; rw [map_fst_ffillSteps]; exact hf
  unfold ffill
  rw [den_canon _ h]
  exact lim_ffillSteps st f.init f.steps x

theorem canonical_ffill (f : Stairs P) (hf : f.WF) : (ffill f).Canonical := by
  have h : (⟨f.init, ffillSteps f.init f.steps, f.closed⟩ : Stairs P).WF := by
    unfold WF Sorted; rw [map_fst_ffillSteps]; exact hf
  exact canonical_canon _ h

/-- first defined value of a list of rows -/
def firstSome : List (P × Val) → Val
  | [] => none
  | (_, v) :: r => fillOp v (firstSome r)

/-- spec of backward fill: the value in effect at `x`, or else the first defined value after it -/
def nextDefined (st : Bool) (cur : Val) : List (P × Val) → P → Val
  | [], _ => cur
  | (p, v) :: r, x => if reached st p x then nextDefined st v r x else fillOp cur (firstSome ((p, v) :: r))

theorem bfillSteps_cons (p : P) (v : Val) (r : List (P × Val)) :
    bfillSteps ((p, v) :: r) = (p, fillOp v (firstVal (bfillSteps r))) :: bfillSteps r := by
  simp only [bfillSteps]
  split
  · rename_i h; rw [h]; simp [firstVal, fillOp_none_right]
  · rename_i q w t h; rw [h]; simp [firstVal]

theorem map_fst_bfillSteps (s : List (P × Val)) : (bfillSteps s).map Prod.fst = s.map Prod.fst := by
  induction s with
  | nil => rfl
  | cons pv r ih => obtain ⟨p, v⟩ := pv; rw [bfillSteps_cons]; simp [ih]

theorem firstVal_bfillSteps (s : List (P × Val)) : firstVal (bfillSteps s) = firstSome s := by
  induction s with
  | nil => rfl
  | cons pv r ih =>
    obtain ⟨p, v⟩ := pv
    rw [bfillSteps_cons]
    show fillOp v (firstVal (bfillSteps r)) = fillOp v (firstSome r)
    rw [ih]

theorem lim_bfillSteps (st : Bool) (a : Val) (s : List (P × Val)) (x : P) :
    lim st (fillOp a (firstSome s)) (bfillSteps s) x = nextDefined st a s x := by
  induction s generalizing a with
  | nil => simp [bfillSteps, firstSome, nextDefined, fillOp_none_right]
  | cons pv r ih =>
    obtain ⟨p, v⟩ := pv
    rw [bfillSteps_cons, firstVal_bfillSteps, lim_cons]
    simp only [nextDefined]
    by_cases hr : reached st p x = true
    · rw [if_pos hr, if_pos hr]; exact ih v
    · rw [if_neg hr, if_neg hr]

/-- backward fill never changes a defined point -/
theorem nextDefined_of_defined (st : Bool) (a : Val) (s : List (P × Val)) (x : P) (q : Rat)
    (h : lim st a s x = some q) : nextDefined st a s x = some q := by
  induction s generalizing a with
  | nil => exact h
  | cons pv r ih =>
    obtain ⟨p, v⟩ := pv
    simp only [lim_cons, nextDefined] at h ⊢
    by_cases hr : reached st p x = true
    · rw [if_pos hr] at h ⊢; exact ih v h
    · rw [if_neg hr] at h ⊢; rw [h]; rfl

theorem den_bfill (f : Stairs P) (hf : f.WF) (st : Bool) (x : P) :
    Den (bfill f) st x = nextDefined st f.init f.steps x := by
  have h : (⟨fillOp f.init (firstVal (bfillSteps f.steps)), bfillSteps f.steps, f.closed⟩ : Stairs P).WF := by
    unfold WF Sorted; rw [map_fst_bfillSteps]; exact hf
  unfold bfill
  simp only []
  rw [den_canon _ h]
  unfold Den
  simp only [firstVal_bfillSteps]
  exact lim_bfillSteps st f.init f.steps x

theorem canonical_bfill (f : Stairs P) (hf : f.WF) : (bfill f).Canonical := by
  have h : (⟨fillOp f.init (firstVal (bfillSteps f.steps)), bfillSteps f.steps, f.closed⟩ : Stairs P).WF := by
    unfold WF Sorted; rw [map_fst_bfillSteps]; exact hf
  exact canonical_canon _ h

end Stairs
end SC
