import SCModel.Lemmas.Den
import SCModel.Model.Layer
/-!
# SCModel.Lemmas.Layer — `layer` adds, at every point, the contributions of the layered triples
-/
set_option linter.unusedSectionVars false
namespace SC
namespace Stairs
variable {P : Type} [LinearOrder P]

/-- has the start of a triple taken effect at `x`?  (a missing start is −∞: always) -/
def startReached (s : Option P) (st : Bool) (x : P) : Bool :=
  match s with
  | none => true
  | some p => reached st p x

/-- has the end of a triple taken effect at `x`?  (a missing end is +∞: never) -/
def stopReached (e : Option P) (st : Bool) (x : P) : Bool :=
  match e with
  | none => false
  | some p => reached st p x

/-- what one layered triple adds at `x`: `+value` once the start is reached, `-value` once the end is -/
def contribution (t : Triple P) (st : Bool) (x : P) : Rat :=
  (if startReached t.start st x then t.value else 0) - (if stopReached t.stop st x then t.value else 0)

theorem startReached_none (st : Bool) (x : P) : startReached (none : Option P) st x = true := rfl
theorem startReached_some (p : P) (st : Bool) (x : P) : startReached (some p) st x = reached st p x := rfl
theorem stopReached_none (st : Bool) (x : P) : stopReached (none : Option P) st x = false := rfl
theorem stopReached_some (p : P) (st : Bool) (x : P) : stopReached (some p) st x = reached st p x := rfl

theorem startReached_iff (s : Option P) (st : Bool) (x : P) :
    startReached s st x = true ↔ (s = none ∨ ∃ p, s = some p ∧ reached st p x = true) := by
  cases s <;> simp [startReached]

theorem stopReached_iff (e : Option P) (st : Bool) (x : P) :
    stopReached e st x = true ↔ ∃ p, e = some p ∧ reached st p x = true := by
  cases e <;> simp [stopReached]

/-! ### the two rays -/

theorem wf_startRay (s : Option P) (v : Rat) (cl : Side) : (startRay s v cl).WF := by
  cases s <;> simp [startRay, WF, Sorted]

theorem wf_stopRay (e : Option P) (v : Rat) (cl : Side) : (stopRay e v cl).WF := by
  cases e <;> simp [stopRay, WF, Sorted]

theorem den_startRay (s : Option P) (v : Rat) (cl : Side) (st : Bool) (x : P) :
    Den (startRay s v cl) st x = some (if startReached s st x then v else 0) := by
  cases s with
  | none => simp [startRay, Den, startReached]
  | some p =>
    simp only [startRay, Den, startReached, lim_cons, lim_nil]
    by_cases h : reached st p x = true <;> simp [h]

theorem den_stopRay (e : Option P) (v : Rat) (cl : Side) (st : Bool) (x : P) :
    Den (stopRay e v cl) st x = some (if stopReached e st x then v else 0) := by
  cases e with
  | none => simp [stopRay, Den, stopReached]
  | some p =>
    simp only [stopRay, Den, stopReached, lim_cons, lim_nil]
    by_cases h : reached st p x = true <;> simp [h]

@[simp] theorem closed_startRay (s : Option P) (v : Rat) (cl : Side) : (startRay s v cl).closed = cl := by
  cases s <;> rfl
@[simp] theorem closed_stopRay (e : Option P) (v : Rat) (cl : Side) : (stopRay e v cl).closed = cl := by
  cases e <;> rfl

/-! ### one layered triple -/

theorem wf_layer1 (f : Stairs P) (t : Triple P) (hf : f.WF) : (layer1 f t).WF :=
  wf_combine _ _ _ _ (wf_combine _ _ _ _ hf (wf_startRay _ _ _)) (wf_stopRay _ _ _)

theorem canonical_layer1 (f : Stairs P) (t : Triple P) (hf : f.WF) : (layer1 f t).Canonical :=
  canonical_combine _ _ _ _ (wf_combine _ _ _ _ hf (wf_startRay _ _ _)) (wf_stopRay _ _ _)

@[simp] theorem closed_layer1 (f : Stairs P) (t : Triple P) : (layer1 f t).closed = f.closed := rfl

/-- **one layer call, raw form**: two pointwise additions -/
theorem den_layer1 (f : Stairs P) (t : Triple P) (hf : f.WF) (st : Bool) (x : P) :
    Den (layer1 f t) st x =
      vadd (vadd (Den f st x) (some (if startReached t.start st x then t.value else 0)))
        (some (if stopReached t.stop st x then -t.value else 0)) := by
  unfold layer1
  rw [den_combine _ _ _ _ (wf_combine _ _ _ _ hf (wf_startRay _ _ _)) (wf_stopRay _ _ _),
      den_combine _ _ _ _ hf (wf_startRay _ _ _), den_startRay, den_stopRay]

theorem add_contribution (a : Rat) (t : Triple P) (st : Bool) (x : P) :
    a + (if startReached t.start st x then t.value else 0)
        + (if stopReached t.stop st x then -t.value else 0) = a + contribution t st x := by
  unfold contribution
  split <;> split <;> grind

/-- **one layer call**: previous value plus the triple's contribution, undefined where it was undefined -/
theorem den_layer1_map (f : Stairs P) (t : Triple P) (hf : f.WF) (st : Bool) (x : P) :
    Den (layer1 f t) st x = (Den f st x).map (· + contribution t st x) := by
  rw [den_layer1 f t hf]
  cases Den f st x with
  | none => rfl
  | some a => simp only [vadd, vlift2, Option.map_some, add_contribution]

theorem den_layer1_defined (f : Stairs P) (t : Triple P) (hf : f.WF) (st : Bool) (x : P) (a : Rat)
    (ha : Den f st x = some a) : Den (layer1 f t) st x = some (a + contribution t st x) := by
  rw [den_layer1_map f t hf, ha]; rfl

theorem den_layer1_none_iff (f : Stairs P) (t : Triple P) (hf : f.WF) (st : Bool) (x : P) :
    Den (layer1 f t) st x = none ↔ Den f st x = none := by
  rw [den_layer1_map f t hf]; cases Den f st x <;> simp

/-! ### any number of layered triples -/

theorem layer_nil (f : Stairs P) : layer f [] = f := rfl
theorem layer_cons (f : Stairs P) (t : Triple P) (ts : List (Triple P)) :
    layer f (t :: ts) = layer (layer1 f t) ts := rfl
theorem layer_append (f : Stairs P) (ts us : List (Triple P)) :
    layer (layer f ts) us = layer f (ts ++ us) := by
  unfold layer; rw [List.foldl_append]
theorem layer_concat (f : Stairs P) (ts : List (Triple P)) (t : Triple P) :
    layer f (ts ++ [t]) = layer1 (layer f ts) t := by
  rw [← layer_append]; rfl

theorem wf_layer (f : Stairs P) (ts : List (Triple P)) (hf : f.WF) : (layer f ts).WF := by
  induction ts generalizing f with
  | nil => exact hf
  | cons t ts ih => exact ih _ (wf_layer1 f t hf)

theorem canonical_layer_of_canonical (f : Stairs P) (ts : List (Triple P)) (hf : f.Canonical) :
    (layer f ts).Canonical := by
  induction ts generalizing f with
  | nil => exact hf
  | cons t ts ih => exact ih _ (canonical_layer1 f t hf.1)

theorem canonical_layer (f : Stairs P) (ts : List (Triple P)) (hf : f.WF) (hts : ts ≠ []) :
    (layer f ts).Canonical := by
  cases ts with
  | nil => exact absurd rfl hts
  | cons t ts => exact canonical_layer_of_canonical _ ts (canonical_layer1 f t hf)

@[simp] theorem closed_layer (f : Stairs P) (ts : List (Triple P)) : (layer f ts).closed = f.closed := by
  induction ts generalizing f with
  | nil => rfl
  | cons t ts ih => rw [layer_cons, ih, closed_layer1]

/-- total contribution of a list of triples at `x` -/
def contributions (ts : List (Triple P)) (st : Bool) (x : P) : Rat := (ts.map (contribution · st x)).sum

theorem contributions_nil (st : Bool) (x : P) : contributions ([] : List (Triple P)) st x = 0 := rfl
theorem contributions_cons (t : Triple P) (ts : List (Triple P)) (st : Bool) (x : P) :
    contributions (t :: ts) st x = contribution t st x + contributions ts st x := by
  simp [contributions]

/-- **C02 core**: after layering `ts` onto `f` the value at `x` is `f`'s value plus the sum of the
contributions, and undefined where `f` was -/
theorem den_layer (f : Stairs P) (ts : List (Triple P)) (hf : f.WF) (st : Bool) (x : P) :
    Den (layer f ts) st x = (Den f st x).map (· + (ts.map (contribution · st x)).sum) := by
  induction ts generalizing f with
  | nil => rw [layer_nil]; cases Den f st x <;> simp [Rat.add_zero]
  | cons t ts ih =>
    rw [layer_cons, ih _ (wf_layer1 f t hf), den_layer1_map f t hf]
    cases Den f st x with
    | none => rfl
    | some a => simp [Rat.add_assoc]

theorem perm_contributions {ts ts' : List (Triple P)} (h : ts.Perm ts') (st : Bool) (x : P) :
    (ts.map (contribution · st x)).sum = (ts'.map (contribution · st x)).sum := by
  induction h with
  | nil => rfl
  | cons t _ ih => simp only [List.map_cons, List.sum_cons, ih]
  | swap a b l => simp only [List.map_cons, List.sum_cons]; grind
  | trans _ _ ih1 ih2 => exact ih1.trans ih2

/-- an all-undefined, step-free function absorbs any addition -/
theorem combine_vadd_undefined (g : Stairs P) (cl cl' : Side) :
    combine vadd (⟨none, [], cl'⟩ : Stairs P) g cl = ⟨none, [], cl⟩ := by
  have hnone : ∀ b : Val, vadd none b = none := fun b => by cases b <;> rfl
  have hrr : ∀ idx : List P, removeRedundant (none : Val) (idx.map fun p => (p, (none : Val))) = [] := by
    intro idx
    induction idx with
    | nil => rfl
    | cons p r ih => simp [removeRedundant, ih]
  unfold combine canon combineSteps
  simp only [lim_nil, hnone, hrr]

end Stairs
end SC
