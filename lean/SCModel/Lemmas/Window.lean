import SCModel.Lemmas.Masking
import SCModel.Model.Slicing
import Mathlib.Algebra.Order.Field.Rat
import Mathlib.Tactic.Linarith
/-!
# SCModel.Lemmas.Window — windows: `bisect`, `valuesInRange`, `listMin` / `listMax`

* `cnt q idx`            the number of points satisfying `q`; `bisect` is a `cnt`
* `cnt_spec`             on a sorted list a downward-closed predicate holds exactly on the first `cnt` points
* `lim_eq_getElem`       the limit at `x` is entry number `#{p reached at x}` of `init :: values`
* `exists_point`         two lower and two upper bounds that are pairwise compatible have a common point (ℚ is dense, unbounded)
* `mem_uniqueDefined`, `sorted_uniqueDefined`
* `listMin_*`, `listMax_*`
* `mem_valuesInRange`    **the values of a window are exactly the values taken at defined points of the interval**
-/
set_option linter.unusedSectionVars false
namespace SC
namespace Stairs

/-! ## counting points -/

/-- number of points of `idx` satisfying `q` -/
def cnt (q : Rat → Bool) (idx : List Rat) : Nat := (idx.filter q).length

@[simp] theorem cnt_nil (q : Rat → Bool) : cnt q [] = 0 := rfl

theorem cnt_cons (q : Rat → Bool) (p : Rat) (r : List Rat) :
    cnt q (p :: r) = (if q p then 1 else 0) + cnt q r := by
  unfold cnt
  by_cases h : q p = true <;> simp [h, Nat.add_comm]

theorem cnt_le_length (q : Rat → Bool) (idx : List Rat) : cnt q idx ≤ idx.length :=
  List.length_filter_le q idx

theorem cnt_mono (q q' : Rat → Bool) (idx : List Rat) (h : ∀ p ∈ idx, q p = true → q' p = true) :
    cnt q idx ≤ cnt q' idx := by
  induction idx with
  | nil => simp
  | cons p r ih =>
    rw [cnt_cons, cnt_cons]
    have ih' := ih (fun p' hp' => h p' (List.mem_cons_of_mem _ hp'))
    have hp := h p (by simp)
    by_cases h1 : q p = true
    · simp only [h1, hp h1, if_true]; omega
    · by_cases h2 : q' p = true
      · simp only [h1, h2, if_true]; simp; omega
      · simp only [h1, h2]; simpa using ih'

theorem cnt_false (idx : List Rat) : cnt (fun _ => false) idx = 0 := by simp [cnt]
theorem cnt_true (idx : List Rat) : cnt (fun _ => true) idx = idx.length := by simp [cnt]

/-- `q` is downward closed: it holds for every point below a point where it holds -/
def DownClosed (q : Rat → Bool) : Prop := ∀ p p' : Rat, p < p' → q p' = true → q p = true

/-- on a strictly increasing list a downward-closed predicate holds exactly for the first `cnt q idx` points -/
theorem cnt_spec (q : Rat → Bool) (hq : DownClosed q) (idx : List Rat) (hs : idx.Pairwise (· < ·))
    (i : Nat) (hi : i < idx.length) : q idx[i] = true ↔ i < cnt q idx := by
  induction idx generalizing i with
  | nil => simp at hi
  | cons p r ih =>
    rw [List.pairwise_cons] at hs
    rw [cnt_cons]
    by_cases hp : q p = true
    · cases i with
      | zero => simp [hp]
      | succ i' =>
        have := ih hs.2 i' (by simpa using hi)
        simp only [List.getElem_cons_succ, hp, if_true]
        rw [this]; omega
    · have hall : ∀ p' ∈ r, ¬ q p' = true := fun p' hp' h => hp (hq p p' (hs.1 p' hp') h)
      have h0 : cnt q r = 0 := by
        unfold cnt; rw [List.length_eq_zero_iff, List.filter_eq_nil_iff]; exact hall
      simp only [hp, h0]
      cases i with
      | zero => simp [hp]
      | succ i' =>
        simp only [List.getElem_cons_succ]
        have hi' : i' < r.length := by simpa using hi
        have := hall r[i'] (List.getElem_mem hi')
        simp [this]

theorem downClosed_reached (st : Bool) (x : Rat) : DownClosed (fun p => reached st p x) :=
  fun _ _ hpp h => reached_mono hpp h

/-- to have exactly `j` points reached it suffices that point `j-1` is and point `j` is not -/
theorem cnt_eq_of (q : Rat → Bool) (hq : DownClosed q) (idx : List Rat) (hs : idx.Pairwise (· < ·))
    (j : Nat) (hj : j ≤ idx.length)
    (h1 : ∀ (h : j - 1 < idx.length), 1 ≤ j → q idx[j - 1] = true)
    (h2 : ∀ (h : j < idx.length), q idx[j] = false) : cnt q idx = j := by
  have hle := cnt_le_length q idx
  apply Nat.le_antisymm
  · by_contra hc
    have hlt : j < cnt q idx := by omega
    have hjl : j < idx.length := by omega
    have := (cnt_spec q hq idx hs j hjl).mpr hlt
    rw [h2 hjl] at this; cases this
  · by_cases h0 : j = 0
    · omega
    · have hjl : j - 1 < idx.length := by omega
      have := (cnt_spec q hq idx hs (j - 1) hjl).mp (h1 hjl (by omega))
      omega

/-! ## the limit as a list lookup -/

/-- the limit at `x` is entry number `#{step points reached at x}` of `init :: values` -/
theorem lim_eq_getElem (st : Bool) (a : Val) (s : List (Rat × Val)) (hs : Sorted s) (x : Rat) :
    (a :: s.map Prod.snd)[cnt (fun p => reached st p x) (s.map Prod.fst)]? = some (lim st a s x) := by
  induction s generalizing a with
  | nil => simp
  | cons pv r ih =>
    obtain ⟨p, v⟩ := pv
    have hr := sorted_tail hs
    simp only [List.map_cons, cnt_cons, lim_cons]
    by_cases h : reached st p x = true
    · simp only [h, if_true]
      rw [Nat.add_comm, List.getElem?_cons_succ]
      exact ih v hr.1
    · have hall : ∀ p' ∈ r.map Prod.fst, ¬ reached st p' x = true :=
        fun p' hp' h' => h (reached_mono (hr.2 p' hp') h')
      have h0 : cnt (fun p => reached st p x) (r.map Prod.fst) = 0 := by
        unfold cnt; rw [List.length_eq_zero_iff, List.filter_eq_nil_iff]; exact hall
      simp [h, h0]

/-! ## one-sided bounds on ℚ and common points -/

/-- a bound: `none` = no bound, `some (a, true)` = strict, `some (a, false)` = non-strict -/
abbrev Bound := Option (Rat × Bool)

def satL : Bound → Rat → Prop
  | none, _ => True
  | some (a, true), x => a < x
  | some (a, false), x => a ≤ x
def satU : Bound → Rat → Prop
  | none, _ => True
  | some (b, true), x => x < b
  | some (b, false), x => x ≤ b
/-- a lower and an upper bound leave room for a point -/
def compat : Bound → Bound → Prop
  | some (a, sa), some (b, sb) => if sa || sb then a < b else a ≤ b
  | _, _ => True

theorem tightL (A1 A2 : Bound) : ∃ A, (A = A1 ∨ A = A2) ∧ ∀ x, satL A x → satL A1 x ∧ satL A2 x := by
  rcases A1 with _ | ⟨a1, s1⟩
  · exact ⟨A2, Or.inr rfl, fun x h => ⟨trivial, h⟩⟩
  rcases A2 with _ | ⟨a2, s2⟩
  · exact ⟨_, Or.inl rfl, fun x h => ⟨h, trivial⟩⟩
  rcases lt_trichotomy a1 a2 with h | h | h
  · refine ⟨some (a2, s2), Or.inr rfl, fun x hx => ⟨?_, hx⟩⟩
    cases s1 <;> cases s2 <;> simp only [satL] at hx ⊢ <;> linarith
  · subst h
    cases s1
    · exact ⟨some (a1, s2), Or.inr rfl, fun x hx => ⟨by cases s2 <;> simp only [satL] at hx ⊢ <;> linarith, hx⟩⟩
    · exact ⟨some (a1, true), Or.inl rfl, fun x hx => ⟨hx, by cases s2 <;> simp only [satL] at hx ⊢ <;> linarith⟩⟩
  · refine ⟨some (a1, s1), Or.inl rfl, fun x hx => ⟨hx, ?_⟩⟩
    cases s1 <;> cases s2 <;> simp only [satL] at hx ⊢ <;> linarith

theorem tightU (B1 B2 : Bound) : ∃ B, (B = B1 ∨ B = B2) ∧ ∀ x, satU B x → satU B1 x ∧ satU B2 x := by
  rcases B1 with _ | ⟨b1, s1⟩
  · exact ⟨B2, Or.inr rfl, fun x h => ⟨trivial, h⟩⟩
  rcases B2 with _ | ⟨b2, s2⟩
  · exact ⟨_, Or.inl rfl, fun x h => ⟨h, trivial⟩⟩
  rcases lt_trichotomy b1 b2 with h | h | h
  · refine ⟨some (b1, s1), Or.inl rfl, fun x hx => ⟨hx, ?_⟩⟩
    cases s1 <;> cases s2 <;> simp only [satU] at hx ⊢ <;> linarith
  · subst h
    cases s1
    · exact ⟨some (b1, s2), Or.inr rfl, fun x hx => ⟨by cases s2 <;> simp only [satU] at hx ⊢ <;> linarith, hx⟩⟩
    · exact ⟨some (b1, true), Or.inl rfl, fun x hx => ⟨hx, by cases s2 <;> simp only [satU] at hx ⊢ <;> linarith⟩⟩
  · refine ⟨some (b2, s2), Or.inr rfl, fun x hx => ⟨?_, hx⟩⟩
    cases s1 <;> cases s2 <;> simp only [satU] at hx ⊢ <;> linarith

/-- ℚ is dense and unbounded: a compatible pair of bounds has a point -/
theorem exists_point1 (A B : Bound) (h : compat A B) : ∃ x, satL A x ∧ satU B x := by
  rcases A with _ | ⟨a, sa⟩ <;> rcases B with _ | ⟨b, sb⟩
  · exact ⟨0, trivial, trivial⟩
  · exact ⟨b - 1, trivial, by cases sb <;> simp only [satU] <;> linarith⟩
  · exact ⟨a + 1, by cases sa <;> simp only [satL] <;> linarith, trivial⟩
  · by_cases hab : a < b
    · refine ⟨(a + b) / 2, ?_, ?_⟩
      · cases sa <;> simp only [satL] <;> linarith
      · cases sb <;> simp only [satU] <;> linarith
    · cases sa <;> cases sb <;> simp only [compat, Bool.or_self, Bool.or_true, Bool.true_or, if_true] at h
      · have hab' : a ≤ b := by simpa using h
        exact ⟨a, le_refl a, hab'⟩
      all_goals exact absurd h hab

/-- two lower and two upper bounds, pairwise compatible, have a common point -/
theorem exists_point (A1 A2 B1 B2 : Bound) (h11 : compat A1 B1) (h12 : compat A1 B2)
    (h21 : compat A2 B1) (h22 : compat A2 B2) :
    ∃ x, satL A1 x ∧ satL A2 x ∧ satU B1 x ∧ satU B2 x := by
  obtain ⟨A, hA, hAx⟩ := tightL A1 A2
  obtain ⟨B, hB, hBx⟩ := tightU B1 B2
  have hc : compat A B := by
    rcases hA with rfl | rfl <;> rcases hB with rfl | rfl <;> assumption
  obtain ⟨x, hxA, hxB⟩ := exists_point1 A B hc
  exact ⟨x, (hAx x hxA).1, (hAx x hxA).2, (hBx x hxB).1, (hBx x hxB).2⟩

theorem satL_reached (st : Bool) (p x : Rat) : satL (some (p, st)) x ↔ reached st p x = true := by
  cases st <;> simp [satL, reached]
theorem satU_not_reached (st : Bool) (p x : Rat) : satU (some (p, !st)) x ↔ reached st p x = false := by
  cases st <;> simp [satU, reached]

theorem compat_of_lt (a b : Rat) (sa sb : Bool) (h : a < b) : compat (some (a, sa)) (some (b, sb)) := by
  simp only [compat]; split
  · exact h
  · exact le_of_lt h

/-- **every count between the two bisect counts is realised by a point of the window** -/
theorem exists_cnt_eq (st : Bool) (idx : List Rat) (hs : idx.Pairwise (· < ·)) (A B : Bound)
    (qL qR : Rat → Bool) (hqL : DownClosed qL) (hqR : DownClosed qR) (hAB : compat A B)
    (hL : ∀ p, qL p = false → compat A (some (p, !st)))
    (hR : ∀ p, qR p = true → compat (some (p, st)) B)
    (j : Nat) (hj : j ≤ idx.length) (hLj : cnt qL idx ≤ j) (hjR : j ≤ cnt qR idx) :
    ∃ x, satL A x ∧ satU B x ∧ cnt (fun p => reached st p x) idx = j := by
  -- the step point just below (index j-1) and just above (index j) the wanted piece
  have key : ∀ (A2 B2 : Bound),
      (∀ (h : j - 1 < idx.length), 1 ≤ j → A2 = some (idx[j - 1], st)) →
      (∀ (h : j < idx.length), B2 = some (idx[j], !st)) →
      compat A B2 → compat A2 B → compat A2 B2 →
      ∃ x, satL A x ∧ satU B x ∧ cnt (fun p => reached st p x) idx = j := by
    intro A2 B2 hA2 hB2 c12 c21 c22
    obtain ⟨x, h1, h2, h3, h4⟩ := exists_point A A2 B B2 hAB c12 c21 c22
    refine ⟨x, h1, h3, ?_⟩
    apply cnt_eq_of _ (downClosed_reached st x) idx hs j hj
    · intro h hj1
      rw [hA2 h hj1] at h2
      exact (satL_reached st _ x).mp h2
    · intro h
      rw [hB2 h] at h4
      exact (satU_not_reached st _ x).mp h4
  by_cases h1 : 1 ≤ j <;> by_cases h2 : j < idx.length
  · have hj1 : j - 1 < idx.length := by omega
    apply key (some (idx[j - 1], st)) (some (idx[j], !st)) (fun _ _ => rfl) (fun _ => rfl)
    · apply hL
      have := (cnt_spec qL hqL idx hs j h2).not.mpr (by omega)
      simpa using this
    · apply hR
      exact (cnt_spec qR hqR idx hs (j - 1) hj1).mpr (by omega)
    · apply compat_of_lt
      exact (List.pairwise_iff_getElem.mp hs) (j - 1) j hj1 h2 (by omega)
  · have hj1 : j - 1 < idx.length := by omega
    apply key (some (idx[j - 1], st)) none (fun _ _ => rfl) (fun h => absurd h h2)
    · cases A <;> trivial
    · apply hR
      exact (cnt_spec qR hqR idx hs (j - 1) hj1).mpr (by omega)
    · trivial
  · apply key none (some (idx[j], !st)) (fun _ h => absurd h h1) (fun _ => rfl)
    · apply hL
      have := (cnt_spec qL hqL idx hs j h2).not.mpr (by omega)
      simpa using this
    · cases B <;> trivial
    · trivial
  · apply key none none (fun _ h => absurd h h1) (fun h => absurd h h2)
    · cases A <;> trivial
    · cases B <;> trivial
    · trivial

/-! ## `uniqueDefined` (`np.unique` of the defined values) -/

theorem mem_insertUniq (v x : Rat) (l : List Rat) : v ∈ insertUniq x l ↔ v = x ∨ v ∈ l := by
  induction l with
  | nil => simp [insertUniq]
  | cons w r ih =>
    simp only [insertUniq]
    split
    · simp
    · split
      · rename_i h; subst h; simp
      · simp only [List.mem_cons, ih]; tauto

theorem sorted_insertUniq (x : Rat) (l : List Rat) (h : l.Pairwise (· < ·)) :
    (insertUniq x l).Pairwise (· < ·) := by
  induction l with
  | nil => simp [insertUniq]
  | cons w r ih =>
    rw [List.pairwise_cons] at h
    simp only [insertUniq]
    split
    · rename_i hxw
      rw [List.pairwise_cons]
      refine ⟨?_, List.pairwise_cons.mpr h⟩
      intro y hy
      rcases List.mem_cons.mp hy with rfl | hy
      · exact hxw
      · exact lt_trans hxw (h.1 y hy)
    · split
      · exact List.pairwise_cons.mpr h
      · rename_i h1 h2
        rw [List.pairwise_cons]
        refine ⟨?_, ih h.2⟩
        intro y hy
        rcases (mem_insertUniq y x r).mp hy with rfl | hy
        · exact lt_of_le_of_ne (not_lt.mp h1) (Ne.symm h2)
        · exact h.1 y hy

/-- one step of `uniqueDefined` -/
def uStep (acc : List Rat) (v : Val) : List Rat :=
  match v with | some x => insertUniq x acc | none => acc

theorem uniqueDefined_eq (vs : List Val) : uniqueDefined vs = vs.foldl uStep [] := rfl

theorem mem_uniqueDefined_aux (vs : List Val) (acc : List Rat) (v : Rat) :
    v ∈ vs.foldl uStep acc ↔ v ∈ acc ∨ some v ∈ vs := by
  induction vs generalizing acc with
  | nil => simp
  | cons w r ih =>
    rw [List.foldl_cons, ih]
    cases w with
    | none => simp [uStep]
    | some x => simp only [uStep, mem_insertUniq, List.mem_cons, Option.some.injEq]; tauto

/-- `uniqueDefined` keeps exactly the defined values -/
theorem mem_uniqueDefined (vs : List Val) (v : Rat) : v ∈ uniqueDefined vs ↔ some v ∈ vs := by
  rw [uniqueDefined_eq, mem_uniqueDefined_aux]; simp

theorem sorted_uniqueDefined_aux (vs : List Val) (acc : List Rat) (h : acc.Pairwise (· < ·)) :
    (vs.foldl uStep acc).Pairwise (· < ·) := by
  induction vs generalizing acc with
  | nil => exact h
  | cons w r ih =>
    rw [List.foldl_cons]
    cases w with
    | none => exact ih acc h
    | some x => exact ih _ (sorted_insertUniq x acc h)

/-- … strictly increasing, hence without duplicates -/
theorem sorted_uniqueDefined (vs : List Val) : (uniqueDefined vs).Pairwise (· < ·) := by
  rw [uniqueDefined_eq]; exact sorted_uniqueDefined_aux vs [] List.Pairwise.nil

/-! ## `listMin` / `listMax` -/

theorem foldl_min_spec_w (r : List Rat) (x : Rat) :
    let m := r.foldl (fun a b => if b < a then b else a) x
    (m = x ∨ m ∈ r) ∧ m ≤ x ∧ ∀ y ∈ r, m ≤ y := by
  induction r generalizing x with
  | nil => simp
  | cons b r ih =>
    simp only [List.foldl_cons]
    by_cases h : b < x
    · simp only [h, if_true]
      obtain ⟨h1, h2, h3⟩ := ih b
      refine ⟨?_, le_trans h2 (le_of_lt h), ?_⟩
      · rcases h1 with h1 | h1
        · exact Or.inr (by rw [h1]; simp)
        · exact Or.inr (List.mem_cons_of_mem _ h1)
      · intro y hy
        rcases List.mem_cons.mp hy with rfl | hy
        · exact h2
        · exact h3 y hy
    · simp only [h, if_false]
      obtain ⟨h1, h2, h3⟩ := ih x
      refine ⟨?_, h2, ?_⟩
      · rcases h1 with h1 | h1
        · exact Or.inl h1
        · exact Or.inr (List.mem_cons_of_mem _ h1)
      · intro y hy
        rcases List.mem_cons.mp hy with rfl | hy
        · exact le_trans h2 (not_lt.mp h)
        · exact h3 y hy

theorem foldl_max_spec_w (r : List Rat) (x : Rat) :
    let m := r.foldl (fun a b => if a < b then b else a) x
    (m = x ∨ m ∈ r) ∧ x ≤ m ∧ ∀ y ∈ r, y ≤ m := by
  induction r generalizing x with
  | nil => simp
  | cons b r ih =>
    simp only [List.foldl_cons]
    by_cases h : x < b
    · simp only [h, if_true]
      obtain ⟨h1, h2, h3⟩ := ih b
      refine ⟨?_, le_trans (le_of_lt h) h2, ?_⟩
      · rcases h1 with h1 | h1
        · exact Or.inr (by rw [h1]; simp)
        · exact Or.inr (List.mem_cons_of_mem _ h1)
      · intro y hy
        rcases List.mem_cons.mp hy with rfl | hy
        · exact h2
        · exact h3 y hy
    · simp only [h, if_false]
      obtain ⟨h1, h2, h3⟩ := ih x
      refine ⟨?_, h2, ?_⟩
      · rcases h1 with h1 | h1
        · exact Or.inl h1
        · exact Or.inr (List.mem_cons_of_mem _ h1)
      · intro y hy
        rcases List.mem_cons.mp hy with rfl | hy
        · exact le_trans (not_lt.mp h) h2
        · exact h3 y hy

theorem listMin_eq_none (l : List Rat) : listMin l = none ↔ l = [] := by
  cases l <;> simp [listMin]
theorem listMax_eq_none (l : List Rat) : listMax l = none ↔ l = [] := by
  cases l <;> simp [listMax]

/-- `listMin` returns a member that is ≤ every member -/
theorem listMin_spec_w (l : List Rat) (m : Rat) (h : listMin l = some m) : m ∈ l ∧ ∀ y ∈ l, m ≤ y := by
  cases l with
  | nil => simp [listMin] at h
  | cons x r =>
    simp only [listMin, Option.some.injEq] at h
    obtain ⟨h1, h2, h3⟩ := foldl_min_spec_w r x
    simp only [h] at h1 h2 h3
    refine ⟨?_, ?_⟩
    · rcases h1 with h1 | h1
      · rw [h1]; simp
      · exact List.mem_cons_of_mem _ h1
    · intro y hy
      rcases List.mem_cons.mp hy with rfl | hy
      · exact h2
      · exact h3 y hy

/-- `listMax` returns a member that is ≥ every member -/
theorem listMax_spec_w (l : List Rat) (m : Rat) (h : listMax l = some m) : m ∈ l ∧ ∀ y ∈ l, y ≤ m := by
  cases l with
  | nil => simp [listMax] at h
  | cons x r =>
    simp only [listMax, Option.some.injEq] at h
    obtain ⟨h1, h2, h3⟩ := foldl_max_spec_w r x
    simp only [h] at h1 h2 h3
    refine ⟨?_, ?_⟩
    · rcases h1 with h1 | h1
      · rw [h1]; simp
      · exact List.mem_cons_of_mem _ h1
    · intro y hy
      rcases List.mem_cons.mp hy with rfl | hy
      · exact h2
      · exact h3 y hy

/-- a least member is unique, so `listMin` is *the* least member -/
theorem listMin_eq_some_iff (l : List Rat) (m : Rat) : listMin l = some m ↔ m ∈ l ∧ ∀ y ∈ l, m ≤ y := by
  constructor
  · exact listMin_spec_w l m
  · intro ⟨hm, hle⟩
    cases h : listMin l with
    | none => rw [(listMin_eq_none l).mp h] at hm; simp at hm
    | some m' =>
      obtain ⟨h1, h2⟩ := listMin_spec_w l m' h
      rw [le_antisymm (h2 m hm) (hle m' h1)]

theorem listMax_eq_some_iff (l : List Rat) (m : Rat) : listMax l = some m ↔ m ∈ l ∧ ∀ y ∈ l, y ≤ m := by
  constructor
  · exact listMax_spec_w l m
  · intro ⟨hm, hle⟩
    cases h : listMax l with
    | none => rw [(listMax_eq_none l).mp h] at hm; simp at hm
    | some m' =>
      obtain ⟨h1, h2⟩ := listMax_spec_w l m' h
      rw [le_antisymm (hle m' h1) (h2 m hm)]

/-! ## `valuesInRange` -/

/-- is the lower / upper end of a `c`-closed interval open? -/
def loStrict : IClosed → Bool
  | .left => false | .both => false | .right => true | .neither => true
def hiStrict : IClosed → Bool
  | .right => false | .both => false | .left => true | .neither => true

/-- **the specification of a window**: `x` lies in the interval from `lo` to `hi` (`none` = unbounded)
whose endpoints are closed as `c` says -/
def inInterval (c : IClosed) (lo hi : Option Rat) (x : Rat) : Prop :=
  (match lo with | none => True | some a => if loStrict c then a < x else a ≤ x) ∧
  (match hi with | none => True | some b => if hiStrict c then x < b else x ≤ b)

instance (c : IClosed) (lo hi : Option Rat) (x : Rat) : Decidable (inInterval c lo hi x) := by
  unfold inInterval; cases lo <;> cases hi <;> infer_instance

def loBound (c : IClosed) (lo : Option Rat) : Bound := lo.map fun a => (a, loStrict c)
def hiBound (c : IClosed) (hi : Option Rat) : Bound := hi.map fun b => (b, hiStrict c)

theorem inInterval_iff_sat (c : IClosed) (lo hi : Option Rat) (x : Rat) :
    inInterval c lo hi x ↔ satL (loBound c lo) x ∧ satU (hiBound c hi) x := by
  cases lo <;> cases hi <;> cases c <;> simp [inInterval, loBound, hiBound, satL, satU, loStrict, hiStrict]

/-- the predicate counted by the lower / upper bisect -/
def qLow (side : Side) (lo : Option Rat) : Rat → Bool := fun p =>
  match lo with
  | none => false
  | some a => match side with | .left => decide (p < a) | .right => decide (p ≤ a)
def qUp (side : Side) (hi : Option Rat) : Rat → Bool := fun p =>
  match hi with
  | none => true
  | some b => match side with | .left => decide (p < b) | .right => decide (p ≤ b)

/-- `bisect_left` counts the points `< x`, `bisect_right` the points `≤ x`; −∞ counts none -/
theorem bisect_lower (side : Side) (idx : List Rat) (lo : Option Rat) :
    bisect side idx lo false = cnt (qLow side lo) idx := by
  cases lo with
  | none => cases side <;> exact (cnt_false idx).symm
  | some a => cases side <;> rfl
/-- … and +∞ counts all -/
theorem bisect_upper (side : Side) (idx : List Rat) (hi : Option Rat) :
    bisect side idx hi true = cnt (qUp side hi) idx := by
  cases hi with
  | none => cases side <;> exact (cnt_true idx).symm
  | some a => cases side <;> rfl

theorem cnt_qLow_none (side : Side) (idx : List Rat) : cnt (qLow side none) idx = 0 := cnt_false idx
theorem cnt_qUp_none (side : Side) (idx : List Rat) : cnt (qUp side none) idx = idx.length := cnt_true idx

theorem downClosed_qLow (side : Side) (lo : Option Rat) : DownClosed (qLow side lo) := by
  intro p p' hpp h
  cases lo <;> cases side <;> simp [qLow] at h ⊢ <;> linarith
theorem downClosed_qUp (side : Side) (hi : Option Rat) : DownClosed (qUp side hi) := by
  intro p p' hpp h
  cases hi <;> cases side <;> simp [qUp] at h ⊢ <;> linarith

/-- the slice taken by `valuesInRange`, with the index shifted by one so that entry 0 is the initial value -/
theorem valuesInRange_eq (f : Stairs Rat) (lo hi : Option Rat) (c : IClosed) :
    valuesInRange f lo hi c = uniqueDefined
      (((f.init :: f.steps.map Prod.snd).take (bisect (getLims f.closed c).2 f.idx hi true + 1)).drop
        (bisect (getLims f.closed c).1 f.idx lo false)) := by
  unfold valuesInRange
  split
  · rename_i h
    have : f.idx = [] := by simp [idx, h]
    rw [this, h, bisect_lower, bisect_upper]; simp
  · generalize getLims f.closed c = lims
    obtain ⟨lh, uh⟩ := lims
    simp only
    generalize bisect lh f.idx lo false = L
    generalize bisect uh f.idx hi true = R
    congr 1
    cases L with
    | zero => simp
    | succ n =>
      have h1 : ¬ (((n + 1 : Nat) : Int) - 1 < 0) := by omega
      have h2 : (((n + 1 : Nat) : Int) - 1).toNat = n := by omega
      simp only [h1, h2, if_false, List.take_succ_cons, List.drop_succ_cons]

theorem mem_take_drop {α : Type} (l : List α) (L R : Nat) (w : α) :
    w ∈ (l.take (R + 1)).drop L ↔ ∃ j, L ≤ j ∧ j ≤ R ∧ l[j]? = some w := by
  rw [List.mem_iff_getElem?]
  constructor
  · rintro ⟨i, hi⟩
    rw [List.getElem?_drop, List.getElem?_take] at hi
    split at hi
    · exact ⟨L + i, by omega, by omega, hi⟩
    · cases hi
  · rintro ⟨j, h1, h2, h3⟩
    refine ⟨j - L, ?_⟩
    rw [List.getElem?_drop, List.getElem?_take]
    have : L + (j - L) = j := by omega
    rw [this, if_pos (by omega)]; exact h3

/-- which one-sided limit `sample` takes -/
def sampleSt : Side → Bool
  | .left => false
  | .right => true

theorem sample_eq_lim (f : Stairs Rat) (x : Rat) : f.sample x = lim (sampleSt f.closed) f.init f.steps x := by
  rw [sample_eq_den]; unfold Den sampleSt; cases f.closed <;> rfl

/-- the table `getLims` is right, part 1: inside the interval every point counted by the lower bisect is
reached, and every reached point is counted by the upper bisect -/
theorem getLims_sound (cl : Side) (c : IClosed) (lo hi : Option Rat) (x p : Rat) (hx : inInterval c lo hi x) :
    (qLow (getLims cl c).1 lo p = true → reached (sampleSt cl) p x = true) ∧
    (reached (sampleSt cl) p x = true → qUp (getLims cl c).2 hi p = true) := by
  cases cl <;> cases c <;> cases lo <;> cases hi <;>
    simp [inInterval, loStrict, hiStrict, getLims, qLow, qUp, sampleSt, reached] at hx ⊢ <;>
    (try constructor) <;> intros <;> linarith

/-- part 2: a point not counted by the lower bisect / counted by the upper bisect leaves room in the interval -/
theorem getLims_complete (cl : Side) (c : IClosed) (lo hi : Option Rat) (p : Rat) :
    (qLow (getLims cl c).1 lo p = false → compat (loBound c lo) (some (p, !sampleSt cl))) ∧
    (qUp (getLims cl c).2 hi p = true → compat (some (p, sampleSt cl)) (hiBound c hi)) := by
  cases cl <;> cases c <;> cases lo <;> cases hi <;>
    simp [loStrict, hiStrict, getLims, qLow, qUp, sampleSt, compat, loBound, hiBound]

theorem compat_bounds (c : IClosed) (lo hi : Option Rat) (hb : boundsOk lo hi = true) :
    compat (loBound c lo) (hiBound c hi) := by
  cases lo <;> cases hi <;> simp [compat, loBound, hiBound]
  rename_i a b
  have : a < b := by simpa [boundsOk] using hb
  split
  · exact this
  · exact le_of_lt this

/-- **C10, main theorem.** For a well-formed `f`, every closed convention of `f`, every interval closedness
and all bounds `lo < hi` (either may be missing): `values_in_range` is exactly the set of values `f` takes at
defined points of the interval. -/
theorem mem_valuesInRange (f : Stairs Rat) (hf : f.WF) (lo hi : Option Rat) (c : IClosed)
    (hb : boundsOk lo hi = true) (v : Rat) :
    v ∈ valuesInRange f lo hi c ↔ ∃ x, inInterval c lo hi x ∧ f.sample x = some v := by
  rw [valuesInRange_eq, mem_uniqueDefined, mem_take_drop, bisect_lower, bisect_upper]
  have hs : f.idx.Pairwise (· < ·) := hf
  have hget : ∀ x, (f.init :: f.steps.map Prod.snd)[cnt (fun p => reached (sampleSt f.closed) p x) f.idx]?
      = some (f.sample x) := fun x => by
    rw [sample_eq_lim]; exact lim_eq_getElem _ f.init f.steps hf x
  constructor
  · rintro ⟨j, hLj, hjR, hj⟩
    have hjn : j ≤ f.idx.length := by
      have := (List.getElem?_eq_some_iff.mp hj).1
      simp [idx] at this ⊢; omega
    obtain ⟨x, hx1, hx2, hx3⟩ := exists_cnt_eq (sampleSt f.closed) f.idx hs (loBound c lo) (hiBound c hi)
      _ _ (downClosed_qLow _ lo) (downClosed_qUp _ hi) (compat_bounds c lo hi hb)
      (fun p => (getLims_complete f.closed c lo hi p).1) (fun p => (getLims_complete f.closed c lo hi p).2)
      j hjn hLj hjR
    refine ⟨x, (inInterval_iff_sat c lo hi x).mpr ⟨hx1, hx2⟩, ?_⟩
    have := hget x
    rw [hx3, hj] at this
    exact (Option.some.inj this).symm
  · rintro ⟨x, hx, hv⟩
    refine ⟨cnt (fun p => reached (sampleSt f.closed) p x) f.idx, ?_, ?_, ?_⟩
    · exact cnt_mono _ _ _ (fun p _ => (getLims_sound f.closed c lo hi x p hx).1)
    · exact cnt_mono _ _ _ (fun p _ => (getLims_sound f.closed c lo hi x p hx).2)
    · rw [hget x, hv]

/-! ## least / greatest value of a set of rationals, as an optional value -/

/-- the values `f` takes at defined points of the `c`-closed interval from `lo` to `hi` -/
def ValuesOn (f : Stairs Rat) (c : IClosed) (lo hi : Option Rat) : Rat → Prop :=
  fun w => ∃ x, inInterval c lo hi x ∧ f.sample x = some w

/-- `m` is the least element of `S` (`none`: `S` is empty) -/
def IsLeastVal (S : Rat → Prop) (m : Val) : Prop :=
  match m with
  | none => ∀ w, ¬ S w
  | some q => S q ∧ ∀ w, S w → q ≤ w
/-- `m` is the greatest element of `S` (`none`: `S` is empty) -/
def IsGreatestVal (S : Rat → Prop) (m : Val) : Prop :=
  match m with
  | none => ∀ w, ¬ S w
  | some q => S q ∧ ∀ w, S w → w ≤ q

theorem isLeastVal_listMin (S : Rat → Prop) (l : List Rat) (h : ∀ w, w ∈ l ↔ S w) : IsLeastVal S (listMin l) := by
  cases hm : listMin l with
  | none =>
    rw [(listMin_eq_none l).mp hm] at h
    intro w hw; exact absurd ((h w).mpr hw) (by simp)
  | some q =>
    obtain ⟨h1, h2⟩ := listMin_spec_w l q hm
    exact ⟨(h q).mp h1, fun w hw => h2 w ((h w).mpr hw)⟩

theorem isGreatestVal_listMax (S : Rat → Prop) (l : List Rat) (h : ∀ w, w ∈ l ↔ S w) : IsGreatestVal S (listMax l) := by
  cases hm : listMax l with
  | none =>
    rw [(listMax_eq_none l).mp hm] at h
    intro w hw; exact absurd ((h w).mpr hw) (by simp)
  | some q =>
    obtain ⟨h1, h2⟩ := listMax_spec_w l q hm
    exact ⟨(h q).mp h1, fun w hw => h2 w ((h w).mpr hw)⟩

/-- least / greatest elements are unique -/
theorem isLeastVal_unique (S : Rat → Prop) (m m' : Val) (h : IsLeastVal S m) (h' : IsLeastVal S m') : m = m' := by
  cases m <;> cases m' <;> simp only [IsLeastVal] at h h'
  · rfl
  · exact absurd h'.1 (h _)
  · exact absurd h.1 (h' _)
  · rw [le_antisymm (h.2 _ h'.1) (h'.2 _ h.1)]
theorem isGreatestVal_unique (S : Rat → Prop) (m m' : Val) (h : IsGreatestVal S m) (h' : IsGreatestVal S m') : m = m' := by
  cases m <;> cases m' <;> simp only [IsGreatestVal] at h h'
  · rfl
  · exact absurd h'.1 (h _)
  · exact absurd h.1 (h' _)
  · rw [le_antisymm (h'.2 _ h.1) (h.2 _ h'.1)]

theorem isLeastVal_congr (S S' : Rat → Prop) (m : Val) (h : ∀ w, S w ↔ S' w) (hm : IsLeastVal S m) : IsLeastVal S' m := by
  have : S = S' := funext fun w => propext (h w)
  rw [← this]; exact hm
theorem isGreatestVal_congr (S S' : Rat → Prop) (m : Val) (h : ∀ w, S w ↔ S' w) (hm : IsGreatestVal S m) : IsGreatestVal S' m := by
  have : S = S' := funext fun w => propext (h w)
  rw [← this]; exact hm

/-- **`min` over a window** is the least value taken at a defined point of the interval -/
theorem minIn_isLeast (f : Stairs Rat) (hf : f.WF) (lo hi : Option Rat) (c : IClosed) (hb : boundsOk lo hi = true) :
    IsLeastVal (ValuesOn f c lo hi) (minIn f lo hi c) :=
  isLeastVal_listMin _ _ (fun w => mem_valuesInRange f hf lo hi c hb w)
/-- **`max` over a window** is the greatest value taken at a defined point of the interval -/
theorem maxIn_isGreatest (f : Stairs Rat) (hf : f.WF) (lo hi : Option Rat) (c : IClosed) (hb : boundsOk lo hi = true) :
    IsGreatestVal (ValuesOn f c lo hi) (maxIn f lo hi c) :=
  isGreatestVal_listMax _ _ (fun w => mem_valuesInRange f hf lo hi c hb w)

/-! ## slicing: `fmaxV` / `fminV`, `slicerExtreme` -/

theorem fmaxV_none_right (a : Val) : fmaxV a none = a := by cases a <;> rfl
theorem fmaxV_none_left (b : Val) : fmaxV none b = b := rfl
theorem fmaxV_some (a b : Rat) : fmaxV (some a) (some b) = some (max a b) := by
  simp only [fmaxV, max_def]
  by_cases h : a < b
  · rw [if_pos h, if_pos (le_of_lt h)]
  · rw [if_neg h]
    by_cases h' : a ≤ b
    · rw [if_pos h', le_antisymm h' (not_lt.mp h)]
    · rw [if_neg h']
theorem fminV_none_right (a : Val) : fminV a none = a := by cases a <;> rfl
theorem fminV_none_left (b : Val) : fminV none b = b := rfl
theorem fminV_some (a b : Rat) : fminV (some a) (some b) = some (min a b) := by
  simp only [fminV, min_def]
  by_cases h : b < a
  · rw [if_pos h, if_neg (not_le.mpr h)]
  · rw [if_neg h, if_pos (not_lt.mp h)]

theorem fmaxV_comm (a b : Val) : fmaxV a b = fmaxV b a := by
  cases a <;> cases b <;> simp only [fmaxV_none_left, fmaxV_none_right, fmaxV_some, max_comm]
theorem fminV_comm (a b : Val) : fminV a b = fminV b a := by
  cases a <;> cases b <;> simp only [fminV_none_left, fminV_none_right, fminV_some, min_comm]
theorem fmaxV_assoc (a b c : Val) : fmaxV (fmaxV a b) c = fmaxV a (fmaxV b c) := by
  cases a <;> cases b <;> cases c <;> simp only [fmaxV_none_left, fmaxV_none_right, fmaxV_some, max_assoc]
theorem fminV_assoc (a b c : Val) : fminV (fminV a b) c = fminV a (fminV b c) := by
  cases a <;> cases b <;> cases c <;> simp only [fminV_none_left, fminV_none_right, fminV_some, min_assoc]
theorem fmaxV_idem (a : Val) : fmaxV a a = a := by
  cases a <;> simp only [fmaxV_none_left, fmaxV_some, max_self]
theorem fminV_idem (a : Val) : fminV a a = a := by
  cases a <;> simp only [fminV_none_left, fminV_some, min_self]

/-- adding one more (possibly undefined) value to a set: the greatest element is combined with `fmaxV` -/
theorem isGreatestVal_insert (S : Rat → Prop) (m y : Val) (h : IsGreatestVal S m) :
    IsGreatestVal (fun w => S w ∨ y = some w) (fmaxV m y) := by
  cases y with
  | none => rw [fmaxV_none_right]; exact isGreatestVal_congr S _ m (fun w => by simp) h
  | some b =>
    cases m with
    | none =>
      rw [fmaxV_none_left]
      refine ⟨Or.inr rfl, fun w hw => ?_⟩
      rcases hw with hw | hw
      · exact absurd hw (h w)
      · rw [Option.some.inj hw]
    | some a =>
      rw [fmaxV_some]
      obtain ⟨h1, h2⟩ := h
      refine ⟨?_, fun w hw => ?_⟩
      · rcases le_total a b with hab | hab
        · rw [max_eq_right hab]; exact Or.inr rfl
        · rw [max_eq_left hab]; exact Or.inl h1
      · rcases hw with hw | hw
        · exact le_trans (h2 w hw) (le_max_left a b)
        · rw [← Option.some.inj hw]; exact le_max_right a b

theorem isLeastVal_insert (S : Rat → Prop) (m y : Val) (h : IsLeastVal S m) :
    IsLeastVal (fun w => S w ∨ y = some w) (fminV m y) := by
  cases y with
  | none => rw [fminV_none_right]; exact isLeastVal_congr S _ m (fun w => by simp) h
  | some b =>
    cases m with
    | none =>
      rw [fminV_none_left]
      refine ⟨Or.inr rfl, fun w hw => ?_⟩
      rcases hw with hw | hw
      · exact absurd hw (h w)
      · rw [Option.some.inj hw]
    | some a =>
      rw [fminV_some]
      obtain ⟨h1, h2⟩ := h
      refine ⟨?_, fun w hw => ?_⟩
      · rcases le_total a b with hab | hab
        · rw [min_eq_left hab]; exact Or.inl h1
        · rw [min_eq_right hab]; exact Or.inr rfl
      · rcases hw with hw | hw
        · exact le_trans (min_le_left a b) (h2 w hw)
        · rw [← Option.some.inj hw]; exact min_le_right a b

/-- two interval closednesses that use the same row of bisect sides see the same values: e.g. for a
left-closed function the value at a closed lower endpoint is also taken just right of it -/
theorem valuesOn_congr_of_getLims (f : Stairs Rat) (hf : f.WF) (lo hi : Option Rat) (hb : boundsOk lo hi = true)
    (c c' : IClosed) (h : getLims f.closed c = getLims f.closed c') (w : Rat) :
    ValuesOn f c lo hi w ↔ ValuesOn f c' lo hi w := by
  unfold ValuesOn
  rw [← mem_valuesInRange f hf lo hi c hb, ← mem_valuesInRange f hf lo hi c' hb,
    valuesInRange_eq, valuesInRange_eq, h]

/-- the value at `x` of a clipped function -/
theorem sample_clip (f s : Stairs Rat) (hf : f.WF) (lo hi : Option Rat) (hb : boundsOk lo hi = true)
    (hs : clip f lo hi = .ok s) (x : Rat) :
    s.sample x = if inWindow (sampleSt f.closed) lo hi x then f.sample x else none := by
  have hc := (canonical_clip f lo hi hf hb s hs).2
  rw [sample_eq_den, sample_eq_den, hc, den_clip f lo hi hf hb s hs]
  cases f.closed <;> rfl

/-- the window the `sample`-sided limit of a clip sees is the interval closed on f's own side -/
theorem inWindow_iff_inInterval (cl : Side) (lo hi : Option Rat) (x : Rat) :
    inWindow (sampleSt cl) lo hi x = true ↔ inInterval (defaultIClosed cl) lo hi x := by
  cases cl <;> cases lo <;> cases hi <;>
    simp [inWindow, sampleSt, inInterval, defaultIClosed, reached, loStrict, hiStrict]

/-- **a slice takes exactly the values `f` takes on the interval closed on f's own side** -/
theorem valuesOn_clip (f s : Stairs Rat) (hf : f.WF) (lo hi : Option Rat) (hb : boundsOk lo hi = true)
    (hs : clip f lo hi = .ok s) (c : IClosed) (w : Rat) :
    ValuesOn s c none none w ↔ ValuesOn f (defaultIClosed f.closed) lo hi w := by
  unfold ValuesOn
  constructor
  · rintro ⟨x, _, hx⟩
    rw [sample_clip f s hf lo hi hb hs] at hx
    split at hx
    · rename_i hw
      exact ⟨x, (inWindow_iff_inInterval _ _ _ _).mp hw, hx⟩
    · cases hx
  · rintro ⟨x, hx, hv⟩
    refine ⟨x, by simp [inInterval], ?_⟩
    rw [sample_clip f s hf lo hi hb hs, if_pos ((inWindow_iff_inInterval _ _ _ _).mpr hx)]
    exact hv

/-- the sample `slicerExtreme` adds: the value at the closed endpoint the slice cannot see -/
def endpointSample (f : Stairs Rat) (c : IClosed) (iv : Iv) : Val :=
  match slicerEndpoint f.closed c with
  | none => none
  | some .right => f.sample iv.2
  | some .left => f.sample iv.1

/-- **the interval with closedness `c` = the interval closed on f's own side, plus possibly one endpoint** -/
theorem valuesOn_slicer (f : Stairs Rat) (hf : f.WF) (c : IClosed) (iv : Iv) (h : iv.1 < iv.2) (w : Rat) :
    ValuesOn f c (some iv.1) (some iv.2) w ↔
      ValuesOn f (defaultIClosed f.closed) (some iv.1) (some iv.2) w ∨ endpointSample f c iv = some w := by
  obtain ⟨l, r⟩ := iv
  simp only at h
  have hb : boundsOk (some l) (some r) = true := by simp [boundsOk, h]
  -- adding the closed upper endpoint
  have addR : ∀ w, ValuesOn f .both (some l) (some r) w ↔
      ValuesOn f .left (some l) (some r) w ∨ f.sample r = some w := by
    intro w
    simp only [ValuesOn, inInterval, loStrict, hiStrict]
    constructor
    · rintro ⟨x, ⟨h1, h2⟩, hv⟩
      rcases lt_or_eq_of_le (show x ≤ r by simpa using h2) with hlt | heq
      · exact Or.inl ⟨x, ⟨h1, by simpa using hlt⟩, hv⟩
      · exact Or.inr (heq ▸ hv)
    · rintro (⟨x, ⟨h1, h2⟩, hv⟩ | hv)
      · exact ⟨x, ⟨h1, by simpa using le_of_lt (show x < r by simpa using h2)⟩, hv⟩
      · exact ⟨r, ⟨by simpa using le_of_lt h, by simp⟩, hv⟩
  -- adding the closed lower endpoint
  have addL : ∀ w, ValuesOn f .both (some l) (some r) w ↔
      ValuesOn f .right (some l) (some r) w ∨ f.sample l = some w := by
    intro w
    simp only [ValuesOn, inInterval, loStrict, hiStrict]
    constructor
    · rintro ⟨x, ⟨h1, h2⟩, hv⟩
      rcases lt_or_eq_of_le (show l ≤ x by simpa using h1) with hlt | heq
      · exact Or.inl ⟨x, ⟨by simpa using hlt, h2⟩, hv⟩
      · exact Or.inr (heq ▸ hv)
    · rintro (⟨x, ⟨h1, h2⟩, hv⟩ | hv)
      · exact ⟨x, ⟨by simpa using le_of_lt (show l < x by simpa using h1), h2⟩, hv⟩
      · exact ⟨l, ⟨by simp, by simpa using le_of_lt h⟩, hv⟩
  cases hc : f.closed <;> cases c <;>
    simp only [endpointSample, slicerEndpoint, defaultIClosed, hc, or_false, reduceCtorEq]
  · -- left-closed, 'right': same row as 'both'
    rw [valuesOn_congr_of_getLims f hf _ _ hb .right .both (by rw [hc]; rfl)]; exact addR w
  · exact addR w
  · exact valuesOn_congr_of_getLims f hf _ _ hb .neither .left (by rw [hc]; rfl) w
  · -- right-closed, 'left': same row as 'both'
    rw [valuesOn_congr_of_getLims f hf _ _ hb .left .both (by rw [hc]; rfl)]; exact addL w
  · exact addL w
  · exact valuesOn_congr_of_getLims f hf _ _ hb .neither .right (by rw [hc]; rfl) w

theorem slicerExtreme_eq (isMax : Bool) (f s : Stairs Rat) (c : IClosed) (iv : Iv)
    (hs : clip f (some iv.1) (some iv.2) = .ok s) :
    slicerExtreme isMax f c iv = .ok
      ((if isMax then fmaxV else fminV)
        (if isMax then maxIn s none none (defaultIClosed s.closed) else minIn s none none (defaultIClosed s.closed))
        (endpointSample f c iv)) := by
  unfold slicerExtreme endpointSample
  rw [hs]
  cases slicerEndpoint f.closed c with
  | none => cases isMax <;> simp [fmaxV_none_right, fminV_none_right]
  | some sd => cases sd <;> rfl

/-- **slicer max**: the greatest value `f` takes at a defined point of the interval `iv` with closedness `c` -/
theorem slicerExtreme_max_spec (f : Stairs Rat) (hf : f.WF) (c : IClosed) (iv : Iv) (h : iv.1 < iv.2) :
    ∃ m, slicerExtreme true f c iv = .ok m ∧ IsGreatestVal (ValuesOn f c (some iv.1) (some iv.2)) m := by
  have hb : boundsOk (some iv.1) (some iv.2) = true := by simp [boundsOk, h]
  have hs := clip_ok f (some iv.1) (some iv.2) hb
  generalize combine whereOp f (indicator (some iv.1) (some iv.2) f.closed) f.closed = s at hs
  have hsw : s.WF := (canonical_clip f _ _ hf hb s hs).1.1
  refine ⟨_, slicerExtreme_eq true f s c iv hs, ?_⟩
  simp only [if_true]
  have h1 := maxIn_isGreatest s hsw none none (defaultIClosed s.closed) rfl
  have h2 := isGreatestVal_congr _ _ _ (valuesOn_clip f s hf _ _ hb hs _) h1
  have h3 := isGreatestVal_insert _ _ (endpointSample f c iv) h2
  exact isGreatestVal_congr _ _ _ (fun w => (valuesOn_slicer f hf c iv h w).symm) h3

/-- **slicer min**: the least value `f` takes at a defined point of the interval `iv` with closedness `c` -/
theorem slicerExtreme_min_spec (f : Stairs Rat) (hf : f.WF) (c : IClosed) (iv : Iv) (h : iv.1 < iv.2) :
    ∃ m, slicerExtreme false f c iv = .ok m ∧ IsLeastVal (ValuesOn f c (some iv.1) (some iv.2)) m := by
  have hb : boundsOk (some iv.1) (some iv.2) = true := by simp [boundsOk, h]
  have hs := clip_ok f (some iv.1) (some iv.2) hb
  generalize combine whereOp f (indicator (some iv.1) (some iv.2) f.closed) f.closed = s at hs
  have hsw : s.WF := (canonical_clip f _ _ hf hb s hs).1.1
  refine ⟨_, slicerExtreme_eq false f s c iv hs, ?_⟩
  simp only [Bool.false_eq_true, if_false]
  have h1 := minIn_isLeast s hsw none none (defaultIClosed s.closed) rfl
  have h2 := isLeastVal_congr _ _ _ (valuesOn_clip f s hf _ _ hb hs _) h1
  have h3 := isLeastVal_insert _ _ (endpointSample f c iv) h2
  exact isLeastVal_congr _ _ _ (fun w => (valuesOn_slicer f hf c iv h w).symm) h3

/-- on a degenerate or reversed interval the slicer extreme is a `ValueError` (from `clip`) -/
theorem slicerExtreme_error (isMax : Bool) (f : Stairs Rat) (c : IClosed) (iv : Iv) (h : ¬ iv.1 < iv.2) :
    slicerExtreme isMax f c iv = .error .valueError := by
  unfold slicerExtreme
  rw [clip_error f (some iv.1) (some iv.2) (by simp [boundsOk, h])]; rfl

/-! ## `layer` on proper intervals, `resampleWith` -/

theorem wf_startRay_w (s : Option Rat) (v : Rat) (cl : Side) : (startRay s v cl).WF := by
  cases s <;> simp [startRay, WF, Sorted]
theorem wf_stopRay_w (e : Option Rat) (v : Rat) (cl : Side) : (stopRay e v cl).WF := by
  cases e <;> simp [stopRay, WF, Sorted]

theorem den_startRay_some (a v : Rat) (cl : Side) (st : Bool) (x : Rat) :
    Den (startRay (some a) v cl) st x = some (if reached st a x then v else 0) := by
  simp only [startRay, Den, lim_cons, lim_nil]; cases reached st a x <;> simp
theorem den_stopRay_some (b v : Rat) (cl : Side) (st : Bool) (x : Rat) :
    Den (stopRay (some b) v cl) st x = some (if reached st b x then v else 0) := by
  simp only [stopRay, Den, lim_cons, lim_nil]; cases reached st b x <;> simp

theorem wf_layer1_w (g : Stairs Rat) (hg : g.WF) (t : Triple Rat) : (layer1 g t).WF :=
  wf_combine _ _ _ _ (wf_combine _ _ _ _ hg (wf_startRay_w _ _ _)) (wf_stopRay_w _ _ _)
theorem closed_layer1_w (g : Stairs Rat) (t : Triple Rat) : (layer1 g t).closed = g.closed := rfl

theorem wf_layer_w (g : Stairs Rat) (hg : g.WF) (ts : List (Triple Rat)) : (layer g ts).WF := by
  induction ts generalizing g with
  | nil => exact hg
  | cons t r ih => exact ih (layer1 g t) (wf_layer1_w g hg t)
theorem closed_layer_w (g : Stairs Rat) (ts : List (Triple Rat)) : (layer g ts).closed = g.closed := by
  induction ts generalizing g with
  | nil => rfl
  | cons t r ih => exact (ih (layer1 g t)).trans (closed_layer1_w g t)

/-- layering `v` on a proper interval adds `v` inside the interval (as seen by the `st`-sided limit) -/
theorem den_layer1_w (g : Stairs Rat) (hg : g.WF) (a b v : Rat) (hab : a < b) (st : Bool) (x : Rat) :
    Den (layer1 g ⟨some a, some b, v⟩) st x
      = vadd (Den g st x) (some (if inWindow st (some a) (some b) x then v else 0)) := by
  unfold layer1
  rw [den_combine _ _ _ _ (wf_combine _ _ _ _ hg (wf_startRay_w _ _ _)) (wf_stopRay_w _ _ _),
      den_combine _ _ _ _ hg (wf_startRay_w _ _ _), den_startRay_some, den_stopRay_some]
  cases Den g st x with
  | none => rfl
  | some q =>
    simp only [vadd, vlift2, inWindow, Option.some.injEq]
    by_cases ha : reached st a x = true
    · by_cases hb : reached st b x = true
      · simp [ha, hb]
      · simp [ha, hb]
    · have hb : ¬ reached st b x = true := fun hb => ha (reached_mono hab hb)
      simp [ha, hb]

/-- the layer triple of a slice and its constant -/
def toTriple (ivv : Iv × Rat) : Triple Rat := ⟨some ivv.1.1, some ivv.1.2, ivv.2⟩
/-- what slice `ivv` contributes at `x` -/
def bump (st : Bool) (x : Rat) (ivv : Iv × Rat) : Rat :=
  if inWindow st (some ivv.1.1) (some ivv.1.2) x then ivv.2 else 0

theorem vadd_zero_w (y : Val) : vadd y (some 0) = y := by cases y <;> simp [vadd, vlift2]
theorem vadd_vadd_some (y : Val) (a b : Rat) : vadd (vadd y (some a)) (some b) = vadd y (some (a + b)) := by
  cases y <;> simp [vadd, vlift2, add_assoc]

/-- layering constants on proper intervals adds up their contributions pointwise -/
theorem den_layer_w (g : Stairs Rat) (hg : g.WF) (l : List (Iv × Rat)) (hl : ∀ ivv ∈ l, ivv.1.1 < ivv.1.2)
    (st : Bool) (x : Rat) :
    Den (layer g (l.map toTriple)) st x = vadd (Den g st x) (some (l.map (bump st x)).sum) := by
  induction l generalizing g with
  | nil => simp [layer, vadd_zero_w]
  | cons ivv r ih =>
    have h1 : layer g ((ivv :: r).map toTriple) = layer (layer1 g (toTriple ivv)) (r.map toTriple) := rfl
    rw [h1, ih _ (wf_layer1_w g hg _) (fun q hq => hl q (List.mem_cons_of_mem _ hq))]
    have h2 : Den (layer1 g (toTriple ivv)) st x = vadd (Den g st x) (some (bump st x ivv)) :=
      den_layer1_w g hg _ _ _ (hl ivv (by simp)) st x
    rw [h2, vadd_vadd_some]; simp

/-- the span of the slicing index -/
def spanLo (iv0 : Iv) (ivs : List Iv) : Rat := ivs.foldl (fun a iv => if iv.1 < a then iv.1 else a) iv0.1
def spanHi (iv0 : Iv) (ivs : List Iv) : Rat := ivs.foldl (fun a iv => if a < iv.2 then iv.2 else a) iv0.2

theorem spanLo_spec (iv0 : Iv) (ivs : List Iv) :
    (spanLo iv0 ivs = iv0.1 ∨ spanLo iv0 ivs ∈ ivs.map Prod.fst) ∧ spanLo iv0 ivs ≤ iv0.1 ∧
      ∀ iv ∈ ivs, spanLo iv0 ivs ≤ iv.1 := by
  have e : spanLo iv0 ivs = (ivs.map Prod.fst).foldl (fun a b => if b < a then b else a) iv0.1 := by
    unfold spanLo; rw [List.foldl_map]
  obtain ⟨h1, h2, h3⟩ := foldl_min_spec_w (ivs.map Prod.fst) iv0.1
  rw [e]
  exact ⟨h1, h2, fun iv hiv => h3 iv.1 (List.mem_map_of_mem hiv)⟩

theorem spanHi_spec (iv0 : Iv) (ivs : List Iv) :
    (spanHi iv0 ivs = iv0.2 ∨ spanHi iv0 ivs ∈ ivs.map Prod.snd) ∧ iv0.2 ≤ spanHi iv0 ivs ∧
      ∀ iv ∈ ivs, iv.2 ≤ spanHi iv0 ivs := by
  have e : spanHi iv0 ivs = (ivs.map Prod.snd).foldl (fun a b => if a < b then b else a) iv0.2 := by
    unfold spanHi; rw [List.foldl_map]
  obtain ⟨h1, h2, h3⟩ := foldl_max_spec_w (ivs.map Prod.snd) iv0.2
  rw [e]
  exact ⟨h1, h2, fun iv hiv => h3 iv.2 (List.mem_map_of_mem hiv)⟩

theorem den_maskTuple (g : Stairs Rat) (hg : g.WF) (lo hi : Option Rat) (hb : boundsOk lo hi = true)
    (st : Bool) (x : Rat) :
    Den (maskTuple g lo hi) st x = if inWindow st lo hi x then none else Den g st x := by
  unfold maskTuple
  rw [den_combine _ _ _ _ hg (wf_layerIndicator lo hi g.closed), den_layerIndicator lo hi g.closed hb]
  cases inWindow st lo hi x <;> simp [maskOp]
theorem wf_maskTuple (g : Stairs Rat) (hg : g.WF) (lo hi : Option Rat) : (maskTuple g lo hi).WF :=
  wf_combine _ _ _ _ hg (wf_layerIndicator lo hi g.closed)

/-- the base of `resample`: `0` on the span, `f` outside; `resampleWith` layers the constants on it -/
theorem resampleWith_ok (f : Stairs Rat) (hf : f.WF) (iv0 : Iv) (rest : List Iv) (vals : List Rat)
    (hlr : spanLo iv0 (iv0 :: rest) < spanHi iv0 (iv0 :: rest)) :
    ∃ base : Stairs Rat, base.WF ∧ base.closed = f.closed ∧
      (∀ st x, Den base st x =
        if inWindow st (some (spanLo iv0 (iv0 :: rest))) (some (spanHi iv0 (iv0 :: rest))) x then some 0
        else Den f st x) ∧
      resampleWith f (iv0 :: rest) vals = .ok (layer base (((iv0 :: rest).zip vals).map toTriple)) := by
  set lb := spanLo iv0 (iv0 :: rest) with hlb
  set rb := spanHi iv0 (iv0 :: rest) with hrb
  have hb : boundsOk (some lb) (some rb) = true := by simp [boundsOk, hlr]
  let A : Stairs Rat := fillnaScalar (maskTuple f (some lb) (some rb)) (some 0)
  let B : Stairs Rat := fillnaScalar (maskTuple (unop .isna f) (some lb) (some rb)) (some 0)
  have hAw : A.WF := wf_map _ _ (wf_maskTuple f hf _ _)
  have hBw : B.WF := wf_map _ _ (wf_maskTuple _ (wf_unop _ f hf) _ _)
  have hm : ¬ Mismatch A B := not_mismatch_of_closed_eq A B rfl
  have hmask : mask A B = .ok (combine maskOp A B (sideOf A B)) := combineChecked_total maskOp A B hm
  have hside : sideOf A B = f.closed := by
    unfold sideOf
    split
    · rfl
    · split <;> rfl
  refine ⟨combine maskOp A B (sideOf A B), wf_combine _ _ _ _ hAw hBw, hside, fun st x => ?_, ?_⟩
  · rw [den_combine _ _ _ _ hAw hBw]
    have hA : Den A st x = fillOp (Den (maskTuple f (some lb) (some rb)) st x) (some 0) :=
      den_map _ _ (wf_maskTuple f hf _ _) st x
    have hB : Den B st x = fillOp (Den (maskTuple (unop .isna f) (some lb) (some rb)) st x) (some 0) :=
      den_map _ _ (wf_maskTuple _ (wf_unop _ f hf) _ _) st x
    rw [hA, hB, den_maskTuple f hf _ _ hb, den_maskTuple _ (wf_unop _ f hf) _ _ hb, den_unop _ f hf]
    cases inWindow st (some lb) (some rb) x <;> cases Den f st x <;>
      simp [maskOp, fillOp, UnOp.eval, b2r]
  · have h0 : resampleWith f (iv0 :: rest) vals
        = (mask A B >>= fun base => pure (layer base (((iv0 :: rest).zip vals).map toTriple))) := rfl
    rw [h0, hmask]; rfl

theorem inWindow_some (st : Bool) (a b x : Rat) :
    inWindow st (some a) (some b) x = (reached st a x && !reached st b x) := rfl

theorem reached_of_le {st : Bool} {p q x : Rat} (hpq : p ≤ q) (h : reached st q x = true) : reached st p x = true := by
  rcases lt_or_eq_of_le hpq with h' | h'
  · exact reached_mono h' h
  · rw [h']; exact h

/-- a smaller interval has a smaller window -/
theorem inWindow_mono (st : Bool) (lb a b rb x : Rat) (h1 : lb ≤ a) (h2 : b ≤ rb)
    (h : inWindow st (some a) (some b) x = true) : inWindow st (some lb) (some rb) x = true := by
  rw [inWindow_some, Bool.and_eq_true] at h ⊢
  refine ⟨reached_of_le h1 h.1, ?_⟩
  cases hr : reached st rb x with
  | false => rfl
  | true => rw [reached_of_le h2 hr] at h; exact absurd h.2 (by simp)

/-- slices that do not overlap have disjoint windows -/
theorem inWindow_disjoint (st : Bool) (a b : Iv) (x : Rat) (hab : a.2 ≤ b.1)
    (ha : inWindow st (some a.1) (some a.2) x = true) : inWindow st (some b.1) (some b.2) x = false := by
  rw [inWindow_some, Bool.and_eq_true] at ha
  rw [inWindow_some]
  cases hb : reached st b.1 x with
  | false => rfl
  | true => rw [reached_of_le hab hb] at ha; exact absurd ha.2 (by simp)

theorem sum_bump_zero (st : Bool) (x : Rat) (l : List (Iv × Rat))
    (h : ∀ ivv ∈ l, inWindow st (some ivv.1.1) (some ivv.1.2) x = false) : (l.map (bump st x)).sum = 0 := by
  induction l with
  | nil => rfl
  | cons ivv r ih =>
    rw [List.map_cons, List.sum_cons, ih (fun q hq => h q (List.mem_cons_of_mem _ hq))]
    simp [bump, h ivv (by simp)]

theorem sum_bump_single (st : Bool) (x : Rat) (l : List (Iv × Rat))
    (hd : l.Pairwise (fun p q => p.1.2 ≤ q.1.1)) (k : Nat) (hk : k < l.length)
    (hx : inWindow st (some l[k].1.1) (some l[k].1.2) x = true) : (l.map (bump st x)).sum = l[k].2 := by
  induction l generalizing k with
  | nil => simp at hk
  | cons ivv r ih =>
    rw [List.pairwise_cons] at hd
    rw [List.map_cons, List.sum_cons]
    cases k with
    | zero =>
      simp only [List.getElem_cons_zero] at hx ⊢
      rw [sum_bump_zero st x r (fun q hq => inWindow_disjoint st ivv.1 q.1 x (hd.1 q hq) hx)]
      simp [bump, hx]
    | succ k' =>
      simp only [List.getElem_cons_succ] at hx ⊢
      have hk' : k' < r.length := by simpa using hk
      have hnot : inWindow st (some ivv.1.1) (some ivv.1.2) x = false := by
        cases hc : inWindow st (some ivv.1.1) (some ivv.1.2) x with
        | false => rfl
        | true =>
          have := inWindow_disjoint st ivv.1 r[k'].1 x (hd.1 _ (List.getElem_mem hk')) hc
          rw [this] at hx; cases hx
      rw [ih hd.2 k' hk' hx]
      simp [bump, hnot]

/-- every interval is proper -/
def Proper (ivs : List Iv) : Prop := ∀ iv ∈ ivs, iv.1 < iv.2
/-- consecutive intervals do not overlap (`is_non_overlapping_monotonic`, endpoints may touch) -/
def Increasing : List Iv → Prop
  | a :: b :: r => a.2 ≤ b.1 ∧ Increasing (b :: r)
  | _ => True
/-- consecutive intervals share their endpoint: the slices tile their span -/
def Tiles : List Iv → Prop
  | a :: b :: r => a.2 = b.1 ∧ Tiles (b :: r)
  | _ => True

theorem increasing_of_tiles (ivs : List Iv) (h : Tiles ivs) : Increasing ivs := by
  induction ivs with
  | nil => trivial
  | cons a r ih =>
    cases r with
    | nil => trivial
    | cons b r' => exact ⟨le_of_eq h.1, ih h.2⟩

theorem increasing_of_nonOverlapping (c : IClosed) (ivs : List Iv) (h : nonOverlapping c ivs = true) :
    Increasing ivs := by
  induction ivs with
  | nil => trivial
  | cons a r ih =>
    cases r with
    | nil => trivial
    | cons b r' =>
      simp only [nonOverlapping, Bool.and_eq_true] at h
      refine ⟨?_, ih h.2⟩
      by_cases hc : c = .both
      · simp only [hc, if_true, decide_eq_true_eq] at h; exact le_of_lt h.1
      · simp only [hc, if_false, decide_eq_true_eq] at h; exact h.1

/-- increasing proper intervals are pairwise non-overlapping, not just consecutively -/
theorem pairwise_of_increasing (ivs : List Iv) (hp : Proper ivs) (h : Increasing ivs) :
    ivs.Pairwise (fun a b => a.2 ≤ b.1) := by
  induction ivs with
  | nil => exact List.Pairwise.nil
  | cons a r ih =>
    have hpr : Proper r := fun iv hiv => hp iv (List.mem_cons_of_mem _ hiv)
    cases r with
    | nil => simp
    | cons b r' =>
      have ihr := ih hpr h.2
      rw [List.pairwise_cons]
      refine ⟨?_, ihr⟩
      intro c hc
      rcases List.mem_cons.mp hc with rfl | hc
      · exact h.1
      · have hb : b.1 < b.2 := hp b (by simp)
        have := (List.pairwise_cons.mp ihr).1 c hc
        linarith [h.1]

/-- tiling slices cover their span: a point is left of all of them, inside one, or right of all of them -/
theorem tiles_cover (st : Bool) (x : Rat) (ivs : List Iv) (hp : Proper ivs) (ht : Tiles ivs) :
    (∀ iv ∈ ivs, reached st iv.1 x = false) ∨
    (∃ iv ∈ ivs, inWindow st (some iv.1) (some iv.2) x = true) ∨
    (∀ iv ∈ ivs, reached st iv.2 x = true) := by
  induction ivs with
  | nil => exact Or.inl (by simp)
  | cons a r ih =>
    have hpr : Proper r := fun iv hiv => hp iv (List.mem_cons_of_mem _ hiv)
    cases r with
    | nil =>
      cases h1 : reached st a.1 x with
      | false => exact Or.inl (by simpa using h1)
      | true =>
        cases h2 : reached st a.2 x with
        | false => exact Or.inr (Or.inl ⟨a, by simp, by rw [inWindow_some, h1, h2]; rfl⟩)
        | true => exact Or.inr (Or.inr (by simpa using h2))
    | cons b r' =>
      have hab : a.2 = b.1 := ht.1
      rcases ih hpr ht.2 with h | h | h
      · have hb1 : reached st b.1 x = false := h b (by simp)
        cases h1 : reached st a.1 x with
        | false =>
          refine Or.inl fun iv hiv => ?_
          rcases List.mem_cons.mp hiv with rfl | hiv
          · exact h1
          · exact h iv hiv
        | true =>
          exact Or.inr (Or.inl ⟨a, by simp, by rw [inWindow_some, h1, hab, hb1]; rfl⟩)
      · obtain ⟨iv, hiv, hw⟩ := h
        exact Or.inr (Or.inl ⟨iv, List.mem_cons_of_mem _ hiv, hw⟩)
      · have hb2 : reached st b.2 x = true := h b (by simp)
        have hb1 : reached st b.1 x = true := reached_mono (hp b (by simp)) hb2
        refine Or.inr (Or.inr fun iv hiv => ?_)
        rcases List.mem_cons.mp hiv with rfl | hiv
        · rw [hab]; exact hb1
        · exact h iv hiv

theorem span_proper (iv0 : Iv) (rest : List Iv) (h0 : iv0.1 < iv0.2) :
    spanLo iv0 (iv0 :: rest) < spanHi iv0 (iv0 :: rest) :=
  lt_of_le_of_lt (spanLo_spec iv0 _).2.1 (lt_of_lt_of_le h0 (spanHi_spec iv0 _).2.1)

/-- **`resampleWith`, general form** (any proper intervals, in any order, overlapping or not): the result is
`0` on the span / `f` outside it, plus the sum of the constants of the slices containing the point -/
theorem den_resampleWith (f : Stairs Rat) (hf : f.WF) (iv0 : Iv) (rest : List Iv) (vals : List Rat)
    (hp : Proper (iv0 :: rest)) :
    ∃ h, resampleWith f (iv0 :: rest) vals = .ok h ∧ h.WF ∧ h.closed = f.closed ∧
      ∀ st x, Den h st x =
        vadd (if inWindow st (some (spanLo iv0 (iv0 :: rest))) (some (spanHi iv0 (iv0 :: rest))) x then some 0
              else Den f st x)
          (some ((((iv0 :: rest).zip vals).map (bump st x)).sum)) := by
  obtain ⟨base, hbw, hbc, hbd, hres⟩ :=
    resampleWith_ok f hf iv0 rest vals (span_proper iv0 rest (hp iv0 (by simp)))
  refine ⟨_, hres, wf_layer_w base hbw _, (closed_layer_w base _).trans hbc, fun st x => ?_⟩
  rw [den_layer_w base hbw _ (fun ivv hivv => hp ivv.1 (List.of_mem_zip hivv).1), hbd]

end Stairs
end SC
