import SCModel.Lemmas.Rolling
/-!
# SCModel.Lemmas.Integral8b — helper lemmas for `Props/C08b` (algebra of the window integral)

* `wsum` is linear in the weight (`i8b_wsum_add`, `i8b_wsum_smul`, …);
* **common grid**: the weighted sums of two bounded-support functions `A`, `B` and of any function denoting
  `op A B` pointwise are Riemann sums over one and the same grid (`i8b_grid_op`, `i8b_grid2`, `i8b_grid1`);
* a canonical function that is undefined towards −∞ and +∞ has fewer than two rows iff it has no defined length
  iff it is undefined everywhere (`i8b_length_lt_two_iff`, `i8b_definedLength_zero_iff`);
* hence for a window `integral (window f a b) = if lenOn f a b = 0 then none else some (intOn f a b)`
  (`i8b_integral_window`) and `lenOn f a b = 0 ↔ f undefined on [a, b)` (`i8b_lenOn_eq_zero_iff`);
* the cores of linearity / monotonicity on windows: `i8b_window_vadd`, `i8b_window_mono`, `i8b_wsum_window_map`,
  `i8b_intOn_nonneg`.
-/
set_option linter.unusedSectionVars false
set_option linter.unusedVariables false
namespace SC
namespace Stairs

/-! ## `wsum` is linear in the weight -/

theorem i8b_wsum_congr (w₁ w₂ : Rat → Rat) (f : Stairs Rat) (h : ∀ v, w₁ v = w₂ v) : wsum w₁ f = wsum w₂ f := by
  have : w₁ = w₂ := funext h
  rw [this]

theorem i8b_wsum_add (w₁ w₂ : Rat → Rat) (f : Stairs Rat) :
    wsum (fun v => w₁ v + w₂ v) f = wsum w₁ f + wsum w₂ f := by
  unfold wsum
  rw [← sumBy_add]
  apply sumBy_congr; intro a _; ring

theorem i8b_wsum_smul (k : Rat) (w : Rat → Rat) (f : Stairs Rat) :
    wsum (fun v => k * w v) f = k * wsum w f := by
  unfold wsum
  rw [← sumBy_mul_left]
  apply sumBy_congr; intro a _; ring

theorem i8b_wsum_const (k : Rat) (f : Stairs Rat) : wsum (fun _ => k) f = k * definedLength f := by
  rw [definedLength_eq_wsum, ← i8b_wsum_smul]
  apply i8b_wsum_congr; intro v; ring

/-- the integral sum of `v ↦ k·v + d` -/
theorem i8b_wsum_affine (k d : Rat) (f : Stairs Rat) :
    wsum (fun v => k * v + d) f = k * wsum (fun v => v) f + d * definedLength f := by
  rw [i8b_wsum_add (fun v => k * v) (fun _ => d), i8b_wsum_smul k (fun v => v), i8b_wsum_const]

theorem i8b_definedLength_nonneg (f : Stairs Rat) (hf : f.WF) : 0 ≤ definedLength f := by
  unfold definedLength
  exact sumBy_nonneg _ _ (fun a ha => le_of_lt (definedPieces_pos f.steps hf a ha))

theorem i8b_lastVal_mapVals {P V W : Type} (u : V → W) (a : V) (s : List (P × V)) :
    lastVal (u a) (s.map fun pv => (pv.1, u pv.2)) = u (lastVal a s) := by
  induction s generalizing a with
  | nil => rfl
  | cons b r ih => obtain ⟨p, v⟩ := b; exact ih v

/-! ## a common grid -/

/-- **common grid.**  `A`, `B`, `C` well-formed with bounded support, `C` denoting `op A B` pointwise: the weighted
sums of all three are Riemann sums `Σ w(value at p)·(q − p)` over the consecutive points `p, q` of one grid. -/
theorem i8b_grid_op (op : Val → Val → Val) (A B C : Stairs Rat) (hA : A.WF) (hB : B.WF) (hC : C.WF)
    (bA : A.init = none ∧ lastVal A.init A.steps = none) (bB : B.init = none ∧ lastVal B.init B.steps = none)
    (bC : C.init = none ∧ lastVal C.init C.steps = none)
    (hden : ∀ x, Den C false x = op (Den A false x) (Den B false x)) :
    ∃ u : List Rat, u.Pairwise (· < ·) ∧
      (∀ w, wsum w A = sumBy (fun pq => liftW w (Den A false pq.1) * (pq.2 - pq.1)) (segs u)) ∧
      (∀ w, wsum w B = sumBy (fun pq => liftW w (Den B false pq.1) * (pq.2 - pq.1)) (segs u)) ∧
      (∀ w, wsum w C
        = sumBy (fun pq => liftW w (op (Den A false pq.1) (Den B false pq.1)) * (pq.2 - pq.1)) (segs u)) := by
  have hu : (unionIdx (A.steps.map Prod.fst) (B.steps.map Prod.fst)).Pairwise (· < ·) :=
    pairwise_unionIdx _ _ hA hB
  refine ⟨unionIdx (A.steps.map Prod.fst) (B.steps.map Prod.fst), hu, ?_, ?_, ?_⟩
  · intro w
    exact wsum_on_grid A hA bA _ hu (fun p => Den A false p) A.init
      (lim_refine false _ hu A.init A.steps hA (fun q hq => (mem_unionIdx _ _ _).mpr (Or.inl hq))) w
  · intro w
    exact wsum_on_grid B hB bB _ hu (fun p => Den B false p) B.init
      (lim_refine false _ hu B.init B.steps hB (fun q hq => (mem_unionIdx _ _ _).mpr (Or.inr hq))) w
  · intro w
    exact wsum_on_grid C hC bC _ hu (fun p => op (Den A false p) (Den B false p)) (op A.init B.init)
      (fun x => by
        have h1 := lim_combineSteps false op A.init A.steps B.init B.steps hA hB x
        have h2 := hden x
        exact h1.trans h2.symm) w

/-- two functions on one grid -/
theorem i8b_grid2 (A B : Stairs Rat) (hA : A.WF) (hB : B.WF)
    (bA : A.init = none ∧ lastVal A.init A.steps = none) (bB : B.init = none ∧ lastVal B.init B.steps = none) :
    ∃ u : List Rat, u.Pairwise (· < ·) ∧
      (∀ w, wsum w A = sumBy (fun pq => liftW w (Den A false pq.1) * (pq.2 - pq.1)) (segs u)) ∧
      (∀ w, wsum w B = sumBy (fun pq => liftW w (Den B false pq.1) * (pq.2 - pq.1)) (segs u)) := by
  obtain ⟨u, hu, h1, h2, _⟩ := i8b_grid_op (fun x _ => x) A B A hA hB hA bA bB bA (fun _ => rfl)
  exact ⟨u, hu, h1, h2⟩

/-- one function on its own grid -/
theorem i8b_grid1 (A : Stairs Rat) (hA : A.WF) (bA : A.init = none ∧ lastVal A.init A.steps = none) :
    ∃ u : List Rat, u.Pairwise (· < ·) ∧
      (∀ w, wsum w A = sumBy (fun pq => liftW w (Den A false pq.1) * (pq.2 - pq.1)) (segs u)) := by
  obtain ⟨u, hu, h1, _⟩ := i8b_grid2 A A hA hA bA bA
  exact ⟨u, hu, h1⟩

/-! ## canonical functions with bounded support -/

/-- a canonical function that is undefined towards −∞ has a defined first value -/
theorem i8b_first_defined (c : Stairs Rat) (hm : c.IsMinimal) (hi : c.init = none) (p : Rat) (v : Val)
    (r : List (Rat × Val)) (hs : c.steps = (p, v) :: r) : v ≠ none := by
  unfold IsMinimal at hm
  rw [hs, hi] at hm
  exact hm.1

/-- canonical, undefined towards ±∞: fewer than two rows iff no row at all -/
theorem i8b_steps_nil_of_lt_two (c : Stairs Rat) (hm : c.IsMinimal)
    (hb : c.init = none ∧ lastVal c.init c.steps = none) (h : c.steps.length < 2) : c.steps = [] := by
  cases hs : c.steps with
  | nil => rfl
  | cons pv r =>
    obtain ⟨p, v⟩ := pv
    cases r with
    | nil =>
      have h1 := i8b_first_defined c hm hb.1 p v [] hs
      have h2 := hb.2
      rw [hs] at h2
      exact absurd h2 h1
    | cons b r' => rw [hs] at h; simp at h; omega

/-- canonical, undefined towards ±∞: fewer than two rows iff the defined length is zero -/
theorem i8b_length_lt_two_iff (c : Stairs Rat) (hc : c.Canonical)
    (hb : c.init = none ∧ lastVal c.init c.steps = none) : c.steps.length < 2 ↔ definedLength c = 0 := by
  constructor
  · intro h
    unfold definedLength; rw [definedPieces_of_length_lt_two _ h]; rfl
  · intro h0
    by_contra h2
    cases hs : c.steps with
    | nil => rw [hs] at h2; simp at h2
    | cons pv r =>
      obtain ⟨p, v⟩ := pv
      cases r with
      | nil => rw [hs] at h2; simp at h2
      | cons b r' =>
        obtain ⟨q, w⟩ := b
        have h1 := i8b_first_defined c hc.2 hb.1 p v _ hs
        cases v with
        | none => exact h1 rfl
        | some x =>
          have hne : definedPieces c.steps ≠ [] := by
            rw [hs, definedPieces_cons_some]; simp
          have hpos : 0 < definedLength c :=
            sumBy_pos _ _ hne (fun a ha => definedPieces_pos c.steps hc.1 a ha)
          rw [h0] at hpos
          exact lt_irrefl _ hpos

/-- canonical, undefined towards ±∞: no defined length iff undefined everywhere -/
theorem i8b_definedLength_zero_iff (c : Stairs Rat) (hc : c.Canonical)
    (hb : c.init = none ∧ lastVal c.init c.steps = none) :
    definedLength c = 0 ↔ ∀ x, Den c false x = none := by
  rw [← i8b_length_lt_two_iff c hc hb]
  constructor
  · intro h x
    have hs := i8b_steps_nil_of_lt_two c hc.2 hb h
    unfold Den; rw [hs, hb.1]; rfl
  · intro h
    cases hs : c.steps with
    | nil => simp
    | cons pv r =>
      obtain ⟨p, v⟩ := pv
      have h1 := i8b_first_defined c hc.2 hb.1 p v r hs
      have h2 : Den c false p = v := by
        unfold Den
        exact lim_at_key c.init c.steps hc.1 p v (by rw [hs]; simp)
      rw [h p] at h2
      exact absurd h2.symm h1

/-- for such a function `integral` is the integral sum unless there is nothing defined at all -/
theorem i8b_integral_eq (c : Stairs Rat) (hc : c.Canonical) (hb : c.init = none ∧ lastVal c.init c.steps = none) :
    integral c = if definedLength c = 0 then none else some (wsum (fun v => v) c) := by
  unfold integral
  by_cases h : c.steps.length < 2
  · rw [if_pos h, if_pos ((i8b_length_lt_two_iff c hc hb).mp h)]
  · rw [if_neg h, if_neg (fun h0 => h ((i8b_length_lt_two_iff c hc hb).mpr h0))]
    rfl

/-! ## windows -/

theorem i8b_canonical_window (f : Stairs Rat) (hf : f.WF) (a b : Rat) (hab : a < b) : (window f a b).Canonical :=
  canonical_combine _ _ _ _ hf (wf_indicator _ _ _ (boundsOk_of_lt hab))

/-- **`integral` of a window**: `none` when `f` is nowhere defined in it, else the integral sum -/
theorem i8b_integral_window (f : Stairs Rat) (hf : f.WF) (a b : Rat) (hab : a < b) :
    integral (window f a b) = if lenOn f a b = 0 then none else some (intOn f a b) :=
  i8b_integral_eq _ (i8b_canonical_window f hf a b hab) (window_bounded f a b hf hab)

theorem i8b_lenOn_eq_zero_iff (f : Stairs Rat) (hf : f.WF) (a b : Rat) (hab : a < b) :
    lenOn f a b = 0 ↔ ∀ x, a ≤ x → x < b → Den f false x = none := by
  unfold lenOn
  rw [i8b_definedLength_zero_iff _ (i8b_canonical_window f hf a b hab) (window_bounded f a b hf hab)]
  constructor
  · intro h x h1 h2
    have := h x
    rwa [den_window_right f a b hf hab, if_pos ⟨h1, h2⟩] at this
  · intro h x
    rw [den_window_right f a b hf hab]
    by_cases hx : a ≤ x ∧ x < b
    · rw [if_pos hx]; exact h x hx.1 hx.2
    · rw [if_neg hx]

theorem i8b_lenOn_nonneg (f : Stairs Rat) (hf : f.WF) (a b : Rat) (hab : a < b) : 0 ≤ lenOn f a b :=
  i8b_definedLength_nonneg _ (wf_window f a b hf hab)

theorem i8b_lenOn_pos_iff (f : Stairs Rat) (hf : f.WF) (a b : Rat) (hab : a < b) :
    0 < lenOn f a b ↔ ∃ x, a ≤ x ∧ x < b ∧ Den f false x ≠ none := by
  constructor
  · intro h
    by_contra hne
    have : lenOn f a b = 0 := (i8b_lenOn_eq_zero_iff f hf a b hab).mpr (fun x h1 h2 => by
      by_contra hx
      exact hne ⟨x, h1, h2, hx⟩)
    rw [this] at h
    exact lt_irrefl _ h
  · rintro ⟨x, h1, h2, hx⟩
    rcases eq_or_lt_of_le (i8b_lenOn_nonneg f hf a b hab) with h0 | hpos
    · exact absurd ((i8b_lenOn_eq_zero_iff f hf a b hab).mp h0.symm x h1 h2) hx
    · exact hpos

/-- the denotation of a window at a grid point, case by case -/
theorem i8b_den_window_cases (f : Stairs Rat) (hf : f.WF) (a b : Rat) (hab : a < b) (x : Rat) :
    (a ≤ x ∧ x < b ∧ Den (window f a b) false x = Den f false x) ∨
    (¬ (a ≤ x ∧ x < b) ∧ Den (window f a b) false x = none) := by
  rw [den_window_right f a b hf hab]
  by_cases hx : a ≤ x ∧ x < b
  · left; rw [if_pos hx]; exact ⟨hx.1, hx.2, rfl⟩
  · right; rw [if_neg hx]; exact ⟨hx, rfl⟩

/-- **additivity in the function (core).**  If `h` denotes `f + g` on `[a, b)` and `f`, `g` are defined on the
same part of `[a, b)`, the integral sums add and the three defined lengths agree. -/
theorem i8b_window_vadd (f g h : Stairs Rat) (hf : f.WF) (hg : g.WF) (hh : h.WF) (a b : Rat) (hab : a < b)
    (hden : ∀ x, a ≤ x → x < b → Den h false x = vadd (Den f false x) (Den g false x))
    (hdom : ∀ x, a ≤ x → x < b → (Den f false x = none ↔ Den g false x = none)) :
    intOn h a b = intOn f a b + intOn g a b ∧ lenOn h a b = lenOn f a b ∧ lenOn g a b = lenOn f a b := by
  have hdenW : ∀ x, Den (window h a b) false x
      = vadd (Den (window f a b) false x) (Den (window g a b) false x) := by
    intro x
    rw [den_window_right h a b hh hab, den_window_right f a b hf hab, den_window_right g a b hg hab]
    by_cases hx : a ≤ x ∧ x < b
    · rw [if_pos hx, if_pos hx, if_pos hx]; exact hden x hx.1 hx.2
    · rw [if_neg hx, if_neg hx, if_neg hx]; rfl
  obtain ⟨u, hu, wf', wg', wh'⟩ := i8b_grid_op vadd (window f a b) (window g a b) (window h a b)
    (wf_window f a b hf hab) (wf_window g a b hg hab) (wf_window h a b hh hab)
    (window_bounded f a b hf hab) (window_bounded g a b hg hab) (window_bounded h a b hh hab) hdenW
  have hcase : ∀ p, (∃ x y, Den (window f a b) false p = some x ∧ Den (window g a b) false p = some y) ∨
      (Den (window f a b) false p = none ∧ Den (window g a b) false p = none) := by
    intro p
    rcases i8b_den_window_cases f hf a b hab p with ⟨h1, h2, e1⟩ | ⟨hn, e1⟩
    · rcases i8b_den_window_cases g hg a b hab p with ⟨_, _, e2⟩ | ⟨hn, _⟩
      · rw [e1, e2]
        cases hfp : Den f false p with
        | none => right; exact ⟨rfl, (hdom p h1 h2).mp hfp⟩
        | some x =>
          cases hgp : Den g false p with
          | none => rw [(hdom p h1 h2).mpr hgp] at hfp; cases hfp
          | some y => left; exact ⟨x, y, rfl, rfl⟩
      · exact absurd ⟨h1, h2⟩ hn
    · rcases i8b_den_window_cases g hg a b hab p with ⟨h1, h2, _⟩ | ⟨_, e2⟩
      · exact absurd ⟨h1, h2⟩ hn
      · right; exact ⟨e1, e2⟩
  refine ⟨?_, ?_, ?_⟩
  · unfold intOn
    rw [wh', wf', wg', ← sumBy_add]
    apply sumBy_congr; intro e _
    rcases hcase e.1 with ⟨x, y, h1, h2⟩ | ⟨h1, h2⟩
    · simp only [h1, h2, liftW, vadd, vlift2]; ring
    · simp only [h1, h2, liftW, vadd, vlift2]; ring
  · rw [lenOn_eq_wsum, lenOn_eq_wsum, wh', wf']
    apply sumBy_congr; intro e _
    rcases hcase e.1 with ⟨x, y, h1, h2⟩ | ⟨h1, h2⟩ <;> simp only [h1, h2, liftW, vadd, vlift2]
  · rw [lenOn_eq_wsum, lenOn_eq_wsum, wg', wf']
    apply sumBy_congr; intro e _
    rcases hcase e.1 with ⟨x, y, h1, h2⟩ | ⟨h1, h2⟩ <;> simp only [h1, h2, liftW]

/-- **monotonicity (core).**  `f ≤ g` wherever both are defined in `[a, b)`, and they are defined on the same
part of it: the integral sums are ordered and the defined lengths agree. -/
theorem i8b_window_mono (f g : Stairs Rat) (hf : f.WF) (hg : g.WF) (a b : Rat) (hab : a < b)
    (hdom : ∀ x, a ≤ x → x < b → (Den f false x = none ↔ Den g false x = none))
    (hle : ∀ x u v, a ≤ x → x < b → Den f false x = some u → Den g false x = some v → u ≤ v) :
    intOn f a b ≤ intOn g a b ∧ lenOn f a b = lenOn g a b := by
  obtain ⟨u, hu, wf', wg'⟩ := i8b_grid2 (window f a b) (window g a b)
    (wf_window f a b hf hab) (wf_window g a b hg hab)
    (window_bounded f a b hf hab) (window_bounded g a b hg hab)
  have hcase : ∀ p, (∃ x y, Den (window f a b) false p = some x ∧ Den (window g a b) false p = some y ∧ x ≤ y) ∨
      (Den (window f a b) false p = none ∧ Den (window g a b) false p = none) := by
    intro p
    rcases i8b_den_window_cases f hf a b hab p with ⟨h1, h2, e1⟩ | ⟨hn, e1⟩
    · rcases i8b_den_window_cases g hg a b hab p with ⟨_, _, e2⟩ | ⟨hn, _⟩
      · rw [e1, e2]
        cases hfp : Den f false p with
        | none => right; exact ⟨rfl, (hdom p h1 h2).mp hfp⟩
        | some x =>
          cases hgp : Den g false p with
          | none => rw [(hdom p h1 h2).mpr hgp] at hfp; cases hfp
          | some y => left; exact ⟨x, y, rfl, rfl, hle p x y h1 h2 hfp hgp⟩
      · exact absurd ⟨h1, h2⟩ hn
    · rcases i8b_den_window_cases g hg a b hab p with ⟨h1, h2, _⟩ | ⟨_, e2⟩
      · exact absurd ⟨h1, h2⟩ hn
      · right; exact ⟨e1, e2⟩
  constructor
  · unfold intOn
    rw [wf', wg']
    apply sumBy_le_sumBy
    intro e he
    have hpos : 0 ≤ e.2 - e.1 := by
      have := segs_lt u hu e he
      linarith
    rcases hcase e.1 with ⟨x, y, h1, h2, hxy⟩ | ⟨h1, h2⟩
    · simp only [h1, h2, liftW]
      exact mul_le_mul_of_nonneg_right hxy hpos
    · simp only [h1, h2, liftW]; exact le_refl _
  · rw [lenOn_eq_wsum, lenOn_eq_wsum, wf', wg']
    apply sumBy_congr; intro e _
    rcases hcase e.1 with ⟨x, y, h1, h2, _⟩ | ⟨h1, h2⟩ <;> simp only [h1, h2, liftW]

/-- the integral sum of a function that is non-negative where defined in `[a, b)` is non-negative -/
theorem i8b_intOn_nonneg (f : Stairs Rat) (hf : f.WF) (a b : Rat) (hab : a < b)
    (h0 : ∀ x v, a ≤ x → x < b → Den f false x = some v → 0 ≤ v) : 0 ≤ intOn f a b := by
  obtain ⟨u, hu, wf'⟩ := i8b_grid1 (window f a b) (wf_window f a b hf hab) (window_bounded f a b hf hab)
  unfold intOn
  rw [wf']
  apply sumBy_nonneg
  intro e he
  have hpos : 0 ≤ e.2 - e.1 := by
    have := segs_lt u hu e he
    linarith
  rcases i8b_den_window_cases f hf a b hab e.1 with ⟨h1, h2, e1⟩ | ⟨_, e1⟩
  · rw [e1]
    cases hv : Den f false e.1 with
    | none => simp
    | some v => exact mul_nonneg (h0 e.1 v h1 h2 hv) hpos
  · rw [e1]; simp

/-- **change of values (core).**  If `h` denotes `φ ∘ f` on `[a, b)` (undefined where `f` is), every weighted sum
of the window of `h` is a weighted sum of the window of `f`. -/
theorem i8b_wsum_window_map (φ : Rat → Rat) (f h : Stairs Rat) (hf : f.WF) (hh : h.WF) (a b : Rat) (hab : a < b)
    (hden : ∀ x, a ≤ x → x < b → Den h false x = (Den f false x).map φ) (w : Rat → Rat) :
    wsum w (window h a b) = wsum (fun v => w (φ v)) (window f a b) := by
  obtain ⟨hi, hl⟩ := window_bounded f a b hf hab
  rw [wsum_eq_pieceSum, wsum_eq_pieceSum]
  have e1 : pieceSum (liftW fun v => w (φ v)) (window f a b).steps
      = pieceSum (liftW w) ((window f a b).steps.map fun pv => (pv.1, (fun v : Val => v.map φ) pv.2)) := by
    rw [pieceSum_mapVals]
    apply pieceSum_congr
    intro p q v _
    cases v <;> rfl
  rw [e1]
  symm
  apply pieceSum_eq_of_den_bounded (liftW w) ((fun v : Val => v.map φ) (window f a b).init) (window h a b).init
    _ _ (sorted_mapVals _ _ (wf_window f a b hf hab)) (wf_window h a b hh hab)
  · intro x
    rw [lim_map]
    show (Den (window f a b) false x).map φ = Den (window h a b) false x
    rw [den_window_right f a b hf hab, den_window_right h a b hh hab]
    by_cases hx : a ≤ x ∧ x < b
    · rw [if_pos hx, if_pos hx]; exact (hden x hx.1 hx.2).symm
    · rw [if_neg hx, if_neg hx]; rfl
  · rw [hi]; rfl
  · rw [i8b_lastVal_mapVals (fun v : Val => v.map φ), hl]; rfl

/-- a window in which `f` is nowhere defined contributes nothing to any weighted sum -/
theorem i8b_wsum_eq_zero_of_lenOn (w : Rat → Rat) (f : Stairs Rat) (hf : f.WF) (a b : Rat) (hab : a < b)
    (h : lenOn f a b = 0) : wsum w (window f a b) = 0 := by
  have h2 := (i8b_length_lt_two_iff _ (i8b_canonical_window f hf a b hab) (window_bounded f a b hf hab)).mpr h
  unfold wsum
  rw [definedPieces_of_length_lt_two _ h2]
  rfl

end Stairs
end SC
