import SCModel.Lemmas.Canon
import SCModel.Model.Ops
/-!
# SCModel.Lemmas.Den — the denotation of a `Stairs` and how `map` / `combine` / `canon` act on it
-/
set_option linter.unusedSectionVars false
namespace SC
namespace Stairs
variable {P : Type} [LinearOrder P]

/-- the function a `Stairs` denotes: its one-sided limits (`st = true`: left limit) -/
def Den (f : Stairs P) (st : Bool) (x : P) : Val := lim st f.init f.steps x
/-- well-formed: step points strictly increase -/
def WF (f : Stairs P) : Prop := Sorted f.steps
/-- every step point is a genuine change of value or definedness -/
def IsMinimal (f : Stairs P) : Prop := Minimal f.init f.steps
/-- canonical = well-formed and minimal -/
def Canonical (f : Stairs P) : Prop := f.WF ∧ f.IsMinimal

instance (f : Stairs P) : Decidable f.WF := by unfold WF Sorted; infer_instance
instance (f : Stairs P) : Decidable f.IsMinimal := by unfold IsMinimal; infer_instance
instance (f : Stairs P) : Decidable f.Canonical := by unfold Canonical; infer_instance

theorem limit_eq_den (f : Stairs P) (side : Side) (x : P) : f.limit side x = Den f (side == .left) x := rfl
theorem limit_left (f : Stairs P) (x : P) : f.limit .left x = Den f true x := rfl
theorem limit_right (f : Stairs P) (x : P) : f.limit .right x = Den f false x := rfl

theorem sample_eq_den (f : Stairs P) (x : P) :
    f.sample x = Den f (match f.closed with | .left => false | .right => true) x := by
  unfold sample sampleSide limit Den
  cases f.closed <;> rfl

@[simp] theorem den_const (c : Val) (cl : Side) (st : Bool) (x : P) : Den (const c cl : Stairs P) st x = c := rfl
theorem wf_const (c : Val) (cl : Side) : (const c cl : Stairs P).WF := sorted_nil
theorem minimal_const (c : Val) (cl : Side) : (const c cl : Stairs P).IsMinimal := trivial
theorem canonical_const (c : Val) (cl : Side) : (const c cl : Stairs P).Canonical := ⟨wf_const c cl, minimal_const c cl⟩

/-! ### canon -/
theorem den_canon (f : Stairs P) (hf : f.WF) (st : Bool) (x : P) : Den f.canon st x = Den f st x :=
  lim_removeRedundant st f.init f.steps hf x
theorem wf_canon (f : Stairs P) (hf : f.WF) : f.canon.WF := sorted_removeRedundant f.init f.steps hf
theorem minimal_canon (f : Stairs P) : f.canon.IsMinimal := minimal_removeRedundant f.init f.steps
theorem canonical_canon (f : Stairs P) (hf : f.WF) : f.canon.Canonical := ⟨wf_canon f hf, minimal_canon f⟩
@[simp] theorem closed_canon (f : Stairs P) : f.canon.closed = f.closed := rfl
@[simp] theorem init_canon (f : Stairs P) : f.canon.init = f.init := rfl
theorem canon_of_minimal (f : Stairs P) (h : f.IsMinimal) : f.canon = f := by
  unfold canon; rw [removeRedundant_of_minimal f.init f.steps h]

/-! ### map -/
theorem sorted_mapVals {V W : Type} (u : V → W) (s : List (P × V)) (hs : Sorted s) :
    Sorted (s.map fun pv => (pv.1, u pv.2)) := by
  unfold Sorted at hs ⊢
  simpa [List.map_map, Function.comp_def] using hs

theorem den_map (u : Val → Val) (f : Stairs P) (hf : f.WF) (st : Bool) (x : P) :
    Den (map u f) st x = u (Den f st x) := by
  have h : (⟨u f.init, f.steps.map fun pv => (pv.1, u pv.2), f.closed⟩ : Stairs P).WF :=
    sorted_mapVals u f.steps hf
  unfold map
  rw [den_canon _ h]
  exact lim_map st u f.init f.steps x
theorem wf_map (u : Val → Val) (f : Stairs P) (hf : f.WF) : (map u f).WF := by
  have h : (⟨u f.init, f.steps.map fun pv => (pv.1, u pv.2), f.closed⟩ : Stairs P).WF :=
    sorted_mapVals u f.steps hf
  exact wf_canon _ h
theorem minimal_map (u : Val → Val) (f : Stairs P) : (map u f).IsMinimal := minimal_canon _
theorem canonical_map (u : Val → Val) (f : Stairs P) (hf : f.WF) : (map u f).Canonical :=
  ⟨wf_map u f hf, minimal_map u f⟩
@[simp] theorem closed_map (u : Val → Val) (f : Stairs P) : (map u f).closed = f.closed := rfl

theorem den_unop (u : UnOp) (f : Stairs P) (hf : f.WF) (st : Bool) (x : P) :
    Den (unop u f) st x = u.eval (Den f st x) := den_map _ f hf st x
theorem wf_unop (u : UnOp) (f : Stairs P) (hf : f.WF) : (unop u f).WF := wf_map _ f hf
theorem canonical_unop (u : UnOp) (f : Stairs P) (hf : f.WF) : (unop u f).Canonical := canonical_map _ f hf

/-! ### combine -/
theorem den_combine (op : Val → Val → Val) (f g : Stairs P) (cl : Side) (hf : f.WF) (hg : g.WF)
    (st : Bool) (x : P) : Den (combine op f g cl) st x = op (Den f st x) (Den g st x) := by
  have h : (⟨op f.init g.init, combineSteps op f.init f.steps g.init g.steps, cl⟩ : Stairs P).WF :=
    sorted_combineSteps op f.init f.steps g.init g.steps hf hg
  unfold combine
  rw [den_canon _ h]
  exact lim_combineSteps st op f.init f.steps g.init g.steps hf hg x
theorem wf_combine (op : Val → Val → Val) (f g : Stairs P) (cl : Side) (hf : f.WF) (hg : g.WF) :
    (combine op f g cl).WF := by
  have h : (⟨op f.init g.init, combineSteps op f.init f.steps g.init g.steps, cl⟩ : Stairs P).WF :=
    sorted_combineSteps op f.init f.steps g.init g.steps hf hg
  exact wf_canon _ h
theorem minimal_combine (op : Val → Val → Val) (f g : Stairs P) (cl : Side) :
    (combine op f g cl).IsMinimal := minimal_canon _
theorem canonical_combine (op : Val → Val → Val) (f g : Stairs P) (cl : Side) (hf : f.WF) (hg : g.WF) :
    (combine op f g cl).Canonical := ⟨wf_combine op f g cl hf hg, minimal_combine op f g cl⟩
@[simp] theorem closed_combine (op : Val → Val → Val) (f g : Stairs P) (cl : Side) :
    (combine op f g cl).closed = cl := rfl

/-! ### equality of canonical forms -/
theorem canonical_ext [NoMinOrder P] [Nonempty P] (f g : Stairs P) (hf : f.Canonical) (hg : g.Canonical)
    (hc : f.closed = g.closed) (h : ∀ x, Den f false x = Den g false x) : f = g := by
  obtain ⟨hi, hs⟩ := canonical_unique f.steps g.steps f.init g.init hf.1 hg.1 hf.2 hg.2 h
  cases f; cases g; simp_all

/-- the right limits determine the left limits (for canonical forms) -/
theorem den_left_of_right [NoMinOrder P] [Nonempty P] (f g : Stairs P) (hf : f.Canonical) (hg : g.Canonical)
    (h : ∀ x, Den f false x = Den g false x) (x : P) : Den f true x = Den g true x := by
  obtain ⟨hi, hs⟩ := canonical_unique f.steps g.steps f.init g.init hf.1 hg.1 hf.2 hg.2 h
  unfold Den; rw [hi, hs]

end Stairs
end SC
