import SCModel.Lemmas.Fill7b
import SCModel.Lemmas.Masking
/-!
# SCModel.Lemmas.Mask6b — helper lemmas for `Props/C06b` (defective masking / clipping / logical-scalar variants)

* `k6b_combine_eq_iff`, `k6b_checked_eq_iff`: two results of the two-operand path are the same OBJECT iff their
  operators agree on every observation (initial value and one-sided limits) of the operands.
* `k6bSplit u₀ u₁ g`: a masker whose initial value went through `u₀` and whose step values went through `u₁`
  (the library treats the two separately, and most seeded defects touch only one of them);
  `k6b_obs_split`: its observations; `k6bStarted`: "at or after the first step point".
* observations versus rows (`k6b_obs_forall_iff_rows`, `k6b_started_forall_iff_rows`).
* `k6b_map_eq_const_iff`: when a value map collapses to a step-free constant.
* `k6b_lim_congr_reached`: a limit only depends on which rows have been reached.
-/
set_option linter.unusedSectionVars false
namespace SC

section lists
variable {P V W : Type} [LinearOrder P]

/-- a limit only depends on which rows have been reached -/
theorem k6b_lim_congr_reached (st st' : Bool) (s : List (P × V)) (x y : P) :
    ∀ (a : V), (∀ pv ∈ s, reached st pv.1 x = reached st' pv.1 y) → lim st a s x = lim st' a s y := by
  induction s with
  | nil => intro a _; rfl
  | cons pv r ih =>
    obtain ⟨p, v⟩ := pv
    intro a h
    rw [lim_cons, lim_cons, h (p, v) (by simp), ih v (fun q hq => h q (List.mem_cons_of_mem _ hq))]

/-- the limit of a row list whose initial value went through `u₀` and whose row values went through `u₁` -/
theorem k6b_lim_split (st : Bool) (u0 u1 : V → W) (a : V) (p : P) (v : V) (r : List (P × V)) (x : P) :
    lim st (u0 a) (((p, v) :: r).map fun pv => (pv.1, u1 pv.2)) x
      = if reached st p x then u1 (lim st a ((p, v) :: r) x) else u0 (lim st a ((p, v) :: r) x) := by
  simp only [List.map_cons, lim_cons]
  split
  · exact lim_map st u1 v r x
  · rfl

/-- when the first row has been reached the limit is a row value -/
theorem k6b_lim_started (st : Bool) (a : V) (p : P) (v : V) (r : List (P × V)) (x : P)
    (h : reached st p x = true) : ∃ pv ∈ (p, v) :: r, lim st a ((p, v) :: r) x = pv.2 := by
  rw [lim_cons, if_pos h]
  rcases f7b_lim_cases st v r x with h1 | ⟨pv, hm, _, h2⟩
  · exact ⟨(p, v), by simp, h1⟩
  · exact ⟨pv, List.mem_cons_of_mem _ hm, h2⟩

section rr
variable [DecidableEq V]

/-- canonicalisation removes every row iff every row repeats the initial value -/
theorem k6b_rr_eq_nil_iff (a : V) (s : List (P × V)) : removeRedundant a s = [] ↔ ∀ pv ∈ s, pv.2 = a := by
  induction s with
  | nil => simp [removeRedundant]
  | cons pv r ih =>
    obtain ⟨p, v⟩ := pv
    simp only [removeRedundant]
    by_cases hva : v = a
    · subst hva
      rw [if_pos rfl, ih]
      constructor
      · intro h q hq
        rcases List.mem_cons.mp hq with h1 | h1
        · rw [h1]
        · exact h q h1
      · intro h q hq; exact h q (List.mem_cons_of_mem _ hq)
    · rw [if_neg hva]
      constructor
      · intro h; cases h
      · intro h; exact absurd (h (p, v) (by simp)) hva

end rr
end lists

namespace Stairs
variable {P : Type} [LinearOrder P]

/-! ## object equality of two results of the two-operand path -/

theorem k6b_forall_obs (T : F7bObs P → Prop) : (∀ o, T o) ↔ T .init ∧ ∀ st x, T (.at st x) :=
  ⟨fun h => ⟨h _, fun st x => h _⟩, fun h o => by cases o with | init => exact h.1 | «at» st x => exact h.2 st x⟩

/-- **two results of the two-operand path are the same object iff the operators agree on every observation** -/
theorem k6b_combine_eq_iff (op op' : Val → Val → Val) (f g f' g' : Stairs P) (cl : Side)
    (hf : f.WF) (hg : g.WF) (hf' : f'.WF) (hg' : g'.WF) :
    combine op' f' g' cl = combine op f g cl ↔
      ∀ o, op' (f7bObs o f') (f7bObs o g') = op (f7bObs o f) (f7bObs o g) := by
  constructor
  · intro h o
    rw [← f7b_obs_combine op' f' g' cl hf' hg', ← f7b_obs_combine op f g cl hf hg, h]
  · intro h
    apply f7b_ext _ _ (canonical_combine _ _ _ _ hf' hg') (canonical_combine _ _ _ _ hf hg) rfl
    intro o
    rw [f7b_obs_combine op' f' g' cl hf' hg', f7b_obs_combine op f g cl hf hg, h]

/-- the same for a value map against a result of the two-operand path -/
theorem k6b_map_eq_combine_iff (u : Val → Val) (op : Val → Val → Val) (f f' g : Stairs P) (cl : Side)
    (hf : f.WF) (hf' : f'.WF) (hg : g.WF) (hc : f'.closed = cl) :
    map u f' = combine op f g cl ↔ ∀ o, u (f7bObs o f') = op (f7bObs o f) (f7bObs o g) := by
  constructor
  · intro h o
    rw [← f7b_obs_map u f' hf', ← f7b_obs_combine op f g cl hf hg, h]
  · intro h
    apply f7b_ext _ _ (canonical_map _ _ hf') (canonical_combine _ _ _ _ hf hg) hc
    intro o
    rw [f7b_obs_map u f' hf', f7b_obs_combine op f g cl hf hg, h]

/-- **the checked form**: the receiver is the same, the second operand may have been tampered with as long as it
keeps its closed side and whether it has steps; both sides raise the same closed-side error -/
theorem k6b_checked_eq_iff (op op' : Val → Val → Val) (f g g' : Stairs P) (hf : f.WF) (hg : g.WF)
    (hg' : g'.WF) (hs : g'.hasSteps = g.hasSteps) (hc : g'.closed = g.closed) :
    combineChecked op' f g' = combineChecked op f g ↔
      Mismatch f g ∨ ∀ o, op' (f7bObs o f) (f7bObs o g') = op (f7bObs o f) (f7bObs o g) := by
  have hmm : Mismatch f g' ↔ Mismatch f g := by unfold Mismatch; rw [hs, hc]
  have hside : sideOf f g' = sideOf f g := by unfold sideOf; rw [hs, hc]
  by_cases hm : Mismatch f g
  · rw [combineChecked_eq, combineChecked_eq, if_pos hm, if_pos (hmm.mpr hm)]
    exact ⟨fun _ => Or.inl hm, fun _ => rfl⟩
  · rw [combineChecked_total op f g hm, combineChecked_total op' f g' (fun h => hm (hmm.mp h)), hside]
    constructor
    · intro h
      injection h with h
      exact Or.inr ((k6b_combine_eq_iff op op' f g f g' _ hf hg hf hg').mp h)
    · rintro (h | h)
      · exact absurd h hm
      · rw [(k6b_combine_eq_iff op op' f g f g' _ hf hg hf hg').mpr h]

/-! ## a masker whose initial value and step values are treated separately -/

/-- `g` with its initial value sent through `u₀` and its step values through `u₁` (not canonicalised: it is
only ever fed to the two-operand path) -/
def k6bSplit (u0 u1 : Val → Val) (g : Stairs P) : Stairs P :=
  ⟨u0 g.init, g.steps.map fun pv => (pv.1, u1 pv.2), g.closed⟩

/-- has the observation passed the first step point of `g`? (never for the initial value, never for a
step-free `g`; `p₁ ≤ x` for right limits, `p₁ < x` for left limits) -/
def k6bStarted : F7bObs P → Stairs P → Bool
  | .init, _ => false
  | .at st x, g => match g.steps with
    | [] => false
    | pv :: _ => reached st pv.1 x

theorem k6b_wf_split (u0 u1 : Val → Val) (g : Stairs P) (hg : g.WF) : (k6bSplit u0 u1 g).WF :=
  sorted_mapVals u1 g.steps hg
@[simp] theorem k6b_closed_split (u0 u1 : Val → Val) (g : Stairs P) : (k6bSplit u0 u1 g).closed = g.closed := rfl
@[simp] theorem k6b_hasSteps_split (u0 u1 : Val → Val) (g : Stairs P) :
    (k6bSplit u0 u1 g).hasSteps = g.hasSteps := by
  unfold k6bSplit hasSteps; cases g.steps <;> rfl

/-- **the observations of a split map**: `u₁` of the observation once the first step point has been passed,
`u₀` of it (it is the initial value there) before -/
theorem k6b_obs_split (u0 u1 : Val → Val) (g : Stairs P) (o : F7bObs P) :
    f7bObs o (k6bSplit u0 u1 g) = if k6bStarted o g then u1 (f7bObs o g) else u0 (f7bObs o g) := by
  cases o with
  | init => rfl
  | «at» st x =>
    obtain ⟨a, s, cl⟩ := g
    cases s with
    | nil => rfl
    | cons pv r =>
      obtain ⟨p, v⟩ := pv
      exact k6b_lim_split st u0 u1 a p v r x

/-- before the first step point the observation is the initial value -/
theorem k6b_obs_not_started (g : Stairs P) (o : F7bObs P) (h : k6bStarted o g = false) : f7bObs o g = g.init := by
  cases o with
  | init => rfl
  | «at» st x =>
    obtain ⟨a, s, cl⟩ := g
    cases s with
    | nil => rfl
    | cons pv r =>
      obtain ⟨p, v⟩ := pv
      have h' : reached st p x = false := h
      show lim st a ((p, v) :: r) x = a
      rw [lim_cons, h']; rfl

/-- after it, it is a step value -/
theorem k6b_obs_started (g : Stairs P) (o : F7bObs P) (h : k6bStarted o g = true) :
    ∃ pv ∈ g.steps, f7bObs o g = pv.2 := by
  cases o with
  | init => cases h
  | «at» st x =>
    obtain ⟨a, s, cl⟩ := g
    cases s with
    | nil => cases h
    | cons pv r =>
      obtain ⟨p, v⟩ := pv
      exact k6b_lim_started st a p v r x h

/-- every step value of a well-formed `g` is observed (as the right limit at its step point), past the first
step point -/
theorem k6b_row_observed (g : Stairs P) (hg : g.WF) (pv : P × Val) (h : pv ∈ g.steps) :
    k6bStarted (.at false pv.1) g = true ∧ f7bObs (.at false pv.1) g = pv.2 := by
  refine ⟨?_, f7b_lim_at_key g.init g.steps hg pv.1 pv.2 h⟩
  obtain ⟨a, s, cl⟩ := g
  cases s with
  | nil => cases h
  | cons qw r =>
    obtain ⟨q, w⟩ := qw
    show reached false q pv.1 = true
    rcases List.mem_cons.mp h with h1 | h1
    · rw [h1]; exact reached_self_right q
    · exact reached_of_lt_right ((sorted_tail hg).2 pv.1 (List.mem_map.mpr ⟨pv, h1, rfl⟩))

/-- **started observations = step values** -/
theorem k6b_started_forall_iff_rows (g : Stairs P) (hg : g.WF) (T : Val → Prop) :
    (∀ o, k6bStarted o g = true → T (f7bObs o g)) ↔ ∀ pv ∈ g.steps, T pv.2 := by
  constructor
  · intro h pv hm
    obtain ⟨h1, h2⟩ := k6b_row_observed g hg pv hm
    rw [← h2]; exact h _ h1
  · intro h o ho
    obtain ⟨pv, hm, h2⟩ := k6b_obs_started g o ho
    rw [h2]; exact h pv hm

/-- **all observations = the initial value and the step values** -/
theorem k6b_obs_forall_iff_rows (g : Stairs P) (hg : g.WF) (T : Val → Prop) :
    (∀ o, T (f7bObs o g)) ↔ T g.init ∧ ∀ pv ∈ g.steps, T pv.2 := by
  constructor
  · intro h
    exact ⟨h .init, (k6b_started_forall_iff_rows g hg T).mp (fun o _ => h o)⟩
  · rintro ⟨h0, h1⟩ o
    cases hs : k6bStarted o g with
    | true => exact (k6b_started_forall_iff_rows g hg T).mpr h1 o hs
    | false => rw [k6b_obs_not_started g o hs]; exact h0

/-! ## when a value map collapses to a step-free constant -/

theorem k6b_map_eq_const_iff (u : Val → Val) (f : Stairs P) (c : Val) :
    map u f = const c f.closed ↔ u f.init = c ∧ ∀ pv ∈ f.steps, u pv.2 = c := by
  unfold map canon const
  simp only [Stairs.mk.injEq, and_true]
  constructor
  · rintro ⟨h1, h2⟩
    refine ⟨h1, fun pv hm => ?_⟩
    rw [k6b_rr_eq_nil_iff] at h2
    have : u pv.2 = u f.init := h2 (pv.1, u pv.2) (List.mem_map.mpr ⟨pv, hm, rfl⟩)
    rw [this, h1]
  · rintro ⟨h1, h2⟩
    refine ⟨h1, ?_⟩
    rw [k6b_rr_eq_nil_iff]
    intro qw hq
    obtain ⟨pv, hm, rfl⟩ := List.mem_map.mp hq
    show u pv.2 = u f.init
    rw [h2 pv hm, h1]

/-- a value map of a step-free object is step-free -/
theorem k6b_map_stepfree (u : Val → Val) (a : Val) (cl : Side) :
    map u (⟨a, [], cl⟩ : Stairs P) = ⟨u a, [], cl⟩ := rfl

end Stairs
end SC
