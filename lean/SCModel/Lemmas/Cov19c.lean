import SCModel.Lemmas.Integral8b
/-!
# SCModel.Lemmas.Cov19c — joint moments of two step functions over a window (helpers for `Props/C19c`)

For `φ : ℚ → ℚ → ℚ` the *joint moment* `c19c_jmom φ f g a b` is `∫ φ(f, g)` over the part of `[a, b)` on which
both `f` and `g` are defined (it is the integral sum of the window of the model object `combine (vlift2 φ) f g`).
`cov`, `corr` and the windowed `mean` / `var` of anything built pointwise from `f` and `g` are functions of such
moments (`φ = 1, x, y, x·y, x², y²`).

* `c19c_wsum_joint`: **every** weighted sum of the window of **any** well-formed `F` that denotes `φ(f, g)` on
  `[a, b)` is a joint moment — the representation of `F` plays no role;
* `c19c_jmom_congr_den`, `c19c_jmom_add`, `c19c_jmom_smul`, `c19c_jmom_lin2`, `c19c_jmom_lin3`: joint moments
  depend on the denotations only and are linear in `φ`;
* `c19c_jmom_vadd`: additivity in a *function* argument (three operands), under a common-domain hypothesis;
* `c19c_covOf`: the closed form `Sxy/L − (Sx/L)(Sy/L)` (NaN when `L = 0`) with its algebra.
-/
set_option linter.unusedSectionVars false
set_option linter.unusedVariables false
namespace SC
namespace Stairs

/-! ## the joint object and the joint moments -/

/-- the model object that denotes `φ(f, g)` where both are defined, "undefined" elsewhere -/
def c19c_J (φ : Rat → Rat → Rat) (f g : Stairs Rat) : Stairs Rat := combine (vlift2 φ) f g f.closed

theorem c19c_wf_J (φ : Rat → Rat → Rat) (f g : Stairs Rat) (hf : f.WF) (hg : g.WF) : (c19c_J φ f g).WF :=
  wf_combine _ _ _ _ hf hg

theorem c19c_den_J (φ : Rat → Rat → Rat) (f g : Stairs Rat) (hf : f.WF) (hg : g.WF) (st : Bool) (x : Rat) :
    Den (c19c_J φ f g) st x = vlift2 φ (Den f st x) (Den g st x) :=
  den_combine _ _ _ _ hf hg st x

/-- **joint moment**: `∫ φ(f, g)` over the common domain of definition inside `[a, b)` -/
def c19c_jmom (φ : Rat → Rat → Rat) (f g : Stairs Rat) (a b : Rat) : Rat := intOn (c19c_J φ f g) a b

theorem c19c_vlift2_map (w : Rat → Rat) (φ : Rat → Rat → Rat) (A B : Val) :
    vlift2 (fun x y => w (φ x y)) A B = (vlift2 φ A B).map w := by
  cases A <;> cases B <;> rfl

/-- **the workhorse**: if `F` denotes `φ(f, g)` on `[a, b)` (undefined where either is), then every weighted sum of
the window of `F` is a joint moment of `f`, `g` -/
theorem c19c_wsum_joint (F f g : Stairs Rat) (hF : F.WF) (hf : f.WF) (hg : g.WF) (a b : Rat) (hab : a < b)
    (φ : Rat → Rat → Rat)
    (hden : ∀ x, a ≤ x → x < b → Den F false x = vlift2 φ (Den f false x) (Den g false x)) (w : Rat → Rat) :
    wsum w (window F a b) = c19c_jmom (fun x y => w (φ x y)) f g a b := by
  have := i8b_wsum_window_map w F (c19c_J (fun x y => w (φ x y)) f g) hF (c19c_wf_J _ f g hf hg) a b hab
    (fun x h1 h2 => by rw [c19c_den_J _ f g hf hg, hden x h1 h2, c19c_vlift2_map]) (fun v => v)
  exact this.symm

/-- joint moments depend only on the pointwise values `φ(f, g)` on the window -/
theorem c19c_jmom_congr_den (φ ψ : Rat → Rat → Rat) (f g f' g' : Stairs Rat) (hf : f.WF) (hg : g.WF)
    (hf' : f'.WF) (hg' : g'.WF) (a b : Rat) (hab : a < b)
    (h : ∀ x, a ≤ x → x < b →
      vlift2 φ (Den f false x) (Den g false x) = vlift2 ψ (Den f' false x) (Den g' false x)) :
    c19c_jmom φ f g a b = c19c_jmom ψ f' g' a b := by
  have := c19c_wsum_joint (c19c_J φ f g) f' g' (c19c_wf_J φ f g hf hg) hf' hg' a b hab ψ
    (fun x h1 h2 => by rw [c19c_den_J φ f g hf hg, h x h1 h2]) (fun v => v)
  exact this

theorem c19c_jmom_congr (φ ψ : Rat → Rat → Rat) (f g : Stairs Rat) (a b : Rat) (h : ∀ x y, φ x y = ψ x y) :
    c19c_jmom φ f g a b = c19c_jmom ψ f g a b := by
  have : φ = ψ := funext fun x => funext fun y => h x y
  rw [this]

/-- swapping the operands -/
theorem c19c_jmom_swap (φ : Rat → Rat → Rat) (f g : Stairs Rat) (hf : f.WF) (hg : g.WF) (a b : Rat) (hab : a < b) :
    c19c_jmom φ f g a b = c19c_jmom (fun x y => φ y x) g f a b :=
  c19c_jmom_congr_den _ _ f g g f hf hg hg hf a b hab (fun x _ _ => by
    cases Den f false x <;> cases Den g false x <;> rfl)

/-- additivity in the weight -/
theorem c19c_jmom_add (φ ψ : Rat → Rat → Rat) (f g : Stairs Rat) (hf : f.WF) (hg : g.WF) (a b : Rat) (hab : a < b) :
    c19c_jmom (fun x y => φ x y + ψ x y) f g a b = c19c_jmom φ f g a b + c19c_jmom ψ f g a b := by
  have := i8b_window_vadd (c19c_J φ f g) (c19c_J ψ f g) (c19c_J (fun x y => φ x y + ψ x y) f g)
    (c19c_wf_J _ f g hf hg) (c19c_wf_J _ f g hf hg) (c19c_wf_J _ f g hf hg) a b hab
    (fun x _ _ => by
      rw [c19c_den_J _ f g hf hg, c19c_den_J _ f g hf hg, c19c_den_J _ f g hf hg]
      cases Den f false x <;> cases Den g false x <;> rfl)
    (fun x _ _ => by
      rw [c19c_den_J _ f g hf hg, c19c_den_J _ f g hf hg]
      cases Den f false x <;> cases Den g false x <;> simp [vlift2])
  exact this.1

/-- homogeneity in the weight (every `k`, `0` included) -/
theorem c19c_jmom_smul (k : Rat) (φ : Rat → Rat → Rat) (f g : Stairs Rat) (hf : f.WF) (hg : g.WF) (a b : Rat)
    (hab : a < b) : c19c_jmom (fun x y => k * φ x y) f g a b = k * c19c_jmom φ f g a b := by
  have := i8b_wsum_window_map (fun v => k * v) (c19c_J φ f g) (c19c_J (fun x y => k * φ x y) f g)
    (c19c_wf_J _ f g hf hg) (c19c_wf_J _ f g hf hg) a b hab
    (fun x _ _ => by
      rw [c19c_den_J _ f g hf hg, c19c_den_J _ f g hf hg]
      cases Den f false x <;> cases Den g false x <;> rfl) (fun v => v)
  unfold c19c_jmom intOn
  rw [this]
  exact i8b_wsum_smul k (fun v => v) _

theorem c19c_jmom_lin2 (k l : Rat) (φ ψ : Rat → Rat → Rat) (f g : Stairs Rat) (hf : f.WF) (hg : g.WF) (a b : Rat)
    (hab : a < b) :
    c19c_jmom (fun x y => k * φ x y + l * ψ x y) f g a b = k * c19c_jmom φ f g a b + l * c19c_jmom ψ f g a b := by
  rw [c19c_jmom_add (fun x y => k * φ x y) (fun x y => l * ψ x y) f g hf hg a b hab,
    c19c_jmom_smul k φ f g hf hg a b hab, c19c_jmom_smul l ψ f g hf hg a b hab]

theorem c19c_jmom_lin3 (k l m : Rat) (φ ψ χ : Rat → Rat → Rat) (f g : Stairs Rat) (hf : f.WF) (hg : g.WF)
    (a b : Rat) (hab : a < b) :
    c19c_jmom (fun x y => k * φ x y + l * ψ x y + m * χ x y) f g a b
      = k * c19c_jmom φ f g a b + l * c19c_jmom ψ f g a b + m * c19c_jmom χ f g a b := by
  rw [c19c_jmom_add (fun x y => k * φ x y + l * ψ x y) (fun x y => m * χ x y) f g hf hg a b hab,
    c19c_jmom_lin2 k l φ ψ f g hf hg a b hab, c19c_jmom_smul m χ f g hf hg a b hab]

/-- the common defined length: the moment of the weight `1` -/
theorem c19c_lenOn_J (φ : Rat → Rat → Rat) (f g : Stairs Rat) (hf : f.WF) (hg : g.WF) (a b : Rat) (hab : a < b) :
    lenOn (c19c_J φ f g) a b = c19c_jmom (fun _ _ => 1) f g a b := by
  rw [lenOn_eq_wsum]
  exact c19c_wsum_joint (c19c_J φ f g) f g (c19c_wf_J φ f g hf hg) hf hg a b hab φ
    (fun x _ _ => c19c_den_J φ f g hf hg false x) (fun _ => 1)

/-- the common defined length is non-negative -/
theorem c19c_jlen_nonneg (f g : Stairs Rat) (hf : f.WF) (hg : g.WF) (a b : Rat) (hab : a < b) :
    0 ≤ c19c_jmom (fun _ _ => 1) f g a b := by
  rw [← c19c_lenOn_J (fun _ _ => 1) f g hf hg a b hab]
  exact i8b_lenOn_nonneg _ (c19c_wf_J _ f g hf hg) a b hab

/-- the common defined length vanishes iff `f`, `g` are nowhere both defined in `[a, b)` -/
theorem c19c_jlen_eq_zero_iff (f g : Stairs Rat) (hf : f.WF) (hg : g.WF) (a b : Rat) (hab : a < b) :
    c19c_jmom (fun _ _ => 1) f g a b = 0 ↔
      ∀ x, a ≤ x → x < b → (Den f false x = none ∨ Den g false x = none) := by
  rw [← c19c_lenOn_J (fun _ _ => 1) f g hf hg a b hab,
    i8b_lenOn_eq_zero_iff _ (c19c_wf_J _ f g hf hg) a b hab]
  constructor
  · intro h x h1 h2
    have := h x h1 h2
    rw [c19c_den_J _ f g hf hg] at this
    cases hA : Den f false x with
    | none => left; rfl
    | some u =>
      cases hB : Den g false x with
      | none => right; rfl
      | some v => rw [hA, hB] at this; cases this
  · intro h x h1 h2
    rw [c19c_den_J _ f g hf hg]
    rcases h x h1 h2 with h0 | h0
    · rw [h0]; rfl
    · rw [h0]; cases Den f false x <;> rfl

/-- **additivity in a function argument** (three operands): if `Z` denotes `X + Y` on `[a, b)` and `X`, `Y` are
defined on the same part of `[a, b)`, integral sums add and defined lengths agree -/
theorem c19c_intOn_vadd (X Y Z : Stairs Rat) (hX : X.WF) (hY : Y.WF) (hZ : Z.WF) (a b : Rat) (hab : a < b)
    (hden : ∀ x, a ≤ x → x < b → Den Z false x = vadd (Den X false x) (Den Y false x))
    (hdom : ∀ x, a ≤ x → x < b → (Den X false x = none ↔ Den Y false x = none)) :
    intOn Z a b = intOn X a b + intOn Y a b := (i8b_window_vadd X Y Z hX hY hZ a b hab hden hdom).1

/-- joint moments of `(s, g)` where `s` denotes `f + h`, for a weight that is additive in its first argument;
`f` and `h` must be defined on the same part of the window *as far as `g` is defined there* -/
theorem c19c_jmom_vadd (φ : Rat → Rat → Rat) (hφ : ∀ x x' y, φ (x + x') y = φ x y + φ x' y)
    (f h s g : Stairs Rat) (hf : f.WF) (hh : h.WF) (hs : s.WF) (hg : g.WF) (a b : Rat) (hab : a < b)
    (hden : ∀ x, a ≤ x → x < b → Den s false x = vadd (Den f false x) (Den h false x))
    (hdom : ∀ x, a ≤ x → x < b → Den g false x ≠ none → (Den f false x = none ↔ Den h false x = none)) :
    c19c_jmom φ s g a b = c19c_jmom φ f g a b + c19c_jmom φ h g a b := by
  apply c19c_intOn_vadd (c19c_J φ f g) (c19c_J φ h g) (c19c_J φ s g) (c19c_wf_J _ f g hf hg)
    (c19c_wf_J _ h g hh hg) (c19c_wf_J _ s g hs hg) a b hab
  · intro x h1 h2
    rw [c19c_den_J _ s g hs hg, c19c_den_J _ f g hf hg, c19c_den_J _ h g hh hg, hden x h1 h2]
    cases Den f false x <;> cases Den h false x <;> cases Den g false x <;>
      simp [vlift2, vadd, hφ]
  · intro x h1 h2
    rw [c19c_den_J _ f g hf hg, c19c_den_J _ h g hh hg]
    cases hG : Den g false x with
    | none => cases Den f false x <;> cases Den h false x <;> simp [vlift2]
    | some v =>
      have := hdom x h1 h2 (by rw [hG]; exact fun h => by cases h)
      cases hA : Den f false x <;> cases hB : Den h false x <;> simp [vlift2, hA, hB] at this ⊢

/-- … and a weight that ignores its first argument sees no difference between `s`, `f` and `h` -/
theorem c19c_jmom_vadd_snd (φ : Rat → Rat) (f h s g : Stairs Rat) (hf : f.WF) (hh : h.WF) (hs : s.WF) (hg : g.WF)
    (a b : Rat) (hab : a < b)
    (hden : ∀ x, a ≤ x → x < b → Den s false x = vadd (Den f false x) (Den h false x))
    (hdom : ∀ x, a ≤ x → x < b → Den g false x ≠ none → (Den f false x = none ↔ Den h false x = none)) :
    c19c_jmom (fun _ y => φ y) s g a b = c19c_jmom (fun _ y => φ y) f g a b ∧
    c19c_jmom (fun _ y => φ y) h g a b = c19c_jmom (fun _ y => φ y) f g a b := by
  constructor
  · apply c19c_jmom_congr_den _ _ s g f g hs hg hf hg a b hab
    intro x h1 h2
    rw [hden x h1 h2]
    cases hG : Den g false x with
    | none => cases Den f false x <;> cases Den h false x <;> rfl
    | some v =>
      have := hdom x h1 h2 (by rw [hG]; exact fun h => by cases h)
      cases hA : Den f false x <;> cases hB : Den h false x <;> simp [vlift2, vadd, hA, hB] at this ⊢
  · apply c19c_jmom_congr_den _ _ h g f g hh hg hf hg a b hab
    intro x h1 h2
    cases hG : Den g false x with
    | none => cases Den f false x <;> cases Den h false x <;> rfl
    | some v =>
      have := hdom x h1 h2 (by rw [hG]; exact fun h => by cases h)
      cases hA : Den f false x <;> cases hB : Den h false x <;> simp [vlift2, hA, hB] at this ⊢

/-! ## the closed form of `cov` / `var` and its algebra -/

/-- `E[xy] − E[x]·E[y]` from the moments `L = ∫1`, `Sxy = ∫xy`, `Sx = ∫x`, `Sy = ∫y`; NaN when `L = 0` -/
def c19c_covOf (L Sxy Sx Sy : Rat) : Val := if L = 0 then none else some (Sxy / L - (Sx / L) * (Sy / L))

theorem c19c_covOf_zero (Sxy Sx Sy : Rat) : c19c_covOf 0 Sxy Sx Sy = none := if_pos rfl

theorem c19c_covOf_ne (L Sxy Sx Sy : Rat) (h : L ≠ 0) :
    c19c_covOf L Sxy Sx Sy = some (Sxy / L - (Sx / L) * (Sy / L)) := if_neg h

/-- the three means of `cov` combine to the closed form -/
theorem c19c_covOf_means (L Sxy Sx Sy : Rat) :
    vsub (if L = 0 then none else some (Sxy / L))
      (vmul (if L = 0 then none else some (Sx / L)) (if L = 0 then none else some (Sy / L)))
      = c19c_covOf L Sxy Sx Sy := by
  unfold c19c_covOf
  by_cases h : L = 0
  · simp only [if_pos h]; rfl
  · simp only [if_neg h]; rfl

theorem c19c_covOf_symm (L Sxy Sx Sy : Rat) : c19c_covOf L Sxy Sx Sy = c19c_covOf L Sxy Sy Sx := by
  unfold c19c_covOf
  by_cases h : L = 0
  · simp only [if_pos h]
  · simp only [if_neg h]; congr 1; ring

/-- `x ↦ k·x + d` in the first slot -/
theorem c19c_covOf_affine (L Sxy Sx Sy k d : Rat) :
    c19c_covOf L (k * Sxy + d * Sy) (k * Sx + d * L) Sy = (c19c_covOf L Sxy Sx Sy).map (fun c => k * c) := by
  unfold c19c_covOf
  by_cases h : L = 0
  · simp only [if_pos h]; rfl
  · simp only [if_neg h]
    show some _ = some _
    congr 1
    field_simp
    ring

/-- `x ↦ k·x + d` in both slots of a variance -/
theorem c19c_varOf_affine (L Sxx Sx k d : Rat) :
    c19c_covOf L (k * k * Sxx + 2 * k * d * Sx + d * d * L) (k * Sx + d * L) (k * Sx + d * L)
      = (c19c_covOf L Sxx Sx Sx).map (fun v => k * k * v) := by
  unfold c19c_covOf
  by_cases h : L = 0
  · simp only [if_pos h]; rfl
  · simp only [if_neg h]
    show some _ = some _
    congr 1
    field_simp
    ring

/-- additivity in the first slot -/
theorem c19c_covOf_add (L Sxy Sx Szy Sz Sy : Rat) :
    c19c_covOf L (Sxy + Szy) (Sx + Sz) Sy = vadd (c19c_covOf L Sxy Sx Sy) (c19c_covOf L Szy Sz Sy) := by
  unfold c19c_covOf
  by_cases h : L = 0
  · simp only [if_pos h]; rfl
  · simp only [if_neg h]
    show some _ = some _
    congr 1
    field_simp
    ring

/-- a constant in the second slot -/
theorem c19c_covOf_const (L Sx c : Rat) :
    c19c_covOf L (c * Sx) Sx (c * L) = if L = 0 then none else some 0 := by
  unfold c19c_covOf
  by_cases h : L = 0
  · simp only [if_pos h]
  · simp only [if_neg h]
    congr 1
    field_simp
    ring

/-- variance of a sum -/
theorem c19c_varOf_add (L Sxx Sxy Syy Sx Sy : Rat) :
    c19c_covOf L (1 * Sxx + 2 * Sxy + 1 * Syy) (Sx + Sy) (Sx + Sy)
      = vadd (vadd (c19c_covOf L Sxx Sx Sx) (c19c_covOf L Syy Sy Sy)) (vmul (some 2) (c19c_covOf L Sxy Sx Sy)) := by
  unfold c19c_covOf
  by_cases h : L = 0
  · simp only [if_pos h]; rfl
  · simp only [if_neg h]
    show some _ = some _
    congr 1
    field_simp
    ring

/-- variance of a difference -/
theorem c19c_varOf_sub (L Sxx Sxy Syy Sx Sy : Rat) :
    c19c_covOf L (1 * Sxx + (-2) * Sxy + 1 * Syy) (Sx - Sy) (Sx - Sy)
      = vsub (vadd (c19c_covOf L Sxx Sx Sx) (c19c_covOf L Syy Sy Sy)) (vmul (some 2) (c19c_covOf L Sxy Sx Sy)) := by
  unfold c19c_covOf
  by_cases h : L = 0
  · simp only [if_pos h]; rfl
  · simp only [if_neg h]
    show some _ = some _
    congr 1
    field_simp
    ring

/-- polarisation -/
theorem c19c_polar (L Sxx Sxy Syy Sx Sy : Rat) :
    vsub (c19c_covOf L (1 * Sxx + 2 * Sxy + 1 * Syy) (Sx + Sy) (Sx + Sy))
        (c19c_covOf L (1 * Sxx + (-2) * Sxy + 1 * Syy) (Sx - Sy) (Sx - Sy))
      = vmul (some 4) (c19c_covOf L Sxy Sx Sy) := by
  unfold c19c_covOf
  by_cases h : L = 0
  · simp only [if_pos h]; rfl
  · simp only [if_neg h]
    show some _ = some _
    congr 1
    field_simp
    ring

end Stairs
end SC
