import SCModel.Lemmas.Integral8b
/-!
# SCModel.Lemmas.Mean8c — table-level helpers for `Props/C08c`

* `mergeTables`: the key-wise sum of two `(key, weight)` tables sorted by key, with its laws
  (`m8c_entry_merge`, `m8c_keys_merge`, `m8c_ksorted_merge`, `m8c_pos_merge`, `m8c_sumBy_merge`);
* positivity through `insertSum` / `vsFold` (`m8c_pos_vsFold`), `vsFold [] X = X` for a key-sorted `X`
  (`m8c_vsFold_self`);
* entries of a table whose keys are mapped (`m8c_entry_mapKeys`), of a reversed table (`m8c_entry_reverse`);
  sortedness of mapped / reversed tables under strictly monotone / antitone key maps;
* the pieces of a function whose values are mapped (`m8c_definedPieces_mapVals`) or whose points are translated
  (`m8c_pieces_translate`);
* sums of squares: `m8c_sumBy_sq_shift` (`Σ (v − m)² l` around an arbitrary centre).
-/
set_option linter.unusedSectionVars false
set_option linter.unusedVariables false
namespace SC
namespace Stairs

/-! ## `mergeTables` -/

/-- key-wise sum of two `(key, weight)` tables that are sorted by key -/
def mergeTables : List (Rat × Rat) → List (Rat × Rat) → List (Rat × Rat)
  | [], t => t
  | s, [] => s
  | (v, a) :: s, (w, b) :: t =>
    if v < w then (v, a) :: mergeTables s ((w, b) :: t)
    else if w < v then (w, b) :: mergeTables ((v, a) :: s) t
    else (v, a + b) :: mergeTables s t
termination_by s t => s.length + t.length

theorem m8c_merge_nil_left (t : List (Rat × Rat)) : mergeTables [] t = t := by
  unfold mergeTables; rfl

theorem m8c_merge_nil_right (s : List (Rat × Rat)) : mergeTables s [] = s := by
  cases s with
  | nil => exact m8c_merge_nil_left []
  | cons a s => unfold mergeTables; rfl

/-- the entry under every key is the sum of the two entries -/
theorem m8c_entry_merge (s t : List (Rat × Rat)) (k : Rat) :
    entry (mergeTables s t) k = entry s k + entry t k := by
  fun_induction mergeTables s t with
  | case1 t => simp
  | case2 s h => simp
  | case3 v a s w b t hvw ih => rw [entry_cons, ih, entry_cons (v, a) s]; ring
  | case4 v a s w b t hvw hwv ih => rw [entry_cons, ih, entry_cons (w, b) t]; ring
  | case5 v a s w b t hvw hwv ih =>
    have : v = w := le_antisymm (not_lt.mp hwv) (not_lt.mp hvw)
    subst this
    rw [entry_cons, ih, entry_cons, entry_cons]
    by_cases h : v = k
    · simp [h]; ring
    · simp [h]

theorem m8c_keys_merge (s t : List (Rat × Rat)) (k : Rat) :
    k ∈ (mergeTables s t).map Prod.fst ↔ k ∈ s.map Prod.fst ∨ k ∈ t.map Prod.fst := by
  fun_induction mergeTables s t with
  | case1 t => simp
  | case2 s h => simp
  | case3 v a s w b t hvw ih => simp only [List.map_cons, List.mem_cons, ih]; tauto
  | case4 v a s w b t hvw hwv ih => simp only [List.map_cons, List.mem_cons, ih]; tauto
  | case5 v a s w b t hvw hwv ih =>
    have : v = w := le_antisymm (not_lt.mp hwv) (not_lt.mp hvw)
    subst this
    simp only [List.map_cons, List.mem_cons, ih]; tauto

theorem m8c_ksorted_merge (s t : List (Rat × Rat)) (hs : KSorted s) (ht : KSorted t) :
    KSorted (mergeTables s t) := by
  fun_induction mergeTables s t with
  | case1 t => exact ht
  | case2 s h => exact hs
  | case3 v a s w b t hvw ih =>
    have ts := ksorted_tail hs
    have tt := ksorted_tail ht
    have := ih ts.1 ht
    unfold KSorted at this ⊢
    rw [List.map_cons, List.pairwise_cons]
    refine ⟨?_, this⟩
    intro z hz
    rcases (m8c_keys_merge _ _ z).mp hz with h | h
    · exact ts.2 z h
    · rcases List.mem_cons.mp h with h | h
      · rw [h]; exact hvw
      · exact lt_trans hvw (tt.2 z h)
  | case4 v a s w b t hvw hwv ih =>
    have ts := ksorted_tail hs
    have tt := ksorted_tail ht
    have := ih hs tt.1
    unfold KSorted at this ⊢
    rw [List.map_cons, List.pairwise_cons]
    refine ⟨?_, this⟩
    intro z hz
    rcases (m8c_keys_merge _ _ z).mp hz with h | h
    · rcases List.mem_cons.mp h with h | h
      · rw [h]; exact hwv
      · exact lt_trans hwv (ts.2 z h)
    · exact tt.2 z h
  | case5 v a s w b t hvw hwv ih =>
    have hvw' : v = w := le_antisymm (not_lt.mp hwv) (not_lt.mp hvw)
    subst hvw'
    have ts := ksorted_tail hs
    have tt := ksorted_tail ht
    have := ih ts.1 tt.1
    unfold KSorted at this ⊢
    rw [List.map_cons, List.pairwise_cons]
    refine ⟨?_, this⟩
    intro z hz
    rcases (m8c_keys_merge _ _ z).mp hz with h | h
    · exact ts.2 z h
    · exact tt.2 z h

theorem m8c_pos_merge (s t : List (Rat × Rat)) (hs : ∀ e ∈ s, 0 < e.2) (ht : ∀ e ∈ t, 0 < e.2) :
    ∀ e ∈ mergeTables s t, 0 < e.2 := by
  fun_induction mergeTables s t with
  | case1 t => exact ht
  | case2 s h => exact hs
  | case3 v a s w b t hvw ih =>
    intro e he
    rcases List.mem_cons.mp he with h | h
    · rw [h]; exact hs _ (by simp)
    · exact ih (fun e h => hs e (by simp [h])) ht e h
  | case4 v a s w b t hvw hwv ih =>
    intro e he
    rcases List.mem_cons.mp he with h | h
    · rw [h]; exact ht _ (by simp)
    · exact ih hs (fun e h => ht e (by simp [h])) e h
  | case5 v a s w b t hvw hwv ih =>
    intro e he
    rcases List.mem_cons.mp he with h | h
    · rw [h]
      have h1 := hs (v, a) (by simp)
      have h2 := ht (w, b) (by simp)
      show 0 < a + b
      simp only at h1 h2
      linarith
    · exact ih (fun e h => hs e (by simp [h])) (fun e h => ht e (by simp [h])) e h

/-- every key-weighted sum over the merged table is the sum over the two tables -/
theorem m8c_sumBy_merge (g : Rat → Rat) (s t : List (Rat × Rat)) :
    sumBy (fun vl => g vl.1 * vl.2) (mergeTables s t)
      = sumBy (fun vl => g vl.1 * vl.2) s + sumBy (fun vl => g vl.1 * vl.2) t := by
  fun_induction mergeTables s t with
  | case1 t => simp
  | case2 s h => simp
  | case3 v a s w b t hvw ih => rw [sumBy_cons, ih, sumBy_cons _ (v, a) s]; ring
  | case4 v a s w b t hvw hwv ih => rw [sumBy_cons, ih, sumBy_cons _ (w, b) t]; ring
  | case5 v a s w b t hvw hwv ih =>
    have : v = w := le_antisymm (not_lt.mp hwv) (not_lt.mp hvw)
    subst this
    rw [sumBy_cons, ih, sumBy_cons, sumBy_cons]; ring

/-! ## positivity and sorted input of `vsFold` -/

theorem m8c_pos_insertSum (v len : Rat) (hl : 0 < len) (l : List (Rat × Rat)) (h : ∀ e ∈ l, 0 < e.2) :
    ∀ e ∈ insertSum v len l, 0 < e.2 := by
  induction l with
  | nil => intro e he; simp [insertSum] at he; rw [he]; exact hl
  | cons a r ih =>
    obtain ⟨w, x⟩ := a
    have hx : 0 < x := h (w, x) (by simp)
    have hr : ∀ e ∈ r, 0 < e.2 := fun e he => h e (by simp [he])
    simp only [insertSum]
    split
    · intro e he
      rcases List.mem_cons.mp he with h' | h'
      · rw [h']; exact hl
      · exact h e h'
    · split
      · intro e he
        rcases List.mem_cons.mp he with h' | h'
        · rw [h']; show 0 < x + len; linarith
        · exact hr e h'
      · intro e he
        rcases List.mem_cons.mp he with h' | h'
        · rw [h']; exact hx
        · exact ih hr e h'

theorem m8c_pos_vsFold (acc d : List (Rat × Rat)) (ha : ∀ e ∈ acc, 0 < e.2) (hd : ∀ e ∈ d, 0 < e.2) :
    ∀ e ∈ vsFold acc d, 0 < e.2 := by
  induction d generalizing acc with
  | nil => exact ha
  | cons a d ih =>
    rw [vsFold_cons]
    exact ih _ (m8c_pos_insertSum _ _ (hd a (by simp)) _ ha) (fun e he => hd e (by simp [he]))

/-- inserting a key larger than all present keys appends a row -/
theorem m8c_insertSum_append (v len : Rat) (l : List (Rat × Rat)) (h : ∀ k ∈ l.map Prod.fst, k < v) :
    insertSum v len l = l ++ [(v, len)] := by
  induction l with
  | nil => rfl
  | cons a r ih =>
    obtain ⟨w, x⟩ := a
    have hw : w < v := h w (by simp)
    simp only [insertSum, if_neg (not_lt.mpr (le_of_lt hw)), if_neg (ne_of_gt hw), List.cons_append]
    rw [ih (fun k hk => h k (by simp only [List.map_cons, List.mem_cons]; exact Or.inr hk))]

/-- folding a key-sorted list into a table whose keys are all smaller just appends it -/
theorem m8c_vsFold_append_sorted (acc d : List (Rat × Rat)) (h : KSorted (acc ++ d)) : vsFold acc d = acc ++ d := by
  induction d generalizing acc with
  | nil => simp
  | cons a d ih =>
    obtain ⟨v, len⟩ := a
    rw [vsFold_cons]
    have hlt : ∀ k ∈ acc.map Prod.fst, k < v := by
      intro k hk
      unfold KSorted at h
      rw [List.map_append, List.pairwise_append] at h
      exact h.2.2 k hk v (by simp)
    rw [m8c_insertSum_append v len acc hlt, ih]
    · simp
    · simpa using h

/-- **a key-sorted table is reproduced by `vsFold`** -/
theorem m8c_vsFold_self (X : List (Rat × Rat)) (h : KSorted X) : vsFold [] X = X := by
  have := m8c_vsFold_append_sorted [] X (by simpa using h)
  simpa using this

/-! ## tables with mapped keys, reversed tables -/

/-- the entry under `k'` of a table whose keys went through `φ` -/
theorem m8c_entry_mapKeys (φ : Rat → Rat) (T : List (Rat × Rat)) (k' : Rat) :
    entry (T.map fun vl => (φ vl.1, vl.2)) k'
      = sumBy (fun vl => (fun v => if φ v = k' then (1 : Rat) else 0) vl.1 * vl.2) T := by
  induction T with
  | nil => rfl
  | cons a T ih =>
    rw [List.map_cons, entry_cons, ih, sumBy_cons]
    by_cases h : φ a.1 = k' <;> simp [h]

theorem m8c_sumBy_reverse {α : Type} (g : α → Rat) (l : List α) : sumBy g l.reverse = sumBy g l := by
  induction l with
  | nil => rfl
  | cons a l ih => rw [List.reverse_cons, sumBy_append, ih, sumBy_cons, sumBy_cons, sumBy_nil]; ring

theorem m8c_entry_reverse (T : List (Rat × Rat)) (k : Rat) : entry T.reverse k = entry T k := by
  unfold entry
  rw [List.filter_reverse, m8c_sumBy_reverse]

theorem m8c_ksorted_mapKeys_mono (φ : Rat → Rat) (hφ : ∀ x y, x < y → φ x < φ y) (T : List (Rat × Rat))
    (h : KSorted T) : KSorted (T.map fun vl => (φ vl.1, vl.2)) := by
  unfold KSorted at h ⊢
  rw [List.map_map]
  have : (Prod.fst ∘ fun vl : Rat × Rat => (φ vl.1, vl.2)) = φ ∘ Prod.fst := rfl
  rw [this, ← List.map_map]
  exact List.Pairwise.map φ (fun a b hab => hφ a b hab) h

theorem m8c_ksorted_mapKeys_anti (φ : Rat → Rat) (hφ : ∀ x y, x < y → φ y < φ x) (T : List (Rat × Rat))
    (h : KSorted T) : KSorted (T.map fun vl => (φ vl.1, vl.2)).reverse := by
  unfold KSorted at h ⊢
  rw [List.map_reverse, List.pairwise_reverse, List.map_map]
  have : (Prod.fst ∘ fun vl : Rat × Rat => (φ vl.1, vl.2)) = φ ∘ Prod.fst := rfl
  rw [this, ← List.map_map]
  exact List.Pairwise.map φ (fun a b hab => hφ a b hab) h

/-! ## pieces under a change of values / a translation of points -/

theorem m8c_definedPieces_mapVals (φ : Rat → Rat) (s : List (Rat × Val)) :
    definedPieces (s.map fun pv => (pv.1, pv.2.map φ)) = (definedPieces s).map fun vl => (φ vl.1, vl.2) := by
  induction s with
  | nil => rfl
  | cons a t ih =>
    cases t with
    | nil => simp [definedPieces_singleton]
    | cons b t' =>
      obtain ⟨p, v⟩ := a
      obtain ⟨q, w⟩ := b
      simp only [List.map_cons] at ih ⊢
      cases v with
      | none =>
        show definedPieces ((p, none) :: (q, w.map φ) :: _) = _
        rw [definedPieces_cons_none, definedPieces_cons_none, ih]
      | some x =>
        show definedPieces ((p, some (φ x)) :: (q, w.map φ) :: _) = _
        rw [definedPieces_cons_some, definedPieces_cons_some, ih]; rfl

/-- translating every step point keeps the lengths and the values of the pieces -/
theorem m8c_pieces_translate (d : Rat) (s : List (Rat × Val)) :
    (pieces (s.map fun pv => (pv.1 + d, pv.2))).map (fun pqv => (pqv.2.2, pqv.2.1 - pqv.1))
      = (pieces s).map (fun pqv => (pqv.2.2, pqv.2.1 - pqv.1)) := by
  induction s with
  | nil => rfl
  | cons a t ih =>
    cases t with
    | nil => simp [pieces_singleton]
    | cons b t' =>
      obtain ⟨p, v⟩ := a
      obtain ⟨q, w⟩ := b
      simp only [List.map_cons] at ih ⊢
      rw [pieces_cons_cons, pieces_cons_cons, List.map_cons, List.map_cons, ih]
      congr 2
      ring


/-! ## more on `mergeTables` -/

theorem m8c_merge_cons_cons (v a : Rat) (s : List (Rat × Rat)) (w b : Rat) (t : List (Rat × Rat)) :
    mergeTables ((v, a) :: s) ((w, b) :: t) =
      if v < w then (v, a) :: mergeTables s ((w, b) :: t)
      else if w < v then (w, b) :: mergeTables ((v, a) :: s) t
      else (v, a + b) :: mergeTables s t := by
  rw [mergeTables]

theorem m8c_merge_comm (s t : List (Rat × Rat)) : mergeTables s t = mergeTables t s := by
  fun_induction mergeTables s t with
  | case1 t => rw [m8c_merge_nil_right]
  | case2 s h => rw [m8c_merge_nil_left]
  | case3 v a s w b t hvw ih =>
    rw [m8c_merge_cons_cons w b t v a s, if_neg (not_lt.mpr (le_of_lt hvw)), if_pos hvw, ih]
  | case4 v a s w b t hvw hwv ih =>
    rw [m8c_merge_cons_cons w b t v a s, if_pos hwv, ih]
  | case5 v a s w b t hvw hwv ih =>
    have : v = w := le_antisymm (not_lt.mp hwv) (not_lt.mp hvw)
    subst this
    rw [m8c_merge_cons_cons v b t v a s, if_neg hvw, if_neg hvw, ih, add_comm]

/-- the total weight adds -/
theorem m8c_total_merge (s t : List (Rat × Rat)) :
    sumBy (·.2) (mergeTables s t) = sumBy (·.2) s + sumBy (·.2) t := by
  rw [sumBy_snd_eq_weight, sumBy_snd_eq_weight s, sumBy_snd_eq_weight t]
  exact m8c_sumBy_merge (fun _ => 1) s t

/-! ## scaled shares: `cumsum`, `xtileRows` -/

theorem m8c_cumsum_scale (ρ acc : Rat) (S : List (Rat × Rat)) :
    cumsum (acc * ρ) (S.map fun vs => (vs.1, vs.2 * ρ)) = (cumsum acc S).map fun vc => (vc.1, vc.2 * ρ) := by
  induction S generalizing acc with
  | nil => rfl
  | cons a S ih =>
    obtain ⟨v, s⟩ := a
    rw [List.map_cons, cumsum_cons, cumsum_cons, List.map_cons]
    have : acc * ρ + s * ρ = (acc + s) * ρ := by ring
    rw [this, ih]

/-- cumulative shares multiplied by `ρ`: the same rows with the scale multiplied by `ρ` -/
theorem m8c_xtileRows_scaled_cum (ρ scale pp : Rat) (cs : List (Rat × Rat)) :
    xtileRows scale pp (cs.map fun vc => (vc.1, vc.2 * ρ)) = xtileRows (ρ * scale) pp cs := by
  induction cs generalizing pp with
  | nil => rfl
  | cons a r ih =>
    obtain ⟨v, c⟩ := a
    cases r with
    | nil =>
      simp only [List.map_cons, List.map_nil, xtileRows_one]
      have : c * ρ * scale = c * (ρ * scale) := by ring
      rw [this]
    | cons b r' =>
      have : c * ρ * scale = c * (ρ * scale) := by ring
      simp only [List.map_cons] at ih ⊢
      rw [xtileRows_cons_cons, xtileRows_cons_cons, this, ih]

/-! ## grouping a table with distinct keys only permutes it -/

theorem m8c_insertSum_perm (v len : Rat) (l : List (Rat × Rat)) (h : v ∉ l.map Prod.fst) :
    (insertSum v len l).Perm ((v, len) :: l) := by
  induction l with
  | nil => exact List.Perm.refl _
  | cons a r ih =>
    obtain ⟨w, x⟩ := a
    simp only [List.map_cons, List.mem_cons, not_or] at h
    simp only [insertSum]
    split
    · exact List.Perm.refl _
    · rw [if_neg h.1]
      exact ((ih h.2).cons (w, x)).trans (List.Perm.swap _ _ _)

theorem m8c_vsFold_perm (acc d : List (Rat × Rat)) (h : ((acc ++ d).map Prod.fst).Nodup) :
    (vsFold acc d).Perm (acc ++ d) := by
  induction d generalizing acc with
  | nil => simp
  | cons a d ih =>
    obtain ⟨v, len⟩ := a
    rw [vsFold_cons]
    rw [List.map_append, List.map_cons] at h
    have hv : v ∉ acc.map Prod.fst := by
      intro hm
      have := (List.nodup_append.mp h).2.2 v hm v (by simp)
      exact this rfl
    have hp := m8c_insertSum_perm v len acc hv
    have hnd : ((insertSum v len acc ++ d).map Prod.fst).Nodup := by
      have hperm : ((insertSum v len acc ++ d).map Prod.fst).Perm (acc.map Prod.fst ++ v :: d.map Prod.fst) := by
        rw [List.map_append]
        refine ((hp.map Prod.fst).append_right _).trans ?_
        simp only [List.map_cons, List.cons_append]
        exact List.perm_middle.symm
      exact hperm.nodup_iff.mpr h
    refine (ih _ hnd).trans ?_
    refine (hp.append_right d).trans ?_
    simp only [List.cons_append]
    exact List.perm_middle.symm

/-! ## sums of squares around an arbitrary centre -/

/-- `Σ (v − c)² l = Σ (v − m)² l + 2 (m − c) Σ (v − m) l + (m − c)² Σ l` -/
theorem m8c_sumBy_sq_shift (d : List (Rat × Rat)) (m c : Rat) :
    sumBy (fun vl => (vl.1 - c) * (vl.1 - c) * vl.2) d
      = sumBy (fun vl => (vl.1 - m) * (vl.1 - m) * vl.2) d
        + 2 * (m - c) * (sumBy (fun vl => vl.1 * vl.2) d - m * sumBy (·.2) d)
        + (m - c) * (m - c) * sumBy (·.2) d := by
  induction d with
  | nil => simp
  | cons a d ih => simp only [sumBy_cons, ih]; ring

end Stairs
end SC
