import SCModel.Lemmas.Pointwise
import SCModel.Model.Arrays
import Mathlib.Algebra.Order.Ring.Unbundled.Rat
/-!
# SCModel.Lemmas.Agg — collection aggregation is pointwise (n-ary analogue of `lim_combineSteps`)
-/
set_option linter.unusedSectionVars false
namespace SC
variable {P V W : Type} [LinearOrder P]

/-- n-ary `lim_zip`: reducing a family of samplings taken on a common index commutes with `lim` -/
theorem lim_zipN {α : Type} (st : Bool) (G : List V → W) (ms : List α) (F : α → P → V) (idx : List P)
    (init : α → V) (x : P) :
    lim st (G (ms.map init)) (idx.map fun p => (p, G (ms.map fun m => F m p))) x
      = G (ms.map fun m => lim st (init m) (idx.map fun p => (p, F m p)) x) := by
  induction idx generalizing init with
  | nil => rfl
  | cons p r ih =>
    simp only [List.map_cons, lim_cons]
    cases reached st p x
    · rfl
    · exact ih _

namespace Stairs

/-! ## the union of the members' step points -/

theorem mem_unionAll (ls : List (List P)) (z : P) : z ∈ unionAll ls ↔ ∃ l ∈ ls, z ∈ l := by
  induction ls with
  | nil => simp [unionAll]
  | cons l r ih => simp only [unionAll, mem_unionIdx, ih, List.mem_cons, exists_eq_or_imp]

theorem pairwise_unionAll (ls : List (List P)) (h : ∀ l ∈ ls, l.Pairwise (· < ·)) :
    (unionAll ls).Pairwise (· < ·) := by
  induction ls with
  | nil => exact List.Pairwise.nil
  | cons l r ih =>
    exact pairwise_unionIdx _ _ (h l (by simp)) (ih fun l' hl' => h l' (List.mem_cons_of_mem _ hl'))

theorem mem_unionAll_of_member (ms : List (Stairs P)) (m : Stairs P) (hm : m ∈ ms) (q : P)
    (hq : q ∈ m.steps.map Prod.fst) : q ∈ unionAll (ms.map (·.idx)) :=
  (mem_unionAll _ q).mpr ⟨m.idx, List.mem_map.mpr ⟨m, hm, rfl⟩, hq⟩

theorem pairwise_unionAll_members (ms : List (Stairs P)) (h : ∀ m ∈ ms, m.WF) :
    (unionAll (ms.map (·.idx))).Pairwise (· < ·) := by
  apply pairwise_unionAll
  intro l hl
  obtain ⟨m, hm, rfl⟩ := List.mem_map.mp hl
  exact h m hm

/-! ## the result of `aggregate` -/

/-- the rows `aggregate` builds before canonicalisation -/
def aggRaw (F : AggFn) (ms : List (Stairs P)) (cl : Side) : Stairs P :=
  ⟨F.eval (ms.map (·.init)),
   (unionAll (ms.map (·.idx))).map (fun p => (p, F.eval (ms.map fun m => lim false m.init m.steps p))), cl⟩

theorem aggregate_eq (F : AggFn) (ms : List (Stairs P)) :
    aggregate F ms = (closedOfMembers ms).map fun cl => canon (aggRaw F ms cl) := by
  unfold aggregate aggRaw
  cases closedOfMembers ms <;> rfl

theorem aggregate_ok (F : AggFn) (ms : List (Stairs P)) (h : Stairs P) (hr : aggregate F ms = .ok h) :
    ∃ cl, closedOfMembers ms = .ok cl ∧ h = canon (aggRaw F ms cl) := by
  rw [aggregate_eq] at hr
  cases hc : closedOfMembers ms with
  | error e => rw [hc] at hr; cases hr
  | ok cl => rw [hc] at hr; injection hr with hr; exact ⟨cl, rfl, hr.symm⟩

theorem wf_aggRaw (F : AggFn) (ms : List (Stairs P)) (cl : Side) (hms : ∀ m ∈ ms, m.WF) :
    (aggRaw F ms cl).WF := by
  unfold WF Sorted aggRaw
  simp only [List.map_map, Function.comp_def, List.map_id']
  exact pairwise_unionAll_members ms hms

theorem den_aggRaw (F : AggFn) (ms : List (Stairs P)) (cl : Side) (hms : ∀ m ∈ ms, m.WF) (st : Bool) (x : P) :
    Den (aggRaw F ms cl) st x = F.eval (ms.map fun m => Den m st x) := by
  unfold Den aggRaw
  simp only
  rw [lim_zipN st F.eval ms (fun m p => lim false m.init m.steps p) _ (fun m => m.init) x]
  congr 1
  apply List.map_congr_left
  intro m hm
  exact lim_refine st _ (pairwise_unionAll_members ms hms) m.init m.steps (hms m hm)
    (fun q hq => mem_unionAll_of_member ms m hm q hq) x

/-- **collection aggregation is pointwise, for both one-sided limits; the result is canonical** -/
theorem den_aggregate (F : AggFn) (ms : List (Stairs P)) (h : Stairs P) (hms : ∀ m ∈ ms, m.WF)
    (hr : aggregate F ms = .ok h) :
    h.Canonical ∧ ∀ st x, Den h st x = F.eval (ms.map fun m => Den m st x) := by
  obtain ⟨cl, _, rfl⟩ := aggregate_ok F ms h hr
  have hwf := wf_aggRaw F ms cl hms
  exact ⟨canonical_canon _ hwf, fun st x => by rw [den_canon _ hwf, den_aggRaw F ms cl hms]⟩

/-- members that share a closed side always aggregate -/
theorem closedOfMembers_same (ms : List (Stairs P)) (cl : Side) (hne : ms ≠ [])
    (h : ∀ m ∈ ms, m.closed = cl) : closedOfMembers ms = .ok cl := by
  unfold closedOfMembers
  cases hfl : ms.filter (·.hasSteps) with
  | nil =>
    cases ms with
    | nil => exact absurd rfl hne
    | cons m r => simp only; rw [h m (by simp)]
  | cons m r =>
    have hsub : ∀ z ∈ m :: r, z ∈ ms := fun z hz => (List.mem_filter.mp (by rw [hfl]; exact hz)).1
    have hall : (r.all fun x => x.closed == m.closed) = true := by
      rw [List.all_eq_true]
      intro z hz
      rw [h z (hsub z (List.mem_cons_of_mem _ hz)), h m (hsub m (by simp))]
      simp
    simp only [hall, if_true]
    rw [h m (hsub m (by simp))]

theorem aggregate_same_closed (F : AggFn) (ms : List (Stairs P)) (cl : Side) (hne : ms ≠ [])
    (h : ∀ m ∈ ms, m.closed = cl) : aggregate F ms = .ok (canon (aggRaw F ms cl)) := by
  rw [aggregate_eq, closedOfMembers_same ms cl hne h]; rfl

/-! ## the reductions at one point -/

theorem allDefined_map_some (xs : List Rat) : allDefined (xs.map some) = some xs := by
  induction xs with
  | nil => rfl
  | cons x r ih => simp [allDefined, ih]

theorem allDefined_eq_none_iff (vs : List Val) : allDefined vs = none ↔ none ∈ vs := by
  induction vs with
  | nil => simp [allDefined]
  | cons v r ih =>
    cases v with
    | none => simp [allDefined]
    | some q => simp [allDefined, ih]

theorem allDefined_eq_some_iff (vs : List Val) (xs : List Rat) : allDefined vs = some xs ↔ vs = xs.map some := by
  constructor
  · intro h
    induction vs generalizing xs with
    | nil => simp [allDefined] at h; subst h; rfl
    | cons v r ih =>
      cases v with
      | none => simp [allDefined] at h
      | some q =>
        simp only [allDefined, Option.map_eq_some_iff] at h
        obtain ⟨ys, hys, rfl⟩ := h
        rw [ih ys hys]; rfl
  · intro h; rw [h, allDefined_map_some]

theorem allDefined_length (vs : List Val) (xs : List Rat) (h : allDefined vs = some xs) : xs.length = vs.length := by
  rw [(allDefined_eq_some_iff vs xs).mp h, List.length_map]

/-- undefined as soon as one member value is undefined -/
theorem eval_none_of_mem (F : AggFn) (vs : List Val) (h : none ∈ vs) : F.eval vs = none := by
  unfold AggFn.eval; rw [(allDefined_eq_none_iff vs).mpr h]

theorem length_insertSorted (v : Rat) (l : List Rat) : (insertSorted v l).length = l.length + 1 := by
  induction l with
  | nil => rfl
  | cons w r ih =>
    simp only [insertSorted]
    split
    · rfl
    · simp [ih]

theorem length_sortRat_aux (l acc : List Rat) :
    (l.foldl (fun acc v => insertSorted v acc) acc).length = acc.length + l.length := by
  induction l generalizing acc with
  | nil => rfl
  | cons v r ih => simp only [List.foldl_cons, ih, length_insertSorted, List.length_cons]; omega

theorem length_sortRat (l : List Rat) : (sortRat l).length = l.length := by
  unfold sortRat; rw [length_sortRat_aux]; simp

theorem medianOf_isSome (l : List Rat) (h : l ≠ []) : (medianOf l).isSome = true := by
  have hn : (sortRat l).length ≠ 0 := by
    rw [length_sortRat]; exact fun h' => h (List.length_eq_zero_iff.mp h')
  unfold medianOf
  simp only [hn, if_false]
  generalize sortRat l = s at hn
  split
  · rw [List.getElem?_eq_getElem (by omega)]; rfl
  · rw [List.getElem?_eq_getElem (show s.length / 2 - 1 < s.length by omega),
        List.getElem?_eq_getElem (show s.length / 2 < s.length by omega)]
    rfl

theorem listMin_isSome (l : List Rat) (h : l ≠ []) : (listMin l).isSome = true := by
  cases l with
  | nil => exact absurd rfl h
  | cons x r => rfl
theorem listMax_isSome (l : List Rat) (h : l ≠ []) : (listMax l).isSome = true := by
  cases l with
  | nil => exact absurd rfl h
  | cons x r => rfl

/-- on defined member values the reduction is the plain reduction of the numbers -/
theorem eval_map_some (F : AggFn) (xs : List Rat) :
    F.eval (xs.map some) =
      match F with
      | .sum => some xs.sum
      | .mean => if xs.length = 0 then none else some (xs.sum / (xs.length : Rat))
      | .median => medianOf xs
      | .min => listMin xs
      | .max => listMax xs
      | .logicalOr => some (b2r (xs.any truth))
      | .logicalAnd => some (b2r (xs.all truth)) := by
  unfold AggFn.eval; rw [allDefined_map_some]; rfl

/-- for a non-empty collection: undefined **iff** some member value is undefined -/
theorem eval_none_iff (F : AggFn) (vs : List Val) (hne : vs ≠ []) : F.eval vs = none ↔ none ∈ vs := by
  constructor
  · intro h
    rw [← allDefined_eq_none_iff]
    cases had : allDefined vs with
    | none => rfl
    | some xs =>
      exfalso
      have hvs := (allDefined_eq_some_iff vs xs).mp had
      have hxs : xs ≠ [] := by intro h'; subst h'; exact hne hvs
      have hlen : xs.length ≠ 0 := fun h' => hxs (List.length_eq_zero_iff.mp h')
      rw [hvs, eval_map_some] at h
      cases F
      · simp at h
      · simp [hlen] at h
      · have := medianOf_isSome xs hxs; simp only at h; rw [h] at this; cases this
      · have := listMin_isSome xs hxs; simp only at h; rw [h] at this; cases this
      · have := listMax_isSome xs hxs; simp only at h; rw [h] at this; cases this
      · simp at h
      · simp at h
  · exact eval_none_of_mem F vs

/-- the mean (and every other reduction except `sum`, `logical_or`, `logical_and`) of no members is undefined -/
theorem eval_nil :
    AggFn.sum.eval [] = some 0 ∧ AggFn.mean.eval [] = none ∧ AggFn.median.eval [] = none ∧
    AggFn.min.eval [] = none ∧ AggFn.max.eval [] = none ∧
    AggFn.logicalOr.eval [] = some 0 ∧ AggFn.logicalAnd.eval [] = some 1 := by
  decide +kernel

/-! ### sum -/

theorem eval_sum_cons (v : Val) (vs : List Val) : AggFn.sum.eval (v :: vs) = vadd v (AggFn.sum.eval vs) := by
  unfold AggFn.eval
  cases v with
  | none => cases allDefined vs <;> rfl
  | some q =>
    simp only [allDefined]
    cases allDefined vs with
    | none => rfl
    | some xs => simp [vadd, vlift2]

theorem vadd_zero (a : Val) : vadd a (some 0) = a := by
  cases a <;> simp [vadd, vlift2]
theorem zero_vadd (a : Val) : vadd (some 0) a = a := by
  cases a <;> simp [vadd, vlift2]
theorem vadd_assoc' (a b c : Val) : vadd (vadd a b) c = vadd a (vadd b c) := by
  cases a <;> cases b <;> cases c <;> simp [vadd, vlift2, Rat.add_assoc]

/-- folding `+` from the left over the values = first value + sum of the rest -/
theorem foldl_vadd (a : Val) (vs : List Val) : vs.foldl vadd a = vadd a (AggFn.sum.eval vs) := by
  induction vs generalizing a with
  | nil => exact (vadd_zero a).symm
  | cons v r ih => rw [List.foldl_cons, ih, eval_sum_cons, vadd_assoc']

/-- **sum = folding +** at one point -/
theorem eval_sum_eq_foldl (v : Val) (vs : List Val) : AggFn.sum.eval (v :: vs) = vs.foldl vadd v := by
  rw [foldl_vadd, eval_sum_cons]

/-! ### min / max -/

theorem foldl_min_spec (r : List Rat) (x : Rat) :
    let m := r.foldl (fun a b => if b < a then b else a) x
    (m = x ∨ m ∈ r) ∧ m ≤ x ∧ ∀ y ∈ r, m ≤ y := by
  induction r generalizing x with
  | nil => simp
  | cons b r ih =>
    simp only [List.foldl_cons]
    by_cases hb : b < x
    · simp only [hb, if_true]
      obtain ⟨h1, h2, h3⟩ := ih b
      refine ⟨?_, le_trans h2 (le_of_lt hb), ?_⟩
      · rcases h1 with h | h
        · exact Or.inr (by rw [h]; simp)
        · exact Or.inr (List.mem_cons_of_mem _ h)
      · intro y hy
        rcases List.mem_cons.mp hy with h | h
        · rw [h]; exact h2
        · exact h3 y h
    · simp only [hb, if_false]
      obtain ⟨h1, h2, h3⟩ := ih x
      refine ⟨?_, h2, ?_⟩
      · rcases h1 with h | h
        · exact Or.inl h
        · exact Or.inr (List.mem_cons_of_mem _ h)
      · intro y hy
        rcases List.mem_cons.mp hy with h | h
        · rw [h]; exact le_trans h2 (not_lt.mp hb)
        · exact h3 y h

theorem foldl_max_spec (r : List Rat) (x : Rat) :
    let m := r.foldl (fun a b => if a < b then b else a) x
    (m = x ∨ m ∈ r) ∧ x ≤ m ∧ ∀ y ∈ r, y ≤ m := by
  induction r generalizing x with
  | nil => simp
  | cons b r ih =>
    simp only [List.foldl_cons]
    by_cases hb : x < b
    · simp only [hb, if_true]
      obtain ⟨h1, h2, h3⟩ := ih b
      refine ⟨?_, le_trans (le_of_lt hb) h2, ?_⟩
      · rcases h1 with h | h
        · exact Or.inr (by rw [h]; simp)
        · exact Or.inr (List.mem_cons_of_mem _ h)
      · intro y hy
        rcases List.mem_cons.mp hy with h | h
        · rw [h]; exact h2
        · exact h3 y h
    · simp only [hb, if_false]
      obtain ⟨h1, h2, h3⟩ := ih x
      refine ⟨?_, h2, ?_⟩
      · rcases h1 with h | h
        · exact Or.inl h
        · exact Or.inr (List.mem_cons_of_mem _ h)
      · intro y hy
        rcases List.mem_cons.mp hy with h | h
        · rw [h]; exact le_trans (not_lt.mp hb) h2
        · exact h3 y h

/-- `listMin` returns the least element -/
theorem listMin_spec (l : List Rat) (m : Rat) (h : listMin l = some m) : m ∈ l ∧ ∀ y ∈ l, m ≤ y := by
  cases l with
  | nil => cases h
  | cons x r =>
    simp only [listMin, Option.some.injEq] at h
    obtain ⟨h1, h2, h3⟩ := foldl_min_spec r x
    rw [h] at h1 h2 h3
    refine ⟨?_, ?_⟩
    · rcases h1 with h' | h'
      · rw [h']; simp
      · exact List.mem_cons_of_mem _ h'
    · intro y hy
      rcases List.mem_cons.mp hy with h' | h'
      · rw [h']; exact h2
      · exact h3 y h'

/-- `listMax` returns the greatest element -/
theorem listMax_spec (l : List Rat) (m : Rat) (h : listMax l = some m) : m ∈ l ∧ ∀ y ∈ l, y ≤ m := by
  cases l with
  | nil => cases h
  | cons x r =>
    simp only [listMax, Option.some.injEq] at h
    obtain ⟨h1, h2, h3⟩ := foldl_max_spec r x
    rw [h] at h1 h2 h3
    refine ⟨?_, ?_⟩
    · rcases h1 with h' | h'
      · rw [h']; simp
      · exact List.mem_cons_of_mem _ h'
    · intro y hy
      rcases List.mem_cons.mp hy with h' | h'
      · rw [h']; exact h2
      · exact h3 y h'

end Stairs
end SC
