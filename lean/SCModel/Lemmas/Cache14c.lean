import SCModel.Lemmas.Integral8b
/-!
# SCModel.Lemmas.Cache14c — the plain statistics are the window statistics over the span of the step points

For a well-formed `f` with first step point `a` and last step point `b` (`a < b`, i.e. at least two rows) every
weighted sum `Σ w(value)·length` of `f` is that of `window f a b`: the two unbounded pieces (initial value, value of
the last row) carry no length.  Consequently `integral f = intOn f a b`, `definedLength f = lenOn f a b`.
Used by `Props/C14cB` (the incrementally updated integral cache).
-/
set_option linter.unusedSectionVars false
set_option linter.unusedVariables false
namespace SC
namespace Stairs

/-- **span lemma** -/
theorem h14c_wsum_span (f : Stairs Rat) (hf : f.WF) (a b : Rat)
    (hh : f.steps.head?.map Prod.fst = some a) (hl : f.steps.getLast?.map Prod.fst = some b) (hab : a < b)
    (w : Rat → Rat) : wsum w f = wsum w (window f a b) := by
  have h2 : ¬ f.steps.length < 2 := by
    intro h2
    cases hs : f.steps with
    | nil => rw [hs] at hh; simp at hh
    | cons c r =>
      cases r with
      | nil =>
        rw [hs] at hh hl
        simp at hh hl
        rw [hh] at hl; exact absurd hl (ne_of_lt hab)
      | cons d r' => rw [hs] at h2; simp at h2; omega
  obtain ⟨v0, l, v, hst⟩ := exists_first_mid_last f.steps h2 a b hh hl
  have hs : Sorted ((a, v0) :: (l ++ [(b, v)])) := by rw [← hst]; exact hf
  have hs' : Sorted ((a, v0) :: (l ++ [(b, (none : Val))])) := by
    unfold Sorted at hs ⊢; simpa using hs
  rw [wsum_eq_pieceSum, wsum_eq_pieceSum, hst]
  have e1 : pieceSum (liftW w) ((a, v0) :: (l ++ [(b, v)])) = pieceSum (liftW w) ((a, v0) :: (l ++ [(b, none)])) := by
    unfold pieceSum
    rw [← List.cons_append, pieces_last_irrelevant _ b v none]; rfl
  rw [e1]
  apply pieceSum_eq_of_den_bounded (liftW w) none (window f a b).init _ _ hs' (wf_window f a b hf hab)
  · intro x
    show _ = Den (window f a b) false x
    rw [den_window_right f a b hf hab]
    rcases lt_or_ge x a with hx1 | hx1
    · rw [if_neg (fun h => absurd h.1 (not_le.mpr hx1)), lim_cons, not_reached_of_lt hx1]; rfl
    · rcases lt_or_ge x b with hx2 | hx2
      · rw [if_pos ⟨hx1, hx2⟩]
        have r1 : reached false a x = true := (reached_right_iff _ _).mpr hx1
        have r2 : reached false b x = false := not_reached_of_lt hx2
        unfold Den
        rw [hst, lim_init_irrelevant false none f.init a v0 _ x r1]
        exact (lim_append_last_unreached false f.init ((a, v0) :: l) b v none x r2).symm
      · rw [if_neg (fun h => absurd h.2 (not_lt.mpr hx2)), ← List.cons_append, lim_after false none _ x,
          lastVal_append_last]
        intro q hq
        rw [reached_right_iff]
        unfold Sorted at hs'
        rw [← List.cons_append, List.map_append, List.pairwise_append] at hs'
        rw [List.map_append, List.mem_append] at hq
        rcases hq with hq | hq
        · exact le_trans (le_of_lt (hs'.2.2 q hq b (by simp))) hx2
        · simp at hq; rw [hq]; exact hx2
  · rfl
  · show liftW w (lastVal none ((a, v0) :: (l ++ [(b, none)]))) = 0
    rw [← List.cons_append, lastVal_append_last]; rfl

/-- the plain `integral` / defined length / `mean` are those of the window over the span of the step points -/
theorem h14c_stats_span (f : Stairs Rat) (hf : f.WF) (a b : Rat)
    (hh : f.steps.head?.map Prod.fst = some a) (hl : f.steps.getLast?.map Prod.fst = some b) (hab : a < b) :
    integral f = some (intOn f a b) ∧ definedLength f = lenOn f a b ∧
    mean f = if lenOn f a b = 0 then none else some (intOn f a b / lenOn f a b) := by
  have h2 : ¬ f.steps.length < 2 := by
    intro h2
    cases hs : f.steps with
    | nil => rw [hs] at hh; simp at hh
    | cons c r =>
      cases r with
      | nil =>
        rw [hs] at hh hl
        simp at hh hl
        rw [hh] at hl; exact absurd hl (ne_of_lt hab)
      | cons d r' => rw [hs] at h2; simp at h2; omega
  have hI : wsum (fun v => v) f = intOn f a b := h14c_wsum_span f hf a b hh hl hab _
  have hL : definedLength f = lenOn f a b := by
    rw [definedLength_eq_wsum, lenOn_eq_wsum]; exact h14c_wsum_span f hf a b hh hl hab _
  refine ⟨?_, hL, ?_⟩
  · unfold integral; rw [if_neg h2]
    have : sumBy (fun vl => vl.1 * vl.2) (definedPieces f.steps) = wsum (fun v => v) f := rfl
    rw [this, hI]
  · rw [mean_eq_ite, hL, hI]

end Stairs
end SC
