import SCModel.Model.Basic
import SCModel.Model.Ops
import SCModel.Model.Layer
import SCModel.Model.Stats
import SCModel.Model.Arrays
import SCModel.Model.Slicing
import SCModel.Model.World
