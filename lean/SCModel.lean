import SCModel.Model.Basic
import SCModel.Model.Ops
import SCModel.Model.Layer
import SCModel.Model.Stats
