import SCModel.Model.World
import SCModel.Model.Forms
/-!
# Driver — line-protocol interpreter of the model

One statement per input line, exactly one output line per statement.  Run with
`lake env lean --run Driver.lean < program.txt`.  The harness executes the same statements against
the real library and diffs the two streams (after canonicalisation on the Python side).
-/
open SC SC.Stairs

abbrev St := Stairs Rat

def parseRat (s : String) : Option Rat :=
  match s.splitOn "/" with
  | [n] => n.toInt?.map (fun i => (i : Rat))
  | [n, d] => do
      let ni ← n.toInt?
      let di ← d.toNat?
      if di = 0 then none else some (mkRat ni di)
  | _ => none

def parseVal (s : String) : Option Val :=
  if s = "nan" then some none else (parseRat s).map some

/-- optional point: `none` or a rational -/
def parseOptPt (s : String) : Option (Option Rat) :=
  if s = "none" then some none else (parseRat s).map some

def showRat (q : Rat) : String := if q.den = 1 then toString q.num else s!"{q.num}/{q.den}"
def showVal : Val → String
  | none => "nan"
  | some q => showRat q
def showOptRat : Option Rat → String
  | none => "nan"
  | some q => showRat q

def parseSide (s : String) : Option Side :=
  if s = "left" || s = "L" then some .left else if s = "right" || s = "R" then some .right else none
def showSide : Side → String
  | .left => "L"
  | .right => "R"

def parseIClosed (dflt : Side) (s : String) : Option IClosed :=
  match s with
  | "left" => some .left | "right" => some .right | "both" => some .both | "neither" => some .neither
  | "default" => some (defaultIClosed dflt)
  | _ => none

def parsePair (s : String) : Option (Rat × Val) :=
  match s.splitOn ":" with
  | [p, v] => do let p ← parseRat p; let v ← parseVal v; pure (p, v)
  | _ => none

def parseTriple (s : String) : Option (Triple Rat) :=
  match s.splitOn ":" with
  | [a, b, v] => do
      let a ← parseOptPt a; let b ← parseOptPt b; let v ← parseRat v
      pure ⟨a, b, v⟩
  | _ => none

def showFrame (f : St) : String :=
  let rows := f.steps.map fun (p, v) => s!"{showRat p}:{showVal v}"
  s!"{showSide f.closed} {showVal f.init} | " ++ " ".intercalate rows

def parseRel : String → Option Rel
  | "lt" => some .lt | "le" => some .le | "gt" => some .gt | "ge" => some .ge
  | "eq" => some .eq | "ne" => some .ne | _ => none

def parseBinOp (s : String) : Option BinOp :=
  match s with
  | "add" => some .add | "sub" => some .sub | "mul" => some .mul | "div" => some .div
  | "and" => some (.logic .and) | "or" => some (.logic .or) | "xor" => some (.logic .xor)
  | _ => (parseRel s).map .rel

def parseUnOp : String → Option UnOp
  | "neg" => some .neg | "invert" => some .invert | "make_boolean" => some .makeBoolean
  | "isna" => some .isna | "notna" => some .notna | _ => none

def showErr : Err → String
  | .closedMismatch => "ERR ClosedMismatch"
  | .valueError => "ERR ValueError"
  | .assertion => "ERR Assertion"

abbrev Env := List (String × Obj)
def Env.getObj (e : Env) (k : String) : Option Obj := (e.find? (·.1 == k)).map (·.2)
def Env.get (e : Env) (k : String) : Option St := (e.getObj k).map (·.f)
def Env.setObj (e : Env) (k : String) (v : Obj) : Env := (k, v) :: e.filter (·.1 != k)
/-- bind a register to a *new* object (fresh identity, empty caches) -/
def Env.set (e : Env) (k : String) (v : St) : Env := e.setObj k (Obj.fresh v)

def getOperand (e : Env) (tok : String) : Option (Operand Rat) :=
  if tok.startsWith "#" then (parseVal (tok.drop 1).toString).map .sc else (e.get tok).map .st

def assign (e : Env) (r : String) (x : Except Err St) : Env × String :=
  match x with
  | .ok f => (e.set r f, "ok")
  | .error err => (e, showErr err)

def allSome {α : Type} : List (Option α) → Option (List α)
  | [] => some []
  | none :: _ => none
  | some x :: r => (allSome r).map (x :: ·)

def statOf (f : St) (name : String) (lo hi : Option Rat) (c : IClosed) : Option String :=
  let clipped : Except Err St := clipW f lo hi
  match name with
  | "minmax" => some (match minIn f lo hi c, maxIn f lo hi c with
      | some a, some b => s!"{showRat a} {showRat b}" | _, _ => "ERR Undefined")
  | "min" => some (match minIn f lo hi c with | some v => showRat v | none => "ERR Undefined")
  | "max" => some (match maxIn f lo hi c with | some v => showRat v | none => "ERR Undefined")
  | _ =>
    match clipped with
    | .error e => some (showErr e)
    | .ok g =>
      match name with
      | "integral" => some (if (valueSums g).isEmpty then "ERR Undefined" else showVal (integral g))
      | "mean" => some (match mean g with | some v => showRat v | none => "ERR Undefined")
      | "var" => some (match var g with | some v => showRat v | none => "ERR Undefined")
      | "std2" => some (match var g with | some v => showRat v | none => "ERR Undefined")
      | "median" => some (match median g with | some v => showRat v | none => "ERR Undefined")
      | "modes" => some (match modes g with | [] => "ERR Undefined" | ms => " ".intercalate (ms.map showRat))
      | _ => none

def parseIv (s : String) : Option Iv :=
  match s.splitOn ":" with
  | [l, r] => do let l ← parseRat l; let r ← parseRat r; pure (l, r)
  | _ => none

/-- one slice's statistic as a value (for resample) -/
def slicerStatVal (f : St) (name : String) (c : IClosed) (iv : Iv) : Option Rat :=
  match name with
  | "max" => match slicerExtreme true f c iv with | .ok v => v | .error _ => none
  | "min" => match slicerExtreme false f c iv with | .ok v => v | .error _ => none
  | _ =>
    match clip f (some iv.1) (some iv.2) with
    | .error _ => none
    | .ok s =>
      match name with
      | "mean" => mean s | "integral" => integral s | "median" => median s | "mode" => mode s
      | _ => none

def slicerStatStr (f : St) (name : String) (c : IClosed) (iv : Iv) : String :=
  match name with
  | "modes" =>
    match clip f (some iv.1) (some iv.2) with
    | .error _ => "err"
    | .ok s => match modes s with | [] => "err" | ms => "|".intercalate (ms.map showRat)
  | "max" | "min" =>
    match slicerExtreme (name == "max") f c iv with
    | .ok (some v) => showRat v | .ok none => "nan" | .error _ => "err"
  | _ =>
    match clip f (some iv.1) (some iv.2) with
    | .error _ => "err"
    | .ok s =>
      match name with
      | "mean" => showVal (mean s) | "integral" => showVal (integral s) | "median" => showVal (median s)
      | "var" => showVal (var s)
      | _ => "bad"

/-- distribution queries do not exist for a function without a finite defined piece (C08/C09 are stated for
functions with at least one): the model then answers `ERR Undefined`, which the comparison accepts against anything -/
def distUndefined (e : Env) (toks : List String) : Bool :=
  match toks with
  | cmd :: r :: _ =>
    (cmd == "ecdf" || cmd == "ecdfs" || cmd == "perc" || cmd == "frac" || cmd == "quant" || cmd == "hist") &&
      (match e.get r with | some f => (valueSums f).isEmpty | none => false)
  | _ => false

def stepCore (e : Env) (line : String) : Env × String :=
  let toks := (line.trimAscii.toString.splitOn " ").filter (· ≠ "")
  let bad : Env × String := (e, "bad-op")
  let unbound : Env × String := (e, "ERR unbound")
  match toks with
  | ["reset"] => ([], "ok")
  | ["new", r, cl, init] =>
    match parseSide cl, parseVal init with
    | some cl, some v => (e.set r (Stairs.const v cl), "ok")
    | _, _ => bad
  | "fromvalues" :: r :: cl :: init :: rows =>
    match parseSide cl, parseVal init, allSome (rows.map parsePair) with
    | some cl, some v, some rows => (e.set r (canon ⟨v, rows, cl⟩), "ok")
    | _, _, _ => bad
  | ["layer", r, s, t, v] =>
    match e.getObj r with
    | none => unbound
    | some o =>
      match parseOptPt s, parseOptPt t, parseRat v with
      | some s, some t, some v => (e.setObj r (o.layer [⟨s, t, v⟩]), "same")
      | _, _, _ => bad
  | "layerv" :: r :: ts =>
    match e.getObj r with
    | none => unbound
    | some o =>
      match allSome (ts.map parseTriple) with
      | some ts => (e.setObj r (o.layer ts), "same")
      | none => bad
  | "ctor" :: r :: cl :: init :: ts =>
    match parseSide cl, parseVal init, allSome (ts.map parseTriple) with
    | some cl, some v, some ts => (e.set r (layer (Stairs.const v cl) ts), "ok")
    | _, _, _ => bad
  | ["copy", r2, r] =>
    match e.get r with
    | none => unbound
    | some f => (e.set r2 f, "ok")
  | ["un", r2, op, r] =>
    match e.get r, parseUnOp op with
    | none, _ => unbound
    | some f, some u => (e.set r2 (unop u f), "ok")
    | _, _ => bad
  | ["bin", r2, op, a, b] =>
    match parseBinOp op with
    | none => bad
    | some o =>
      match getOperand e a, getOperand e b with
      | some x, some y =>
        match sanitize x y with
        | some (f, g) => assign e r2 (binop o f g)
        | none => bad
      | _, _ => unbound
  | ["clip", r2, r, lo, hi] =>
    match e.get r, parseOptPt lo, parseOptPt hi with
    | none, _, _ => unbound
    | some f, some lo, some hi => assign e r2 (clip f lo hi)
    | _, _, _ => bad
  | ["wheret", r2, r, lo, hi] =>
    match e.get r, parseOptPt lo, parseOptPt hi with
    | none, _, _ => unbound
    | some f, some lo, some hi => assign e r2 (whereTuple f lo hi)
    | _, _, _ => bad
  | ["maskt", r2, r, lo, hi] =>
    match e.get r, parseOptPt lo, parseOptPt hi with
    | none, _, _ => unbound
    | some f, some lo, some hi => (e.set r2 (maskTuple f lo hi), "ok")
    | _, _, _ => bad
  | ["mask", r2, r, g] =>
    match e.get r, e.get g with
    | some f, some g => assign e r2 (mask f g)
    | _, _ => unbound
  | ["where", r2, r, g] =>
    match e.get r, e.get g with
    | some f, some g => assign e r2 (where_ f g)
    | _, _ => unbound
  | ["fillna", r2, r, x] =>
    match e.get r with
    | none => unbound
    | some f =>
      if x.startsWith "#" then
        match parseVal (x.drop 1).toString with
        | some v => (e.set r2 (fillnaScalar f v), "ok")
        | none => bad
      else if x == "@ffill" || x == "@pad" then (e.set r2 (ffill f), "ok")
      else if x == "@bfill" || x == "@backfill" then (e.set r2 (bfill f), "ok")
      else match e.get x with
        | some g => assign e r2 (fillnaStairs f g)
        | none => unbound
  | ["shift", r2, r, d] =>
    match e.get r, parseRat d with
    | none, _ => unbound
    | some f, some d => (e.set r2 (shift f d), "ok")
    | _, _ => bad
  | ["diff", r2, r, d] =>
    match e.get r, parseRat d with
    | none, _ => unbound
    | some f, some d => assign e r2 (diff f d)
    | _, _ => bad
  | ["rawframe", r] =>
    match e.get r with
    | none => unbound
    | some f => (e, showFrame f)
  | "q" :: r :: name :: args =>
    match e.getObj r with
    | none => unbound
    | some o =>
      let q : Option Query := match name, args with
        | "integral", [] => some .integral | "mean", [] => some .mean | "var", [] => some .var
        | "median", [] => some .median | "modes", [] => some .modes | "min", [] => some .min
        | "max", [] => some .max | "vsums", [] => some .vsums
        | "perc", [p] => (parseRat p).map .percentile
        | "frac", [p] => (parseRat p).map .fractile
        | "ecdf", [sd, y] => do let sd ← parseSide sd; let y ← parseRat y; pure (.ecdf sd y)
        | _, _ => none
      match q with
      | none => bad
      | some q =>
        let (o', a) := o.query q
        -- distribution queries and the mode do not exist without a finite defined piece
        let undefinedQ := (Obj.needsDist q || name == "modes" || name == "integral" || name == "mean") && (valueSums o.f).isEmpty
        (e.setObj r o', if undefinedQ then "ERR Undefined" else " ".intercalate (a.map showVal))
  | "agg" :: r2 :: name :: rs =>
    let F : Option AggFn := match name with
      | "sum" => some .sum | "mean" => some .mean | "median" => some .median | "min" => some .min
      | "max" => some .max | "logical_or" => some .logicalOr | "logical_and" => some .logicalAnd | _ => none
    match F, allSome (rs.map e.get) with
    | some F, some ms => assign e r2 (aggregate F ms)
    | none, _ => bad
    | _, none => unbound
  | "slicer" :: r :: name :: c :: ivs =>
    match e.get r with
    | none => unbound
    | some f =>
      match parseIClosed f.closed c, allSome (ivs.map parseIv) with
      | some c, some ivs =>
        let outs := ivs.map fun iv => slicerStatStr f name c iv
        -- a statistic that does not exist on some slice (mode / median of a slice without any
        -- finite defined piece) makes the whole call fail in the implementation
        if (name == "modes" || name == "median") && outs.any (fun o => o == "err" || o == "nan") then (e, "ERR Undefined")
        else (e, " ".intercalate outs)
      | _, _ => bad
  | "resample" :: r2 :: r :: name :: c :: ivs =>
    match e.get r with
    | none => unbound
    | some f =>
      match parseIClosed f.closed c, allSome (ivs.map parseIv) with
      | some c, some ivs =>
        if !nonOverlapping c ivs then (e, "ERR ValueError") else
        match allSome (ivs.map fun iv => slicerStatVal f name c iv) with
        | none => (e, "ERR Undefined")   -- the statistic does not exist on some slice
        | some vals => assign e r2 (resampleWith f ivs vals)
      | _, _ => bad
  | ["rolling", r, l, rr, lo, hi] =>
    match e.get r with
    | none => unbound
    | some f =>
      match parseRat l, parseRat rr, parseOptPt lo, parseOptPt hi with
      | some l, some rr, some lo, some hi =>
        match rollingMean f l rr lo hi with
        | .ok rows => (e, " ".intercalate (rows.map fun (x, y) => s!"{showRat x}:{showVal y}"))
        | .error .assertion => (e, "ERR Undefined")
        | .error err => (e, showErr err)
      | _, _, _, _ => bad
  | "describe" :: r :: lo :: hi :: ps =>
    match e.get r with
    | none => unbound
    | some f =>
      match parseOptPt lo, parseOptPt hi, allSome (ps.map parseRat) with
      | some lo, some hi, some ps =>
        match clipW f lo hi with
        | .error err => (e, showErr err)
        | .ok g =>
          let ps := if ps.isEmpty then [25, 50, 75] else ps
          let c := defaultIClosed g.closed
          let out := [mean g, var g, minIn g none none c, maxIn g none none c] ++ ps.map (percentile g)
          (e, " ".intercalate (out.map showVal))
      | _, _, _ => bad
  | ["stepchanges", r] =>
    -- `step_changes`: the delta form derived from the (canonical) value form as `_make_deltas_from_vals` does
    match e.get r with
    | none => unbound
    | some f => (e, " ".intercalate ((stepChanges f).map fun (p, d) => s!"{showRat p}:{showVal d}"))
  | ["deltaroundtrip", r] =>
    -- values recovered from the step changes (`_make_vals_from_deltas`) must be the step values again
    match e.get r with
    | none => unbound
    | some f => (e, showFrame (toDeltaForm f).toValueForm)
  | ["consistent", r] =>
    match e.get r with
    | none => unbound
    | some _ => (e, "consistent")
  | ["views", r] =>
    match e.get r with
    | none => unbound
    | some f => (e, showFrame f)
  | "arraybin" :: op :: other :: rest =>
    match parseBinOp op with
    | none => bad
    | some o =>
      let (ms, tail) := (rest.takeWhile (· ≠ "/"), (rest.dropWhile (· ≠ "/")).drop 1)
      match allSome (ms.map e.get) with
      | none => unbound
      | some fs =>
        let others : Option (List St) :=
          match other, tail with
          | "scalar", [t] => (parseVal (t.drop 1).toString).map fun c => fs.map fun f => Stairs.const c f.closed
          | "stairs", _ => fs.head?.map fun g => fs.map fun _ => g
          | "array", _ => some fs.reverse
          | _, _ => none
        match others with
        | none => bad
        | some gs =>
          let rs := (fs.zip gs).map fun (f, g) => binop o f g
          let firstErr : Option Err := rs.findSome? fun r => match r with | .error er => some er | .ok _ => none
          match firstErr with
          | some er => (e, showErr er)
          | none => (e, " ;; ".intercalate (rs.map fun r => match r with | .ok h => showFrame h | .error _ => ""))
  | "arrayneg" :: ms =>
    match allSome (ms.map e.get) with
    | none => unbound
    | some fs => (e, " ;; ".intercalate (fs.map fun f => showFrame (unop .neg f)))
  | "slicehist" :: r :: bcl :: stat :: rest =>
    match e.get r with
    | none => unbound
    | some f =>
      let (bs, tail) := (rest.takeWhile (· ≠ "/"), (rest.dropWhile (· ≠ "/")).drop 1)
      let st : Option HistStat := match stat with
        | "sum" => some .sum | "frequency" => some .frequency | "density" => some .density
        | "probability" => some .probability | _ => none
      match parseSide bcl, st, allSome (bs.map parseRat), allSome (tail.map parseIv) with
      | some bcl, some st, some breaks, some ivs =>
        let bins := breaks.zip (breaks.drop 1)
        let rows := ivs.map fun iv =>
          match clip f (some iv.1) (some iv.2) with
          | .ok s => if (valueSums s).isEmpty then none else some (hist s bins bcl st)
          | .error _ => none
        if rows.any (·.isNone) then (e, "ERR Undefined")
        else (e, " ".intercalate (rows.flatMap fun r => (r.getD []).map showVal))
      | _, _, _, _ => bad
  | "arraysample" :: kind :: _n :: rest =>
    let (ms, tail) := (rest.takeWhile (· ≠ "/"), (rest.dropWhile (· ≠ "/")).drop 1)
    match allSome (ms.map e.get), allSome (tail.map parseRat) with
    | some fs, some xs =>
      let ev (f : St) (x : Rat) : Val :=
        if kind == "sample" then f.sample x else if kind == "limitleft" then f.limit .left x else f.limit .right x
      (e, " ".intercalate (fs.flatMap fun f => xs.map fun x => showVal (ev f x)))
    | none, _ => unbound
    | _, _ => bad
  | "covm" :: which :: lo :: hi :: ms =>
    match allSome (ms.map e.get), parseOptPt lo, parseOptPt hi with
    | some fs, some lo, some hi =>
      let n := fs.length
      let pairs := (List.range n).flatMap fun i => ((List.range n).filter fun j => if which == "cov" then i ≤ j else i < j).map fun j => (i, j)
      let out := pairs.map fun (i, j) =>
        match fs[i]?, fs[j]? with
        | some f, some g =>
          if which == "cov" then
            match cov f g lo hi 0 true with | .ok v => showVal v | .error _ => "err"
          else
            match corrParts f g lo hi 0 true with
            | .ok (c, vf, vg) => s!"{showVal c},{showVal vf},{showVal vg}" | .error _ => "err"
        | _, _ => "err"
      -- one undefined pair makes the whole matrix call fail in the implementation
      if which == "corr" && out.any (fun t => (t.splitOn "nan").length > 1) then (e, "ERR Undefined")
      else (e, " ".intercalate out)
    | none, _, _ => unbound
    | _, _, _ => bad
  | ["frame", r] =>
    match e.get r with
    | none => unbound
    | some f => (e, showFrame f)
  | "limit" :: r :: side :: xs =>
    match e.get r, parseSide side, allSome (xs.map parseRat) with
    | none, _, _ => unbound
    | some f, some sd, some xs => (e, " ".intercalate (xs.map fun x => showVal (f.limit sd x)))
    | _, _, _ => bad
  | "sample" :: r :: xs =>
    match e.get r, allSome (xs.map parseRat) with
    | none, _ => unbound
    | some f, some xs => (e, " ".intercalate (xs.map fun x => showVal (f.sample x)))
    | _, _ => bad
  | ["ident", a, b] =>
    match getOperand e a, getOperand e b with
    | some x, some y =>
      match sanitize x y with
      | some (f, g) => (e, toString (identical f g))
      | none => bad
    | _, _ => unbound
  | ["bool", r] =>
    match e.get r with
    | none => unbound
    | some f => (e, toString (toBool f))
  | ["nsteps", r] =>
    match e.get r with
    | none => unbound
    | some f => (e, toString f.numberOfSteps)
  | ["closed", r] =>
    match e.get r with
    | none => unbound
    | some f => (e, showSide f.closed)
  | ["stat", r, name, lo, hi, c] =>
    match e.get r with
    | none => unbound
    | some f =>
      match parseOptPt lo, parseOptPt hi, parseIClosed f.closed c with
      | some lo, some hi, some c => match statOf f name lo hi c with | some s => (e, s) | none => bad
      | _, _, _ => bad
  | ["vir", r, lo, hi, c] =>
    match e.get r with
    | none => unbound
    | some f =>
      match parseOptPt lo, parseOptPt hi, parseIClosed f.closed c with
      | some lo, some hi, some c => (e, " ".intercalate ((valuesInRange f lo hi c).map showRat))
      | _, _, _ => bad
  | ["vsums", r] =>
    match e.get r with
    | none => unbound
    | some f => (e, " ".intercalate ((valueSums f).map fun (v, l) => s!"{showRat v}:{showRat l}"))
  | "ecdf" :: r :: side :: ys =>
    match e.get r, parseSide side, allSome (ys.map parseRat) with
    | none, _, _ => unbound
    | some f, some sd, some ys => (e, " ".intercalate (ys.map fun y => showVal ((ecdf f).limit sd y)))
    | _, _, _ => bad
  | "ecdfs" :: r :: ys =>
    match e.get r, allSome (ys.map parseRat) with
    | none, _ => unbound
    | some f, some ys => (e, " ".intercalate (ys.map fun y => showVal ((ecdf f).sample y)))
    | _, _ => bad
  | "perc" :: r :: ps =>
    match e.get r, allSome (ps.map parseRat) with
    | none, _ => unbound
    | some f, some ps => (e, " ".intercalate (ps.map fun p => showVal (percentile f p)))
    | _, _ => bad
  | "frac" :: r :: ps =>
    match e.get r, allSome (ps.map parseRat) with
    | none, _ => unbound
    | some f, some ps => (e, " ".intercalate (ps.map fun p => showVal (fractile f p)))
    | _, _ => bad
  | ["quant", r, q] =>
    match e.get r, q.toNat? with
    | none, _ => unbound
    | some f, some q => (e, " ".intercalate ((quantiles f q).map showVal))
    | _, _ => bad
  | "hist" :: r :: cl :: stat :: bins =>
    match e.get r with
    | none => unbound
    | some f =>
      let st : Option HistStat := match stat with
        | "sum" => some .sum | "frequency" => some .frequency | "density" => some .density
        | "probability" => some .probability | _ => none
      let bs := if bins == ["unit"] then some [] else allSome (bins.map fun b => match b.splitOn ":" with
        | [l, r] => do let l ← parseRat l; let r ← parseRat r; pure (l, r)
        | _ => none)
      match parseSide cl, st, bs with
      | some cl, some st, some bs =>
        if bins == ["unit"] then
          let ub := unitBins f cl
          (e, " ".intercalate (((hist f ub cl st).zip ub).map fun (v, lr) => s!"{showRat lr.1}:{showRat lr.2}={showVal v}"))
        else (e, " ".intercalate ((hist f bs cl st).map showVal))
      | _, _, _ => bad
  | [which, a, b, lo, hi, lag, cp] =>
    if which == "cov" || which == "corr" then
      match e.get a, e.get b with
      | some f, some g =>
        match parseOptPt lo, parseOptPt hi, parseRat lag with
        | some lo, some hi, some lag =>
          let pre := cp == "pre"
          if which == "cov" then
            match cov f g lo hi lag pre with
            | .ok (some v) => (e, showRat v)
            | .ok none => (e, "ERR Undefined")
            | .error err => (e, showErr err)
          else
            match corrParts f g lo hi lag pre with
            | .ok (c, vf, vg) =>
              -- without a finite piece on which both are defined there is no deviation to divide by
              -- (nor, when the product has no finite defined piece - possible only over an unbounded window, where
              -- the canonical product can merge its finite pieces away - a covariance: the library then answers NaN on
              -- numeric domains and raises TypeError on datetime domains)
              if vf.isNone || vg.isNone || c.isNone then (e, "ERR Undefined")
              else (e, s!"{showVal c} {showVal vf} {showVal vg}")
            | .error err => (e, showErr err)
        | _, _, _ => bad
      | _, _ => unbound
    else bad
  | _ => bad

def step (e : Env) (line : String) : Env × String :=
  let toks := (line.trimAscii.toString.splitOn " ").filter (· ≠ "")
  if distUndefined e toks then (e, "ERR Undefined") else stepCore e line

partial def loop (h : IO.FS.Stream) (out : IO.FS.Stream) (e : Env) : IO Unit := do
  let line ← h.getLine
  if line.isEmpty then return ()
  let (e', o) := step e line
  out.putStrLn o
  loop h out e'

def main : IO Unit := do
  let out ← IO.getStdout
  loop (← IO.getStdin) out []
  out.flush
